#!/bin/sh
# merge a builder branch: generated files are regenerated rather than merged
set -e
cd /verif
git merge --no-edit "$1" >/dev/null 2>&1 || true
for f in MANIFEST.json lean/SwimVerif.lean lean/SwimVerif/Registry.lean lean/Main.lean; do
  git checkout --ours -- "$f" 2>/dev/null || true
done
python3 tools/genreg.py >/dev/null
python3 tools/mkmanifest.py
git add -A
if git diff --cached --name-only --diff-filter=U | grep -q .; then echo "UNRESOLVED:"; git diff --cached --name-only --diff-filter=U; exit 1; fi
git status --short | grep "^UU\|^AA" && exit 1
git commit -qm "Merge $1" && echo merged "$1"
