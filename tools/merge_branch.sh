#!/bin/sh
# merge a builder branch: generated files are regenerated rather than merged
set -e
cd /verif
git merge --no-edit "$1" >/dev/null 2>&1 || true
for f in MANIFEST.json lean/SwimVerif.lean lean/SwimVerif/Registry.lean lean/Main.lean; do
  git checkout --ours -- "$f" 2>/dev/null || true
  git add "$f" 2>/dev/null || true
done
# evidence files are rewritten by every run: keep ours
for f in $(git diff --name-only --diff-filter=U | grep '^evidence/' || true); do git checkout --ours -- "$f"; git add "$f"; done
# generated tables are regenerated from /repo
for f in $(git diff --name-only --diff-filter=U | grep '^lean/SwimVerif/Generated/' || true); do git checkout --theirs -- "$f"; git add "$f"; done
python3 tools/extract.py >/dev/null 2>&1 || true
if git diff --name-only --diff-filter=U | grep -q .; then echo "UNRESOLVED (fix, then re-run genreg/mkmanifest and commit):"; git diff --name-only --diff-filter=U; exit 1; fi
python3 tools/genreg.py >/dev/null
python3 tools/mkmanifest.py
git add -A
git commit -qm "Merge $1" && echo merged "$1"
