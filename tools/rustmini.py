"""A very small parser for the statement structure of Rust function bodies (used by the translators in
tools/extractors/): sequences, `if` / `else if` / `else` chains (incl. `if let`), `loop { }`, `;`-terminated statements and
tail expressions.  Statements and conditions are returned as white-space normalised TEXT; the translators map them to
their vocabulary by exact match and fail on anything else."""
import re
from extract import ExtractError


def strip_comments(t):
    t = re.sub(r"//[^\n]*", "", t)
    t = re.sub(r"/\*.*?\*/", "", t, flags=re.S)
    return t


def norm(s):
    return re.sub(r"\s+", " ", s).strip()


def balanced(t, i):
    """t[i] == '{' -> index just after the matching '}'"""
    assert t[i] == "{"
    d = 0
    for j in range(i, len(t)):
        if t[j] == "{":
            d += 1
        elif t[j] == "}":
            d -= 1
            if d == 0:
                return j + 1
    raise ExtractError("unbalanced braces")


def impl_block(t, header_re, what, nth=0, count=1):
    ms = [m for m in re.finditer(header_re, t)]
    if len(ms) != count:
        raise ExtractError(f"{what}: expected {count} impl block(s) /{header_re}/, found {len(ms)}")
    m = ms[nth]
    i = t.index("{", m.end() - 1)
    return t[i + 1:balanced(t, i) - 1]


def fn_body(block, name, sig_re, what):
    """body of `fn name` inside an impl block; the signature (normalised) must match sig_re exactly"""
    ms = [m for m in re.finditer(r"\bfn\s+" + name + r"\b", block)]
    if len(ms) != 1:
        raise ExtractError(f"{what}: expected exactly one fn {name}, found {len(ms)}")
    i = block.index("{", ms[0].end())
    sig = norm(block[ms[0].start():i])
    if not re.fullmatch(sig_re, sig):
        raise ExtractError(f"{what}: signature of {name} changed: {sig!r}")
    return block[i + 1:balanced(block, i) - 1]


def parse_block(s, tail):
    """-> list of ('stmt', text, is_tail) | ('if', cond, then_list, else_list, is_tail)"""
    out, i, n = [], 0, len(s)
    while True:
        while i < n and s[i].isspace():
            i += 1
        if i >= n:
            break
        if re.match(r"loop\s*\{", s[i:]):
            j = s.index("{", i)
            e = balanced(s, j)
            out.append(("loop", parse_block(s[j + 1:e - 1], False)))
            i = e
            continue
        if re.match(r"if\b", s[i:]):
            node, i = parse_if(s, i)
            # is this `if` the last thing of the block?
            rest = s[i:].strip()
            node_tail = tail and rest == ""
            out.append(fix_tail(node, node_tail))
            continue
        j, d = i, 0
        while j < n:
            c = s[j]
            if c in "([{":
                d += 1
            elif c in ")]}":
                d -= 1
            elif c == ";" and d == 0:
                break
            j += 1
        text = norm(s[i:j])
        is_tail = tail and j >= n
        out.append(("stmt", text, is_tail))
        i = j + 1
    return out


def parse_if(s, i):
    assert s[i:i + 2] == "if"
    j = s.index("{", i)
    cond = norm(s[i + 2:j])
    e = balanced(s, j)
    then_src = s[j + 1:e - 1]
    k = e
    while k < len(s) and s[k].isspace():
        k += 1
    else_src, else_if = None, None
    if re.match(r"else\b", s[k:]):
        k += 4
        while s[k].isspace():
            k += 1
        if re.match(r"if\b", s[k:]):
            else_if, k = parse_if(s, k)
        elif s[k] == "{":
            e2 = balanced(s, k)
            else_src = s[k + 1:e2 - 1]
            k = e2
        else:
            raise ExtractError("malformed else")
    return ("rawif", cond, then_src, else_src, else_if), k


def fix_tail(node, tail):
    _, cond, then_src, else_src, else_if = node
    then_l = parse_block(then_src, tail)
    if else_if is not None:
        else_l = [fix_tail(else_if, tail)]
    elif else_src is not None:
        else_l = parse_block(else_src, tail)
    else:
        else_l = []
    return ("if", cond, then_l, else_l, tail)



def seq(items):
    if not items:
        return ".skip"
    if len(items) == 1:
        return items[0]
    return f"(.seq {items[0]} {seq(items[1:])})"


