#!/bin/sh
# Offline setup after a fresh restore: build the Lean library + driver and the harness crates.
set -e
cd "$(dirname "$0")/.."
export CARGO_NET_OFFLINE=true
python3 tools/extract.py >/dev/null || true
(cd lean && lake build)
for c in harness/*/; do
  [ -f "$c/Cargo.toml" ] && (cd "$c" && cargo build --offline --bins ${VERIF_FEATURES:+--features $VERIF_FEATURES} 2>&1 | tail -3)
done
echo setup done
