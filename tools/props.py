"""Per-property configuration of the check pipeline: one file per property in tools/props/<id>.py defining PROP.

PROP keys: generated (extractor names), lean_modules (sources scanned for forbidden constructs), engines (list of
{name, crate, bin, machine, cases:{quick,thorough}, [features], [gen_args], [shards], [min_shard], [modes], [timeout]}),
level_text, level_note, trusted_base, assumptions, [technique], [rule].
"""
import glob, importlib.util, os, sys

_D = os.path.join(os.path.dirname(os.path.abspath(__file__)), "props")
sys.path.insert(0, _D)
from common import COMMON_TRUST, HOOK_COMMITS, PENDING  # noqa: E402,F401

PROPS = {}
for _p in sorted(glob.glob(os.path.join(_D, "C*.py"))):
    _n = os.path.splitext(os.path.basename(_p))[0]
    _spec = importlib.util.spec_from_file_location("prop_" + _n, _p)
    _m = importlib.util.module_from_spec(_spec)
    _spec.loader.exec_module(_m)
    PROPS[_n] = _m.PROP
