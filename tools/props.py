"""Per-property configuration of the check pipeline (tools/check.py)."""

COMMON_TRUST = [
    "Lean 4.33.0 kernel; axioms limited to propext, Classical.choice, Quot.sound (audited per theorem by #print axioms)",
    "Lean compiler/runtime for the compiled model driver (svdriver)",
    "tools/extract.py (constants regenerated from /repo on every run)",
    "the Rust correspondence harness (generators, canonicalisation) and the verif_hooks re-exports",
]

# commits in /repo that add the `verif_hooks` feature (add-only re-exports)
HOOK_COMMITS = []

# properties not (yet) claimed: reason shown in MANIFEST.not_applicable
PENDING = {}

PROPS = {
    "C12": {
        "generated": ["CoopConsts"],
        "lean_modules": ["SwimVerif.Model.Conduit", "SwimVerif.Model.ConduitMon", "SwimVerif.Proofs.Conduit",
                         "SwimVerif.Generated.CoopConsts"],
        "engines": [
            {"name": "conduit", "crate": "core", "bin": "sv-c12", "machine": "c12",
             "cases": {"quick": 4000, "thorough": 400000}, "min_shard": 1000},
        ],
        "trusted_base": COMMON_TRUST + [
            "modelled, not verified: parking_lot::Mutex (each poll is one atomic step), std::task::Waker, bytes::BytesMut",
        ],
        "level_text": "Proof: for every capacity >= 1 and every sequence of poll_read/poll_write/flush/shutdown/drop/"
                      "budget operations, an invariant proved by induction gives FIFO-prefix, boundedness, EOF after "
                      "drain, failure after close and no-lost-wake-up (+ progress) for the model of Conduit + coop "
                      "budget; the model is tied to the real byte_channel by differential execution with counting "
                      "wakers (poll results, bytes and which waker fired, step by step).",
        "level_note": "Trusted: Lean kernel, compiled driver, harness; modelled not verified: the mutex (polls are "
                      "atomic), Waker, BytesMut. Real multi-threaded schedules are covered only through the "
                      "atomicity assumption.",
        "assumptions": [
            "each poll of either half runs atomically under the channel mutex",
            "one task per half (the waker passed by a half is always that task's waker)",
        ],
    },
    "C17": {
        "generated": ["TimeoutConsts"],
        "lean_modules": ["SwimVerif.Model.TimeoutCoord", "SwimVerif.Proofs.TimeoutCoord",
                         "SwimVerif.Generated.TimeoutConsts"],
        "engines": [
            {"name": "coord-random", "crate": "core", "bin": "sv-c17", "machine": "c17",
             "features": [], "cases": {"quick": 6000, "thorough": 600000}, "min_shard": 1000},
            {"name": "coord-exh2", "crate": "core", "bin": "sv-c17", "machine": "c17", "shards": 1,
             "cases": {"quick": 1, "thorough": 1},
             "gen_args": {"quick": ["exhaustive", "2", "5"], "thorough": ["exhaustive", "2", "7"]}},
            {"name": "coord-exh3", "crate": "core", "bin": "sv-c17", "machine": "c17", "shards": 1,
             "cases": {"quick": 1, "thorough": 1},
             "gen_args": {"quick": ["exhaustive", "3", "4"], "thorough": ["exhaustive", "3", "6"]}},
        ],
        "level_text": "Proof: for 2..8 parties and every interleaving of the voters' atomic steps (fetch_or, the "
                      "load and the compare_exchange of the rescind loop, drop) and receiver polls: the flag set "
                      "equals the set of outstanding votes, unanimity is stable, Unanimous/UnanimityPending answers "
                      "are sound, a withdrawn vote blocks the stop until re-cast, a dropped party counts as voted. "
                      "Tied to the real coordinator by differential execution at operation granularity (random + "
                      "exhaustive small scope for 2 and 3 parties).",
        "level_note": "Atomics are modelled as a total modification order on one location (guaranteed by Rust even for "
                      "Relaxed); AtomicWaker and the Acquire/Release pairing with the receiver are trusted; the "
                      "implementation is exercised single-threaded, the interleavings are covered by the theorem.",
        "trusted_base": COMMON_TRUST + [
            "modelled, not verified: AtomicU8 (single-location total order), futures::task::AtomicWaker",
        ],
        "assumptions": ["each voter is used by one thread at a time (Voter is !Sync)",
                        "single-location atomic operations are linearizable"],
    },
}
