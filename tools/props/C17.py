from common import COMMON_TRUST

PROP = {
    "generated": ["TimeoutConsts", "TimeoutSrc"],
    "lean_modules": ["SwimVerif.Model.TimeoutCoord", "SwimVerif.Proofs.TimeoutCoord",
                     "SwimVerif.Generated.TimeoutConsts", "SwimVerif.Model.InactivityRt",
                     "SwimVerif.Proofs.InactivityRt", "SwimVerif.Model.CoordThreads", "SwimVerif.Model.InactivityDl",
                     "SwimVerif.Proofs.InactivityDl", "SwimVerif.Model.CoordPoll", "SwimVerif.Proofs.CoordPoll",
                     "SwimVerif.Model.CoordProg", "SwimVerif.Proofs.CoordProg", "SwimVerif.Generated.TimeoutSrc"],
    "engines": [
        {"name": "coord-random", "crate": "core", "bin": "sv-c17", "machine": "c17",
         "features": [], "cases": {"quick": 6000, "thorough": 600000}, "min_shard": 1000},
        {"name": "coord-exh2", "crate": "core", "bin": "sv-c17", "machine": "c17", "shards": 1,
         "cases": {"quick": 1, "thorough": 1},
         "gen_args": {"quick": ["exhaustive", "2", "5"], "thorough": ["exhaustive", "2", "7"]}},
        {"name": "coord-exh3", "crate": "core", "bin": "sv-c17", "machine": "c17", "shards": 1,
         "cases": {"quick": 1, "thorough": 1},
         "gen_args": {"quick": ["exhaustive", "3", "4"], "thorough": ["exhaustive", "3", "6"]}},
        # the coordinator as it is USED: the real agent runtime (read / write / HTTP task + attachment task) under
        # `AgentRouteTask::run_agent` with a small inactive_timeout on a paused clock, scripts of remote, agent and HTTP
        # activity and clock advances; stop / no stop, stop time and disconnection reason compared with the model
        {"name": "rt-inactivity", "crate": "core", "bin": "sv-c17x", "machine": "c17rt", "gen_args": ["rt"],
         "cases": {"quick": 8000, "thorough": 400000}, "min_shard": 1000, "nontrivial_min_ops": 4},
        # the same for the downlink runtime (two parties: read and write task of the real ValueDownlinkRuntime with a
        # small empty_timeout): consumers attach and leave, the remote lane sends events, the clock advances
        {"name": "dl-inactivity", "crate": "core", "bin": "sv-c17x", "machine": "c17dl", "gen_args": ["dl"],
         "cases": {"quick": 6000, "thorough": 300000}, "min_shard": 1000, "nontrivial_min_ops": 3},
        # the real coordinator, one OS thread per voter (2 and 3 parties): monitor only
        {"name": "coord-threads", "crate": "core", "bin": "sv-c17x", "machine": "c17th", "modes": ["monitor"],
         "gen_args": ["threads"], "cases": {"quick": 16000, "thorough": 800000}, "min_shard": 1000,
         "nontrivial_min_ops": 1},
    ],
    "level_text": "Proof: for 2..8 parties and every interleaving of the voters' atomic steps (fetch_or, the "
                  "load and the compare_exchange of the rescind loop, drop) and receiver polls: the flag set "
                  "equals the set of outstanding votes, unanimity is stable, Unanimous/UnanimityPending answers "
                  "are sound, a withdrawn vote blocks the stop until re-cast, a dropped party counts as voted. "
                  "Tied to the real coordinator by differential execution at operation granularity (random + "
                  "exhaustive small scope for 2 and 3 parties). The coordinator AS USED: a composed model of the agent "
                  "runtime's read, write and HTTP task (each a voter with its busy flag and timer) and of the stop rule "
                  "of AgentRuntimeTask::run, for every timeout and every script of remote / agent / HTTP activity and "
                  "clock advances: the runtime stops by the vote only when no task is busy, all three votes are "
                  "outstanding and a full timeout has passed since each task's last activity; a task that becomes busy "
                  "blocks the stop until the agent reads; once every flag is set the run has ended; a task told "
                  "Unanimous has set the last flag; with nobody busy and nothing happening for a full timeout the "
                  "runtime stops (liveness). Tied to the real AgentRouteTask::run_agent (paused clock, stop "
                  "time and DisconnectionReason compared) and, for the two-party case, to the real "
                  "ValueDownlinkRuntime; the real coordinator is also stressed with one OS thread per voter "
                  "(monitor).",
    "level_note": "Atomics are modelled as a total modification order on one location (guaranteed by Rust even for "
                  "Relaxed); AtomicWaker and the Acquire/Release pairing with the receiver are trusted; the "
                  "implementation is exercised single-threaded by the differential engines (the interleavings are "
                  "covered by the theorem) and multi-threaded by coord-threads (monitor only; it includes waiter rounds in "
                  "which the final vote races with load/register/load of Receiver::poll: the order of those steps is "
                  "below the atomic poll of the main model and is proved separately over Model/CoordPoll, "
                  "C17_poll_no_lost_wakeup, with the one-load variant refuted). 'Stops only by the "
                  "unanimous vote' is false of the agent runtime (C17-N1: no remotes => the write task stops it alone); "
                  "the downlink runtime model has safety theorems only (its timers are not in the theorems). Translator tie: "
                  "the statement structure of vote / rescind / Drop / poll is regenerated from timeout_coord/mod.rs on every "
                  "run (Generated/TimeoutSrc.lean); C17_source_is_model proves the generated programs equal to the model's API "
                  "steps and C17_source_atomic_accesses that their accesses to the shared word and the AtomicWaker are, in "
                  "program order, exactly the atomic steps the interleaving models use (incl. load / register / load in poll); "
                  "the vocabulary tables of tools/extractors/c17.py and the meaning CoordProg.execC gives each primitive are trusted.",
    "trusted_base": COMMON_TRUST + [
        "modelled, not verified: AtomicU8 (single-location total order), futures::task::AtomicWaker",
        "tokio's paused clock (timers fire in deadline order at their exact instants); the harness's bookkeeping of "
        "which task is blocked (one request frame per lane input, HTTP lane queue of length 1)",
    ],
    "assumptions": ["each voter is used by one thread at a time (Voter is !Sync)",
                    "runtime model: remotes are not pruned, writes to remotes do not stall, lanes are not added "
                    "after start; downlink model: linked remote lane, consumers without SYNC, drained socket",
                    "single-location atomic operations are linearizable"],
}
