from common import COMMON_TRUST

PROP = {
    "generated": ["FormConsts", "FormImpls"],
    "lean_modules": ["SwimVerif.Model.FormSchema", "SwimVerif.Model.FormWF", "SwimVerif.Model.FormIO",
                     "SwimVerif.Model.FormMon", "SwimVerif.Proofs.FormSchema", "SwimVerif.Proofs.FormTypes", "SwimVerif.Proofs.FormReset",
                     "SwimVerif.Generated.FormConsts"],
    "engines": [
        # model of as_value / try_from_value against the real derive output, on written and on mutated values
        {"name": "form-model", "crate": "form", "bin": "sv-c16", "machine": "c16",
         "features": [], "cases": {"quick": 24000, "thorough": 1600000}, "min_shard": 2000,
         "gen_args": ["model"], "nontrivial_min_ops": 4},
        # the three laws on the implementation alone: model round trip, two Recon reading paths, MessagePack
        {"name": "form-paths", "crate": "form", "bin": "sv-c16", "machine": "c16", "modes": ["monitor"],
         "features": [], "cases": {"quick": 24000, "thorough": 800000}, "min_shard": 2000,
         "gen_args": ["paths"], "nontrivial_min_ops": 4},
    ],
    "level_text": "Proof: for every schema satisfying the explicit decidable condition tyWF (all combinations of "
                  "tag/rename, header_body, header, attr, slot, body, skip over integer kinds, bool, text, unit, Option, "
                  "Vec, nested derived structs, tuple and unit structs, newtypes and enums) and every instance, try_from_value(as_value(x)) = x, also in "
                  "attribute and delegated-body position; omitted fields are exactly those on_absent restores; wrong "
                  "tags / non-records are rejected. Each tyWF condition the derive macro does not enforce is shown "
                  "necessary by a witness the macro accepts (model and real code). The model (layout + recognisers on "
                  "bridge events, incl. tuple structs, newtypes, enums) is tied to the real derive output by "
                  "differential execution over a battery of about 500 types (100 base types incl. every hand-written Form impl of swimos_form for std/library types - enumerated from the source, coverage enforced by the extractor - and maps with compound keys, each also as Vec / Option / struct field / HashMap value, so that reset-and-reused recognisers are exercised) on written and mutated values; the two "
                  "Recon reading paths, the MessagePack round trip and 'one decoder instance = fresh reads' are decided on "
                  "the implementation by a monitor.",
    "level_note": "The proc-macro expansion is exercised (battery), not modelled; a newtype used as #[form(body)] is in the "
                  "executable model and the correspondence but outside the theorem's tyWF fragment; the Recon "
                  "parser and the MessagePack byte level are not modelled (implementation-vs-implementation oracles); "
                  "floats, blobs, big integers, generic Value and map fields are exercised implementation-side only.",
    "trusted_base": COMMON_TRUST + [
        "hand-written schema descriptors of the battery types in sv-c16.rs (checked against the model by the as_value diff)",
        "modelled, not verified: the expansion of #[derive(Form)], nom Recon parser, rmp",
    ],
    "assumptions": ["instances satisfy okInst (skipped fields hold Default::default())",
                    "Value inputs of the model engine use the integer/bool/text/record kinds only"],
}
