from common import COMMON_TRUST

PROP = {
    "generated": ["FormConsts", "FormImpls"],
    "lean_modules": ["SwimVerif.Model.FormSchema", "SwimVerif.Model.FormWF", "SwimVerif.Model.FormIO",
                     "SwimVerif.Model.FormMon", "SwimVerif.Proofs.FormSchema", "SwimVerif.Proofs.FormTypes", "SwimVerif.Proofs.FormReset",
                     "SwimVerif.Generated.FormConsts", "SwimVerif.Model.MsgPack", "SwimVerif.Model.MsgPackIO",
                     "SwimVerif.Proofs.MsgPack"],
    "engines": [
        # model of as_value / try_from_value against the real derive output, on written and on mutated values
        {"name": "form-model", "crate": "form", "bin": "sv-c16", "machine": "c16",
         "features": [], "cases": {"quick": 24000, "thorough": 1600000}, "min_shard": 2000,
         "gen_args": ["model"], "nontrivial_min_ops": 4},
        # the three laws on the implementation alone: model round trip, two Recon reading paths, MessagePack
        {"name": "form-paths", "crate": "form", "bin": "sv-c16", "machine": "c16", "modes": ["monitor"],
         "features": [], "cases": {"quick": 24000, "thorough": 800000}, "min_shard": 2000,
         "gen_args": ["paths"], "nontrivial_min_ops": 4},
        # byte-level MessagePack model (Model/MsgPack.lean) against the real writer and reader on generic Values,
        # written bytes, trailing bytes, every truncation of small values, flipped / inserted / deleted bytes
        {"name": "form-msgpack", "crate": "form", "bin": "sv-c16mp", "machine": "c16mp",
         "features": [], "cases": {"quick": 6000, "thorough": 300000}, "min_shard": 1500,
         "gen_args": [], "nontrivial_min_ops": 4},
    ],
    "level_text": "Proof: for every schema satisfying the explicit decidable condition tyWF (all combinations of "
                  "tag/rename, header_body, header, attr, slot, body, skip over integer kinds, bool, text, unit, Option, "
                  "Vec, nested derived structs, tuple and unit structs, newtypes and enums) and every instance, try_from_value(as_value(x)) = x, also in "
                  "attribute and delegated-body position; omitted fields are exactly those on_absent restores; wrong "
                  "tags / non-records are rejected. Each tyWF condition the derive macro does not enforce is shown "
                  "necessary by a witness the macro accepts (model and real code). The model (layout + recognisers on "
                  "bridge events, incl. tuple structs, newtypes, enums) is tied to the real derive output by "
                  "differential execution over a battery of about 500 types (100 base types incl. every hand-written Form impl of swimos_form for std/library types - enumerated from the source, coverage enforced by the extractor - and maps with compound keys, each also as Vec / Option / struct field / HashMap value, so that reset-and-reused recognisers are exercised) on written and mutated values; the two "
                  "Recon reading paths, derived types with generic Value fields in every position (body, header_body, header, attr, slot, "
                  "Option, Vec, tuple struct, newtype, enum variants; battery X02, X03, X13-X22, boundary shapes of the Value recognisers: "
                  "every path - model, three printers x two Recon readers, reused recogniser, MessagePack typed and generic - compared with the instance, op vrt), "
                  "the MessagePack round trip of the battery types and 'one decoder instance = fresh reads' are decided on "
                  "the implementation by a monitor. MessagePack byte level (generic Value path): an executable model of the "
                  "swimos_msgpack writer (rmp minimal integer encodings, str/bin/map/array/ext size classes, big integers as "
                  "ext 0/1, attributes as a map header + str names, map vs array bodies, slots as 2-arrays) and of the reader "
                  "composed with ValueMaterializer; proved for ALL float-free values: read(write(v) ++ rest) = (norm v, rest) "
                  "where norm only re-kinds machine integers and is invisible to Value::eq, and every strict prefix of write(v) is rejected "
                  "(C16_msgpack_tokens, C16_msgpack_value_roundtrip, _norm_equiv, _truncated_rejected — unconditional, token level included); tied to the real "
                  "crate by differential execution on written, extended, truncated and byte-mutated streams.",
    "level_note": "The proc-macro expansion is exercised (battery), not modelled; a newtype used as #[form(body)] is in the "
                  "executable model and the correspondence but outside the theorem's tyWF fragment; the Recon "
                  "parser is not modelled (implementation-vs-implementation oracle); the MessagePack byte model covers the "
                  "generic Value path only (typed recognisers reading MessagePack are decided by the monitor), excludes float "
                  "tokens (0xca/0xcb: the framework keeps floats as decimals, mutants containing such a byte are not compared) and "
                  "lengths >= 2^32; "
                  "floats, blobs, big integers, generic Value and map fields of derived types are exercised implementation-side only "
                  "(monitor-only: Ty has no generic-Value kind; the Recon paths of vrt are relative to C09, i.e. checked only for texts the "
                  "generic parser reads back as the printed value).",
    "trusted_base": COMMON_TRUST + [
        "hand-written schema descriptors of the battery types in sv-c16.rs (checked against the model by the as_value diff)",
        "modelled, not verified: the expansion of #[derive(Form)], nom Recon parser, rmp (its encoders are part of the MsgPack model, checked by the byte diff), num-bigint to_bytes_be/from_bytes_be",
        "the value encoding <venc> shared with C09 (renderer in sv-c16mp.rs, parser in Model/ReconProto.lean)",
    ],
    "assumptions": ["instances satisfy okInst (skipped fields hold Default::default())",
                    "Value inputs of the model engine use the integer/bool/text/record kinds only"],
}
