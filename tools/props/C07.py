from common import COMMON_TRUST

PROP = {
    "generated": ["DownlinkConsts"],
    "lean_modules": ["SwimVerif.Model.DownlinkRt", "SwimVerif.Proofs.DownlinkRead", "SwimVerif.Proofs.DownlinkWrite", "SwimVerif.Proofs.DownlinkSys",
                     "SwimVerif.Generated.DownlinkConsts", "SwimVerif.Model.WriteTask"],
    "engines": [
        {"name": "dlrt", "crate": "core", "bin": "sv-c07", "machine": "c07",
         "cases": {"quick": 120000, "thorough": 2400000}, "min_shard": 1500, "nontrivial_min_ops": 4},
    ],
    "level_text": "Proof: for every sequence of loop events of the downlink runtime's read task (consumers attaching "
                  "with any options at any time, any remote notification sequence incl. uninterpretable map frames, "
                  "consumers dropping, stop) every consumer's notification stream obeys the session grammar "
                  "linked event* [synced event*] unlinked, a registered consumer receives exactly the remote's "
                  "events in order until the link closes, the event delivered with synced is the latest remote "
                  "state; for every sequence of events of the write task (registrations, commands, command "
                  "streams ending, the socket draining any number of bytes, socket/request channel closing; any "
                  "socket capacity and frame sizes) the commands put on the wire are, for a value lane, a "
                  "subsequence of the issued ones ending with the last issued, and for a map lane a per-key "
                  "subsequence that never crosses a clear, so that once the socket has drained the lane has seen "
                  "the fold of everything issued, and a sync frame is owed to a SYNC consumer only while a write is "
                  "pending (none once Idle). The model is tied to the public ValueDownlinkRuntime / "
                  "MapDownlinkRuntime (MapInterpretation and NoInterpretation) by lock-step differential execution (one input, run to idle, compare all "
                  "consumer notifications and socket frames) and a Lean monitor re-decides the property on the "
                  "implementation's traces.",
    "level_note": "The tokio scheduler, select! branch order and bursts of simultaneous inputs are outside the model "
                  "(lock-step: one input at a time, run to idle); the inactivity timeout/vote is not fired (C17); a "
                  "command from a consumer whose registration the write task has not yet taken is excluded by an "
                  "enabling predicate. Three deviations found by this check (F8, C07-F2, C07-F3) have been repaired in "
                  "/repo (7d3b0a2, c2208d5, 47607a1); the monitor keeps their verdicts so a regression is a VIOLATION.",
    "trusted_base": COMMON_TRUST + [
        "modelled, not verified: tokio (paused current_thread runtime, mpsc, select!), futures SelectAll, "
        "tokio_util FramedWrite/FramedRead (feed = encode only below the 8 KiB back-pressure boundary, flush = write "
        "until the buffer is empty), the byte channel (C12: accepts min(len, free) bytes per poll), "
        "RawRequestMessageEncoder / DownlinkNotificationEncoder framing (C10), MapOperationQueue at specification "
        "level (replace in place by key, clear empties; C02), Recon key comparison (keys are small integers)",
    ],
    "assumptions": [
        "one input at a time, the runtime runs to idle before the next (lock-step); consumers read everything sent to them",
        "consumer ids are unique; a consumer issues commands only after the write task has registered it",
        "less than 8 KiB is ever buffered in the socket FramedWrite (feed never blocks)",
        "empty_timeout does not elapse (the stop vote is C17's subject)",
    ],
}
