"""Shared pieces of the per-property configurations."""

COMMON_TRUST = [
    "Lean 4.33.0 kernel; axioms limited to propext, Classical.choice, Quot.sound (audited per theorem by #print axioms)",
    "Lean compiler/runtime for the compiled model driver (svdriver)",
    "tools/extract.py (constants regenerated from /repo on every run)",
    "the Rust correspondence harness (generators, canonicalisation) and the verif_hooks re-exports",
]

# commits in /repo that add the `verif_hooks` feature (add-only re-exports)
HOOK_COMMITS = ["ca42926", "a47a631", "28ca3a3", "1eda3b7", "5330f5e", "0df51d2", "1c3c76a"]

# properties not (yet) claimed: reason shown in MANIFEST.not_applicable
PENDING = {}
