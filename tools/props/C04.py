from common import COMMON_TRUST
from wt_common import WT_LEAN, WT_TRUST, wt_engine, e2e_engine, E2E_TRUST

PROP = {
    "generated": [],
    "lean_modules": WT_LEAN,
    "engines": [
        e2e_engine("C04"),wt_engine("C04")],
    "level_text": "Proof: for every registry and every interleaving of lane events, link/unlink/lane-not-found "
                  "messages and write completions on one remote's Uplinks queue: no event body is ever sent (or "
                  "buffered) that was not pushed for that lane (no fabrication), at most one write is in flight, "
                  "an idle writer means nothing is owed, special messages pre-empt data, a queued unlinked discards "
                  "the lane's pending data. The whole write task (Links + RemoteTracker + WriteTaskState: link, "
                  "unlink, unknown lane, targeted/broadcast events, write failure, lane failure, prune, unlink_all "
                  "+ drain) is modelled and tied to the real WriteTaskState by differential execution, frame by "
                  "frame; the per-(remote, lane) frame language is decided on implementation traces by the Lean "
                  "monitor (open as a theorem).",
    "level_note": "The frame-language statement for the composed write task is checked by monitor + correspondence, "
                  "not proved; the read task, select! ordering and real socket back-pressure are outside the model.",
    "trusted_base": COMMON_TRUST + WT_TRUST + E2E_TRUST,
    "assumptions": ["one WriteTaskEvent is processed at a time (single task)",
                    "a remote id is attached at most once (ids are unique per connection)"],
}
