from common import COMMON_TRUST
from wt_common import WT_LEAN, WT_TRUST, wt_engine, e2e_engine, E2E_TRUST

# The lane/store failure rig (`sv-lanefail` / monitor `lanefail`): the REAL runtime runs a harness-implemented agent whose
# lanes and stores break their output channel on scripted steps (bad tag, garbage, bad map operation, truncated frame,
# dropped channel) while other lanes keep working; closes the gap `lane output -> ResponseReceiver -> Failed::{Lane,
# Store} -> WriteTaskEvent` that `wt` (injects laneFailed into WriteTaskState) and `e2e` (no lane ever fails) leave.
LANEFAIL = {"name": "lanefail", "crate": "core", "bin": "sv-lanefail", "machine": "lanefail", "modes": ["monitor"],
            "reasons": r"lanefail-.*", "cases": {"quick": 24000, "thorough": 600000}, "min_shard": 1500,
            "nontrivial_min_ops": 6, "timeout": 3000}

PROP = {
    "generated": [],
    "lean_modules": WT_LEAN + ["SwimVerif.Model.LinksSys", "SwimVerif.Proofs.Links", "SwimVerif.Proofs.LinksTotal",
                               "SwimVerif.Proofs.LinksAll", "SwimVerif.Proofs.LinkLang",
                               "SwimVerif.Proofs.LinkLangUplinks", "SwimVerif.Proofs.LinkLangRemote",
                               "SwimVerif.Proofs.LinkLangFlow", "SwimVerif.Proofs.LinkLangLinks",
                               "SwimVerif.Proofs.LinkLangState", "SwimVerif.Proofs.LinkLangGInv",
                               "SwimVerif.Proofs.LinkLangDone", "SwimVerif.Proofs.LinkLangStop",
                               "SwimVerif.Model.LaneFail", "SwimVerif.Proofs.LaneFail"],
    "engines": [
        e2e_engine("C04"), wt_engine("C04"), LANEFAIL],
    "level_text": "Proof: for every registry and every interleaving of lane events, link/unlink/lane-not-found "
                  "messages and write completions on one remote's Uplinks queue: no event body is ever sent (or "
                  "buffered) that was not pushed for that lane (no fabrication), at most one write is in flight, "
                  "an idle writer means nothing is owed, special messages pre-empt data, a queued unlinked discards "
                  "the lane's pending data. The whole write task (Links + RemoteTracker + WriteTaskState: link, "
                  "unlink, unknown lane, targeted/broadcast events, write failure, lane failure, prune, unlink_all "
                  "+ drain) is modelled and tied to the real WriteTaskState by differential execution, frame by "
                  "frame. The per-(remote, lane) frame language of the WHOLE write task is proved for the model "
                  "(C04_link_language_partial: every well-formed event sequence with lane names registered once, "
                  "below the checker's key modulus, is accepted: linked before events, nothing after unlinked "
                  "until relinked, synced only while linked, unknown lane => @laneNotFound only), together with "
                  "unknown_lane_one_unlinked and stop_closes_all over reachable states; it is also decided on "
                  "implementation traces by the Lean monitor. The statement without the lane-name condition is "
                  "false (C04_link_language_fails: duplicate lane name; the real WriteTaskState shows the same: "
                  "event after unlinked). The glue from a lane's/store's output channel to the write task "
                  "(ResponseReceiver decoders -> Failed::Lane/Store -> LaneFailed/StoreFailed -> remove_lane) is "
                  "exercised on the REAL runtime by the lanefail rig: every kind of undecodable output (bad tag, "
                  "garbage, bad map operation, truncated frame) on a value, map or supply lane gives every linked "
                  "remote exactly one unlinked and nothing after, other lanes and remotes are unaffected, a failing "
                  "store unlinks nobody, and agent stop closes every remaining link (monitor with an embedded "
                  "reference behaviour; the answers to later requests for a broken lane are pinned as observed).",
    "level_note": "The frame-language theorem is about the model (tied to WriteTaskState by correspondence) and needs "
                  "lane names to be registered once (the runtime does not check this itself; AgentModel does); the "
                  "read task, select! ordering and real socket back-pressure are outside the model.",
    "trusted_base": COMMON_TRUST + WT_TRUST + E2E_TRUST + [
        "lanefail rig: the harness plays the lane/store side of the agent protocol with the raw codecs and lets the "
        "runtime settle (paused tokio clock) after every step; the behaviour of requests addressed to a lane after "
        "its output broke or ended is pinned as observed, not derived from the property text",
    ],
    "assumptions": ["one WriteTaskEvent is processed at a time (single task)",
                    "a remote id is attached at most once (ids are unique per connection)",
                    "a lane name is registered at most once (enforced by swimos_agent's AgentModel, not by the runtime)"],
}
