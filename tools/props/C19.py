from common import COMMON_TRUST

_ENG = {"crate": "core", "bin": "sv-c19", "machine": "c19", "features": [], "nontrivial_min_ops": 2}

PROP = {
    "generated": [],
    "lean_modules": ["SwimVerif.Model.ValueOrd", "SwimVerif.Proofs.ValueOrd"],
    "engines": [
        # the last clause of the property (take / drop of sorted collections): the real map lane with HashMap and
        # BTreeMap backings against the model's key order (shared engine of C02/C03)
        {"name": "ml", "crate": "core", "bin": "sv-ml", "machine": "ml", "modes": ["model"],
         "cases": {"quick": 2000, "thorough": 100000}, "min_shard": 500, "nontrivial_min_ops": 6},
        # every value and every pair of the full boundary pool (220 values), one case per law instance
        dict(_ENG, name="value-pairs", shards=8, cases={"quick": 1, "thorough": 1},
             gen_args={"quick": ["pairs", "8"], "thorough": ["pairs", "8"]}),
        # every ordered triple of the small (51) / core (108) pool + random triples of the full pool
        dict(_ENG, name="value-triples", shards=8, cases={"quick": 40000, "thorough": 1000000},
             gen_args={"quick": ["triples", "8", "0"], "thorough": ["triples", "8", "1"]}),
        # generated values (boundary integers in every kind, floats by bits / ulps / EPSILON steps, nested records)
        # and mutants of them (same number in another kind, neighbours, one record element changed)
        dict(_ENG, name="value-random", cases={"quick": 30000, "thorough": 1000000}, min_shard=2000,
             gen_args={"quick": ["random"], "thorough": ["random"]}),
        # `sort_by(Value::cmp)` (what `drop_or_take` does with map keys) on lists of 2..70 keys of the fragment F:
        # the stable order is unique (theorem), so the result is compared with the model
        dict(_ENG, name="value-sort-F", cases={"quick": 3000, "thorough": 100000}, min_shard=1000,
             nontrivial_min_ops=1, gen_args={"quick": ["sort", "F"], "thorough": ["sort", "F"]}),
        # ... and on arbitrary keys (floats closer than EPSILON, blobs, ...): monitor only, a panic is a violation
        dict(_ENG, name="value-sort-any", cases={"quick": 3000, "thorough": 100000}, min_shard=1000,
             nontrivial_min_ops=1, modes=["monitor"],
             gen_args={"quick": ["sort", "any"], "thorough": ["sort", "any"]}),
    ],
    "rule": "a case is one instance of one law (reflexivity of a value; antisymmetry, cmp=Equal<=>==, symmetry of ==, "
            "== => equal hashes for a pair; transitivity of cmp and of == for a triple): 2-3 questions (cmp/eq/heq) put "
            "to the real Value; distinct = distinct op sequence (sha1), non-trivial = at least 2 ops",
    "level_text": "Proof: on the fragment F (Extant, Boolean, Int32, Int64, UInt32, UInt64, BigInt, BigUint, Text, Data and "
                  "records over F nested to any depth with attributes, items and slots) Value::compare is reflexive, "
                  "antisymmetric, transitive and total, == is an equivalence, compare = Equal exactly when ==, and "
                  "equal values feed the same stream to the hasher -- for ALL values (structural induction), so "
                  "sort_by / BTreeMap / hash maps / take-drop are well defined for such keys; for ALL values (floats "
                  "included) compare and == are reflexive and equal values hash equally (after the fix: commits "
                  "F13-negzero, F13-data-order, F13-inf-refl). With a Float64 anywhere the other laws are false of the "
                  "current code (F13b/c/d, behavioural choices): witnesses proved on the model and replayed on Value. The model (all 144 cells, PartialEq, hash key, exact f64 arithmetic) is tied to "
                  "the real Value by differential execution on all pairs of a 220-value boundary pool, all triples "
                  "of a sub-pool, and generated/mutated values; the law monitor runs on the implementation's "
                  "answers alone and classifies every violation by (law, kinds).",
    "level_note": "Hash agreement is observed through std's DefaultHasher (a 64-bit collision would be reported as a "
                  "model disagreement); num-bigint, f64 hardware arithmetic and str/Vec hashing are modelled, not "
                  "verified. Float cells are covered by the exact model + correspondence (and by the all-values theorems for "
                  "reflexivity and hash coherence), not by the order theorems.",
    "trusted_base": COMMON_TRUST + [
        "modelled, not verified: num-bigint (cmp, to_f64, TryFrom), IEEE-754 f64 (as casts, partial_cmp, subtraction), "
        "std Hash for str/Vec/enum discriminants, std DefaultHasher as the observer of hash equality",
    ],
    "assumptions": ["Value::Record keeps attributes before items (guaranteed by its type)",
                    "no 64-bit SipHash collision among the compared values"],
}
