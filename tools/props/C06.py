from common import COMMON_TRUST
from wt_common import e2e_engine

PROP = {
    "generated": ["HandlerFlags", "FlushTable"],
    "lean_modules": ["SwimVerif.Model.Handlers", "SwimVerif.Model.HandlersIO", "SwimVerif.Model.HandlersMon",
                     "SwimVerif.Model.HandlersFlush", "SwimVerif.Proofs.Handlers", "SwimVerif.Proofs.HandlersInv",
                     "SwimVerif.Proofs.HandlersFlush", "SwimVerif.Proofs.HandlersMap", "SwimVerif.Generated.HandlerFlags",
                     "SwimVerif.Generated.FlushTable"],
    "engines": [
        e2e_engine("C06", quick=600, thorough=20000),
        # lock-step: one request at a time, run to quiescence; model diff + monitor
        {"name": "handlers-seq", "crate": "core", "bin": "sv-c06", "machine": "c06",
         "cases": {"quick": 40000, "thorough": 1800000}, "min_shard": 2000, "nontrivial_min_ops": 2},
        # bursts of requests on several lanes with suspended futures: the order in which the real agent task picks
        # them (tokio select!) is not modelled, the monitor decides the property on the trace alone
        {"name": "handlers-burst", "crate": "core", "bin": "sv-c06", "machine": "c06", "modes": ["monitor"],
         "gen_args": ["burst"], "cases": {"quick": 20000, "thorough": 900000}, "min_shard": 2000,
         "nontrivial_min_ops": 2},
        # the same agent run through the public Agent::run with the HARNESS as the runtime (AgentContext): lane
        # outputs of 1..64 bytes read only on scripted steps (`rd`), sync requests and updates queueing up behind a
        # write in flight (WriteResult::DataStillAvailable, late WriteComplete); lock-step: model diff + monitor
        {"name": "handlers-slow", "crate": "core", "bin": "sv-c06", "machine": "c06", "gen_args": ["slow"],
         "cases": {"quick": 16000, "thorough": 600000}, "min_shard": 2000, "nontrivial_min_ops": 2},
        # ... with bursts of requests and sync requests in flight: monitor only
        {"name": "handlers-slow-burst", "crate": "core", "bin": "sv-c06", "machine": "c06", "modes": ["monitor"],
         "gen_args": ["slowburst"], "cases": {"quick": 8000, "thorough": 300000}, "min_shard": 2000,
         "nontrivial_min_ops": 2},
    ],
    "level_text": "Proof: for every handler program of the modelled language (effect/get/set/get-and_then-set/map "
                  "update, remove, clear, get, transform_entry (all four arms), with_entry, the take/drop commands "
                  "(MapLaneDropOrTake/MapLaneRemoveMultiple: removals one per step in ascending key order)/followed_by/and_then/Sequentially/Either/Option/fail/stop/suspend, in "
                  "every intermediate state of the real combinators), every lifecycle (cyclic ones included), every "
                  "agent state and every recursion bound, the small-step model of run_handler (loop over "
                  "HandlerAction::step, recursion on TRIGGER_HANDLER, previous slot consumed by read_with_prev) "
                  "computes the big-step reference 'trigger => run the lane's handlers to completion (on_event then "
                  "on_set prev new; on_update|on_remove|on_clear) => resume; a failure ends everything'. "
                  "Corollaries: true previous value, exactly once per change (previous slots always consumed), "
                  "failure stops the interrupted handlers, rank-decreasing lifecycles never reach the recursion "
                  "bound, on_start first. The write flush of the agent task (write_to_buffer of value/map/command/"
                  "demand-map lanes, the WriteResult match regenerated from the sources, WriteComplete) is modelled: "
                  "for value, map and command lanes no interleaving of flushes, write completions (the runtime reading "
                  "any lane at any time) and write-side changes ever re-dispatches a lifecycle event (exactly once); "
                  "only RequiresEvent (demand-map lanes) does. Lanes are found through lifecycle_item_ids (field "
                  "names) whatever their external names. Tied to the code by differential execution: the same program text is "
                  "interpreted into real boxed handlers (public HandlerContext/HandlerActionExt API) in a derived "
                  "agent + lifecycle run by the REAL agent task (AgentModel via AgentRouteTask::run_agent) with "
                  "commands injected from the runtime side; effect trace, agent status and lane values compared "
                  "with the model; a Lean monitor decides the property on the implementation trace alone. Four of "
                  "the five lanes of the agent are renamed (#[item(name)], #[item(convention)]); sync requests are "
                  "sent; in the slow engines the harness is the runtime (AgentContext) and reads the lanes' small "
                  "output channels only on scripted steps.",
    "level_note": "The derive macros, the runtime task, tokio and the byte channels are exercised, not modelled; the "
                  "order in which the agent task picks simultaneously ready inputs (tokio select!) is sampled "
                  "(burst engine, monitor only), the theorem covers each handler chain. The DecodeAndCommand / "
                  "DecodeAndSet wrappers of runtime requests, demand/supply/join/http lanes, downlinks and "
                  "send_command are outside the model; demand-map lanes (the only RequiresEvent "
                  "users) are modelled at the write flush only and not exercised. Integers are unbounded in the model (i64 in the harness; "
                  "generated values stay small).",
    "trusted_base": COMMON_TRUST + [
        "modelled, not verified: RefCell/Cell lane stores (each handler step is atomic: one agent = one task), "
        "FuturesUnordered (suspended futures that are ready complete in FIFO order), std HashMap (finite map)",
        "exercised, not modelled: #[derive(AgentLaneModel)], #[lifecycle], #[projections] expansions, "
        "swimos_runtime agent runtime task, tokio current_thread runtime with paused clock (quiescence = the "
        "harness timer fires only when every task is idle)",
    ],
    "assumptions": ["one agent runs in one task (handlers are never stepped concurrently)",
                    "the harness lifecycle wraps every lifecycle handler in enter/exit effects and precedes every "
                    "modifying primitive by an intent effect; the model contains the same wrappers"],
    "rule": "cases are agent lifetimes (a generated lifecycle of 14 handler programs + 1..6 requests/bursts, or 2..7 "
            "requests / sync requests / reads of the lane outputs on the slow rig, + stop) "
            "from one SplitMix64 seed; distinct = distinct op sequence (sha1), non-trivial = at least 2 ops",
}
