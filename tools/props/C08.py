from common import COMMON_TRUST

PROP = {
    "generated": [],
    "lean_modules": ["SwimVerif.Model.DownlinkTask", "SwimVerif.Model.DownlinkMon", "SwimVerif.Proofs.DownlinkTask"],
    "engines": [
        # the same seeds give the same notification sequences to both implementations
        {"name": "client", "crate": "core", "bin": "sv-c08", "machine": "c08", "features": [],
         "cases": {"quick": 160000, "thorough": 1500000}, "min_shard": 4000, "gen_args": ["client"]},
        {"name": "hosted", "crate": "core", "bin": "sv-c08", "machine": "c08", "features": [],
         "cases": {"quick": 160000, "thorough": 1500000}, "min_shard": 4000, "gen_args": ["hosted"]},
        {"name": "client-exh", "crate": "core", "bin": "sv-c08", "machine": "c08", "shards": 1,
         "cases": {"quick": 1, "thorough": 1},
         "gen_args": {"quick": ["client", "exhaustive", "5"], "thorough": ["client", "exhaustive", "6"]}},
        {"name": "hosted-exh", "crate": "core", "bin": "sv-c08", "machine": "c08", "shards": 1,
         "cases": {"quick": 1, "thorough": 1},
         "gen_args": {"quick": ["hosted", "exhaustive", "5"], "thorough": ["hosted", "exhaustive", "6"]}},
    ],
    "level_text": "Proof: for both settings of events_when_not_synced and terminate_on_unlinked and every notification "
                  "sequence of the grammar linked ev* synced ev* unlinked (relink ...): the replica of the hosted map "
                  "downlink and of the client map downlink (after the F5/F5b repairs) is the fold of the notifications "
                  "received since linked, for update/remove/clear/take/drop; callbacks fire in notification order with the true old/new values and map; on_synced fires "
                  "exactly once, at synced, with the fold of that moment; client and hosted produce the same callback "
                  "trace (maps: update/remove/clear, and take / drop n<len event by event; values: all). F6 (own writes "
                  "folded into the client replica) is kept as a _fails witness on the model of the current code. Tied to the real swimos_downlink::DownlinkTask and the real hosted downlink channels "
                  "(both through public API) by differential execution one notification at a time (random legal/illegal "
                  "sequences with local writes, failures and reconnects, plus all sequences up to a small depth), and an "
                  "observable-level monitor judges both implementations' callback logs against one reference fold. "
                  "The mode switch of the client tasks is part of the model (op drop-handle: the write handle is dropped and "
                  "run_io continues in its separate Mode::Read loop; close-out: the value task's write fails): proved that for "
                  "both flags, every op sequence and every drop point the state, the callbacks op by op and the termination "
                  "are those of the run in which the handle is never dropped (C08_read_only_mode_same_fold); the harness drops "
                  "the handle at random points of the random scripts (all four flag combinations) and exhaustively over a "
                  "small alphabet (value: depth 5, map: depth 4); hosted channels: handle dropped / handle.stop(). "
                  "Hosted downlinks (map, value and event) are opened through the public builders "
                  "(HandlerContext::*_downlink_builder; seven construction paths: direct, stateless, reversed setters, "
                  "with_state first, reversed, stateless setters then with_state, mixed) for all four flag combinations and "
                  "must give the identical trace on every path (the builder itself is glue and is not modelled); a fraction "
                  "of the cases uses values of 6-18 KB over 512-byte byte channels so that event bodies span many reads.",
    "level_note": "tokio, the byte channels, the notification/map-message codecs and Recon parsing of i32 are exercised, not "
                  "modelled; keys and values are i32 (BTreeMap order = sort order of the hosted drop_or_take). The agent's "
                  "event loop around a hosted channel is replaced by the harness' loop (await_ready / next_event / run the "
                  "handler), mirroring agent_model's HostedDownlinkEvent handling. Illegal sequences: only absence of panics "
                  "is claimed (the model still agrees with the code on them).",
    "trusted_base": COMMON_TRUST + [
        "not modelled (exercised, compared across construction paths): the downlink builders and the Stateless/Stateful lifecycle "
        "plumbing of swimos_agent::agent_lifecycle::utility::downlink_builder and downlink_lifecycle",
        "modelled, not verified: tokio mpsc/select!, byte_channel, DownlinkNotificationEncoder/MapMessageEncoder and the "
        "matching decoders, BTreeMap/HashMap as finite maps, the lifecycle builder plumbing (BlockingHandler etc.)",
        "the harness' logging lifecycles (swimos_downlink closures; swimos_agent On* trait impls built from SideEffect)",
    ],
    "assumptions": ["one notification is processed to quiescence before the next is delivered (the downlink tasks are "
                    "sequential; the only concurrency is between reading notifications and local writes, which the op "
                    "alphabet interleaves explicitly)",
                    "a well-behaved lane sends its value before synced (value downlinks)"],
}
