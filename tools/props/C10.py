from common import COMMON_TRUST

_RAW = ["wlb", "mapop", "mapmsg", "lanereq-v", "lanereq-m", "laneresp-v", "laneresp-m", "storeinit-v", "storeinit-m",
        "storeinitd", "storeresp-v", "storeresp-m", "dlop", "rawreq", "rawresp", "rawcmd"]

PROP = {
    "generated": ["WireConsts"],
    "lean_modules": ["SwimVerif.Model.Frames", "SwimVerif.Model.FrameCodecs", "SwimVerif.Model.FramesMon",
                     "SwimVerif.Proofs.Frames", "SwimVerif.Proofs.FrameCodecs", "SwimVerif.Proofs.FrameSafety", "SwimVerif.Proofs.FrameCommand", "SwimVerif.Model.FrameDiscard", "SwimVerif.Proofs.FrameDiscard", "SwimVerif.Generated.WireConsts"],
    # `cases` = message sequences (1-6 messages); a `valid` sequence expands to EVERY single split point plus four
    # random multi-splits (1, <=3, <=9, <=40 bytes per read); a `mutate` sequence to ten mutated streams.
    "engines": [
        {"name": "raw-valid", "crate": "core", "bin": "sv-c10", "machine": "c10", "min_shard": 20,
         "cases": {"quick": 480, "thorough": 12000}, "gen_args": ["raw", "valid"], "nontrivial_min_ops": 4},
        {"name": "raw-mutate", "crate": "core", "bin": "sv-c10", "machine": "c10", "min_shard": 20,
         "cases": {"quick": 640, "thorough": 16000}, "gen_args": ["raw", "mutate"], "nontrivial_min_ops": 3},
        # codecs with Recon bodies (not modelled): implementation against what was encoded, monitor only
        {"name": "typed-valid", "crate": "core", "bin": "sv-c10", "machine": "c10", "min_shard": 20,
         "modes": ["monitor"], "cases": {"quick": 220, "thorough": 5500}, "gen_args": ["typed", "valid"]},
        {"name": "typed-bare", "crate": "core", "bin": "sv-c10", "machine": "c10", "min_shard": 20,
         "modes": ["monitor"], "cases": {"quick": 88, "thorough": 2200}, "gen_args": ["typedbare", "valid"]},
        # one byte of the Recon text of a body / key / value corrupted, every length intact: the damaged frame gives
        # one outcome, every other frame is decoded exactly (every single split + multi-splits)
        {"name": "typed-resync", "crate": "core", "bin": "sv-c10", "machine": "c10", "min_shard": 20,
         "modes": ["monitor"], "cases": {"quick": 220, "thorough": 5500}, "gen_args": ["typed", "resync"]},
        {"name": "typed-mutate", "crate": "core", "bin": "sv-c10", "machine": "c10", "min_shard": 20,
         "modes": ["monitor"], "cases": {"quick": 330, "thorough": 8250}, "gen_args": ["typed", "mutate"]},
    ],
    "rule": "a case is one message sequence of one codec with all its reads: `valid` cases contain every single split "
            "point of the encoded stream (one decoder run each) or four random multi-splits; `mutate` cases one "
            "mutated stream (byte flip, truncation, length field +-1 / 0 / 0xFF.. / 2^32 / 2^48 / 2^62 / 2^63, tag "
            "overwrite, scribble) fed in random chunks. distinct = distinct op sequence (sha1).",
    "level_text": "Proof: a generic theorem (induction over the chunks) shows that every decoder that is lawful for its "
                  "encoder - decodes a complete frame whatever follows and however much of it is already absorbed in "
                  "its state, and asks for more on every strict prefix without losing a byte - returns exactly the "
                  "encoded messages under EVERY chunking of the stream and is left holding exactly the trailing "
                  "incomplete frame; lawfulness is proved for all 16 modelled raw codecs: WithLengthBytesCodec, "
                  "RawMapOperation, RawMapMessage (TAKE/DROP), lane request/response over value and map bodies, store "
                  "init/initialized/response, DownlinkOperation, routed Request/Response messages and the ad hoc "
                  "command decoder (six states). A second theorem shows that no byte stream, under any chunking, makes "
                  "any of the 16 decoders panic or abort, and that unknown tags/kinds and stray lengths are errors. "
                  "Tag distinctness and the decoders' match arms are re-checked against the sources on every run. The "
                  "byte-level models are tied to the real Encoder/Decoder impls by differential execution (every "
                  "single split, multi-splits down to one byte, mutations); the codecs with Recon bodies are checked "
                  "implementation-against-original by the same monitor.",
    "level_note": "Proved for the byte-level models of the raw codecs; the typed (Recon body) decoders, bytes::BytesMut "
                  "and the allocator are not modelled. F4, F17, F101, F102, F104 were found by this check and are fixed "
                  "in /repo (the check reports a VIOLATION when any of the fixes is reverted); F103 (bare Recon token "
                  "split across reads, root cause in swimos_recon) is a recorded known finding of the typed decoders.",
    "trusted_base": COMMON_TRUST + [
        "modelled, not verified: bytes::BytesMut (a byte list), tokio_util::codec::FramedRead (append, then decode "
        "until Ok(None)), std::str::from_utf8 (re-implemented as utf8Valid), the allocator (a single allocation >= 293 000 000 bytes fails "
        "in the harness by construction, so a reserve of that size aborts)",
        "not modelled (exercised implementation-against-original only): swimos_recon RecognizerDecoder / "
        "WithLenRecognizerDecoder and every decoder with a Recon body",
    ],
    "assumptions": ["usize is 64 bits and arithmetic overflow panics (overflow checks on, as in the dev profile the "
                    "harness builds); in release builds the same inputs panic later in split_to",
                    "message bodies, keys, values are shorter than 2^60 bytes; ids are 16 bytes; node/lane/host are "
                    "valid UTF-8"],
}
