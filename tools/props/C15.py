from common import COMMON_TRUST

_ENG = {"crate": "core", "bin": "sv-c15", "machine": "c15", "nontrivial_min_ops": 1}

PROP = {
    "generated": ["ReconEqConsts"],
    "lean_modules": ["SwimVerif.Model.ReconEq", "SwimVerif.Model.ReconEqProto", "SwimVerif.Proofs.ReconEq",
                     "SwimVerif.Proofs.ReconEqCmp", "SwimVerif.Proofs.ReconEqValid", "SwimVerif.Proofs.ReconEqMat", "SwimVerif.Proofs.ReconEqLeaves", "SwimVerif.Proofs.ReconEqHash",
                     "SwimVerif.Proofs.ReconEqTok", "SwimVerif.Proofs.ReconEqRun", "SwimVerif.Proofs.ReconEqPrinted",
                     "SwimVerif.Proofs.ReconEqTop", "SwimVerif.Proofs.ReconEqFinal", "SwimVerif.Proofs.ReconEqBlind",
                     "SwimVerif.Proofs.Recon", "SwimVerif.Proofs.ReconFloat", "SwimVerif.Proofs.ReconStruct", "SwimVerif.Proofs.ReconStyles",
                     "SwimVerif.Model.Recon", "SwimVerif.Model.ReconProto",
                     "SwimVerif.Generated.ReconTables", "SwimVerif.Generated.ReconEqConsts"],
    "engines": [
        # printer output only (what the backpressure layer holds as keys): one value through two of the three printers,
        # or a value and a near miss of it (leaf changed, item moved between attribute body and items, record wrapped /
        # unwrapped, slot <-> value, kinds changed)
        dict(_ENG, name="printed", cases={"quick": 5000, "thorough": 100000}, min_shard=400, gen_args=["printed"]),
        # the same values / near misses in free layouts: white space, `,` `;` new-line separators, implicit vs braced
        # attribute bodies, `@a` vs `@a()` vs `@a {}`, radix / leading-zero / exponent spellings, quoted vs bare vs escaped strings
        dict(_ENG, name="layouts", cases={"quick": 6000, "thorough": 120000}, min_shard=400, gen_args=["layouts"]),
        # grammar-generated documents against their own re-print, a free layout of their value, a near miss, a text mutant,
        # another document
        dict(_ENG, name="texts", cases={"quick": 6000, "thorough": 120000}, min_shard=400, gen_args=["texts"]),
        # damaged (mostly invalid) texts against themselves, the original, another damaged text
        dict(_ENG, name="damaged", cases={"quick": 4000, "thorough": 80000}, min_shard=400, gen_args=["damaged"]),
        # every pair of the compact / standard prints of ALL values with at most 4 (thorough: 5) nodes over a one-letter
        # alphabet (the size bookkeeping only sees structure): 183 184 (thorough: 10.5 million) pairs put to the real
        # functions; every pair that violates the property is written out, judged by the monitor and compared with the model
        dict(_ENG, name="exhaustive", shards=8, cases={"quick": 1, "thorough": 1}, shrink=False,
             gen_args={"quick": ["exhaustive", "4", "8"], "thorough": ["exhaustive", "5", "8"]}),
        # consequence: 2..4 values in 1..3 spellings each pushed as keys of `Update`s into the real MapOperationQueue;
        # one entry per value must come out, holding the last update (monitor only: which of two unequal hashes
        # collide inside hashbrown is not modelled)
        dict(_ENG, name="keys", cases={"quick": 4000, "thorough": 80000}, min_shard=400, gen_args=["keys"],
             modes=["monitor"]),
    ],
    "rule": "a case is one pair of texts: 3 unit questions per text (event stream, parsed value, hasher calls: real vs "
            "model, exact) and the pair question (compare both ways, equal hasher calls, both parses, Value::eq) judged "
            "by the monitor; keys: one case = 3..12 key texts pushed into the real queue; distinct = distinct op "
            "sequence (sha1)",
    "level_text": "Proof (all inputs): Value::eq as modelled is an equivalence and the hash normal form respects it "
                  "(all values); a text compares equal to itself, and a text that is not valid Recon to nothing else "
                  "(all strings); the event-level comparator (incremental_compare with ValueValidator and its "
                  "hand-written PartialEq) is reflexive and symmetric on ALL pairs of event streams and never answers "
                  "Some(false) on streams that agree event by event; on the canonical event stream of ANY value the "
                  "validator is never Invalid, the materializer reads the value back, and canonical streams of equal "
                  "values compare Some(true); after the repairs C15-N1/N2 (committed) the event-level HashParser gives the "
                  "normal form on EVERY layout (any mixture of implicit/explicit attribute bodies) of EVERY value, so "
                  "equal values hash alike; whenever the comparator says equal for two single-value streams they differ "
                  "only in where braces stand (so the known class of C15-N3 is exact). The comparison half of the "
                  "property is FALSE of the code as it is, witness proved on the model and replayed on the real "
                  "functions: {{1,2}} == {1,{2}} (C15-N3, known; hence also equal => same hash fails on that pair). "
                  "Correspondence: the real event stream (observed through a recording Recognizer), "
                  "parse_recognize::<Value>, every Hasher call of recon_hash and compare_recon_values are reproduced "
                  "exactly by the model on printer output, free layouts, grammar documents, damaged texts and all "
                  "pairs of a small scope; the monitor judges compare_recon_values / recon_hash against the real "
                  "parser + Value::eq on every pair, and the real MapOperationQueue on key sets.",
    "level_note": "Labelled partial: 'no false split on all valid texts' (C15_cmp_complete_open) is proved for printer output, for "
                  "any two layouts chosen independently on the two sides (C15_cmp_complete_mixed_layouts) and for every text whose "
                  "event stream is a layout of its value (C15_cmp_complete_layout_texts / _partial: white space, separators, radix, "
                  "quoting free); the remaining gap (the automaton's events of EVERY valid text are such a layout) is tied by "
                  "differential testing + exhaustive small scope only; "
                  "floats are exact decimals, so texts with a float literal of more than 15 significant digits or a "
                  "3-digit exponent are outside the model (answered out-of-fragment by harness and model alike); the "
                  "text -> events part of the model (nom automaton) is tied by differential testing, the theorems about "
                  "texts go through it.",
    "trusted_base": COMMON_TRUST + [
        "modelled, not verified: nom 7 streaming/complete combinators, str::parse::<f64> / {:e} (floats as exact "
        "decimals on the stated fragment), base64 STANDARD, num-bigint (Hash: sign, u64 digits), std Hash for "
        "str / Vec<u8> / enum discriminants, hashbrown (only observed through the queue)",
        "the event stream of the real parser is observed through a Recognizer that records ReadEvents and a "
        "Hasher that records write_* calls (harness code)",
    ],
    "assumptions": [
        "every float literal has at most 15 significant digits and an exponent of at most two digits (else the op is skipped)",
        "texts are valid UTF-8 (ReconKey guarantees it)",
        "usize arithmetic in ValueValidator does not overflow (sizes are bounded by the number of events)",
    ],
}
