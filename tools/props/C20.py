from common import COMMON_TRUST
from wt_common import WT_LEAN, WT_TRUST, wt_engine

PROP = {
    "generated": [],
    "lean_modules": WT_LEAN + ["SwimVerif.Model.LinksSys", "SwimVerif.Proofs.Links", "SwimVerif.Proofs.LinksTotal",
                               "SwimVerif.Proofs.LinksAll", "SwimVerif.Proofs.LinksEvents"],
    "engines": [wt_engine("C20", quick=4000)],
    "level_text": "Proof: for every sequence of the registry operations (insert, remove, remove remote, remove lane, "
                  "remove all, event counting, snapshots, reporter registration at lane registration) the count "
                  "reported for every lane with a reporter equals the number of remotes linked to it, the aggregate "
                  "equals the running total, the running total equals the sum over the lanes, no link is held twice, "
                  "and snapshots + residual = events counted. The model is tied to the real Links + UplinkReporter "
                  "inside the real WriteTaskState by differential execution (every snapshot compared) and the "
                  "monitor checks the snapshots against a reference set of (lane, remote) links.",
    "level_note": "Counters are unbounded naturals (the code saturates at u64::MAX); the atomics of UplinkCounters are "
                  "modelled as atomic steps (fetch_update / CAS loop are linearizable read-modify-writes); that every "
                  "write-task run drives the registry admissibly is tied by correspondence, not proved.",
    "trusted_base": COMMON_TRUST + WT_TRUST + ["modelled, not verified: AtomicU64 counters (Relaxed, single location)"],
    "assumptions": ["a lane's reporter is registered when the lane is registered (register_lane)",
                    "event counts stay below u64::MAX"],
}
