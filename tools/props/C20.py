from common import COMMON_TRUST
from wt_common import WT_LEAN, WT_TRUST, wt_engine

PROP = {
    "generated": ["CounterSrc"],
    "lean_modules": WT_LEAN + ["SwimVerif.Model.LinksSys", "SwimVerif.Proofs.Links", "SwimVerif.Proofs.LinksTotal",
                               "SwimVerif.Proofs.LinksAll", "SwimVerif.Proofs.LinksEvents",
                               "SwimVerif.Proofs.LinksLaneEvents", "SwimVerif.Proofs.LinksWT",
                               "SwimVerif.Proofs.LinksWTInv", "SwimVerif.Proofs.LinksWTEvents",
                               "SwimVerif.Proofs.LinksWTLane", "SwimVerif.Proofs.LinksWTLive",
                               "SwimVerif.Proofs.LinksWTCount", "SwimVerif.Model.Counters",
                               "SwimVerif.Model.CounterProg", "SwimVerif.Proofs.CounterProg", "SwimVerif.Generated.CounterSrc",
                               "SwimVerif.Model.ReadFeed", "SwimVerif.Proofs.ReadFeed",
                               "SwimVerif.Proofs.ReadFeedCount"],
    "engines": [wt_engine("C20", quick=4000),
                {"name": "counters-stress", "crate": "core", "bin": "sv-c20s", "machine": "c20s", "modes": ["monitor"],
                 "cases": {"quick": 48, "thorough": 1600}, "min_shard": 3, "shards": 4, "nontrivial_min_ops": 1},
                # command counters: the real read task + LaneSender + UplinkReporters under AgentRouteTask with
                # reporting enabled (value and map lanes, bodies the map lane's sender rejects, snapshots)
                {"name": "cmdcount", "crate": "core", "bin": "sv-rf", "machine": "rf",
                 "reasons": r"command-count-.*", "cases": {"quick": 3000, "thorough": 100000}, "min_shard": 500,
                 "nontrivial_min_ops": 5},
                # the same with racing remotes and small lane buffers: monitor only
                {"name": "race-cmdcount", "crate": "core", "bin": "sv-rf", "machine": "rf", "modes": ["monitor"],
                 "reasons": r"command-count-.*", "gen_args": ["race"],
                 "cases": {"quick": 3000, "thorough": 100000}, "min_shard": 500, "nontrivial_min_ops": 5}],
    "level_text": "Proof: for every sequence of the registry operations (insert, remove, remove remote, remove lane, "
                  "remove all, event counting, snapshots, reporter registration at lane registration) the count "
                  "reported for every lane with a reporter equals the number of remotes linked to it, the aggregate "
                  "equals the running total, the running total equals the sum over the lanes, no link is held twice, "
                  "and snapshots + residual = events counted. The same for the WHOLE write task (every sequence of "
                  "write-task events in which responses addressed to a remote come from registered lanes): each "
                  "iteration of the loop performs an admissible sequence of registry operations, so all of the above "
                  "holds in every reached state; event counters are accounted for exactly (aggregate and per lane: "
                  "snapshots + residual + routed-uncounted = responses handed to remotes), and with every lane "
                  "holding a reporter every routed response is counted exactly once. The model is tied to the real Links + UplinkReporter "
                  "inside the real WriteTaskState by differential execution (every snapshot compared) and the "
                  "monitor checks the snapshots against a reference set of (lane, remote) links. Command counters "
                  "(read task): for every interleaving of remotes' envelopes, idle flushes, agent reads and "
                  "snapshots, per lane snapshots + residual = commands received for the lane, the aggregate's = "
                  "commands received for existing lanes = the sum over the lanes; a command the lane's sender rejects "
                  "is counted by both, a command for an unknown lane by neither. Tied to the real read task, "
                  "LaneSender and UplinkReporters under AgentRouteTask with reporting enabled (cmdcount: every "
                  "snapshot compared; race-cmdcount: racing remotes, monitor).",
    "level_note": "Counters are unbounded naturals (the code saturates at u64::MAX); the atomics of UplinkCounters are "
                  "modelled as atomic steps (fetch_update / CAS loop are linearizable read-modify-writes). The "
                  "unrestricted statement (any lane id in a response) is false for model and code alike "
                  "(C20_write_task_links_fails: a reporter registered for a lane id that already has links is never "
                  "told about them); the runtime only produces responses of registered lanes. Translator tie: saturating_add and "
                  "snapshot_value are regenerated from agent/reporting/mod.rs on every run (Generated/CounterSrc.lean) and proved to "
                  "perform exactly the add / load / cas steps of the interleaving model, for any number of spurious "
                  "compare_exchange_weak failures (C20_source_snapshot_value_is_model, C20_source_saturating_add_is_model); the "
                  "wiring of count_events / count_commands / set_uplinks / snapshot to them is checked as exact text; the "
                  "vocabulary tables of tools/extractors/c20.py and CounterProg.execK are trusted.",
    "trusted_base": COMMON_TRUST + WT_TRUST + ["modelled, not verified: AtomicU64 counters (Relaxed, single location)"],
    "assumptions": ["command counters: lane endpoints stay open (a failed lane write is not in the read-feed model); "
                    "one read-task iteration is atomic with respect to snapshots",
                    "a lane's reporter is registered when the lane is registered (register_lane)",
                    "a response addressed to a remote carries the id of a registered lane (lane ids come from the "
                    "streams of registered lanes)",
                    "event counts stay below u64::MAX"],
}
