from common import COMMON_TRUST

PROP = {
    "generated": ["CoopConsts"],
    "lean_modules": ["SwimVerif.Model.Conduit", "SwimVerif.Model.ConduitMon", "SwimVerif.Proofs.Conduit",
                     "SwimVerif.Generated.CoopConsts"],
    "engines": [
        # real threads: closing either half while the other side is registering its waker (below the model's atomic steps)
        {"name": "close-race", "crate": "core", "bin": "sv-c12s", "machine": "c12s", "modes": ["monitor"],
         "cases": {"quick": 24, "thorough": 600}, "min_shard": 3, "shards": 4, "nontrivial_min_ops": 1},
        {"name": "conduit", "crate": "core", "bin": "sv-c12", "machine": "c12",
         "cases": {"quick": 4000, "thorough": 400000}, "min_shard": 1000},
    ],
    "trusted_base": COMMON_TRUST + [
        "modelled, not verified: parking_lot::Mutex (each poll is one atomic step), std::task::Waker, bytes::BytesMut",
    ],
    "level_text": "Proof: for every capacity >= 1 and every sequence of poll_read/poll_write/flush/shutdown/drop/"
                  "budget operations, an invariant proved by induction gives FIFO-prefix, boundedness, EOF after "
                  "drain, failure after close and no-lost-wake-up (+ progress) for the model of Conduit + coop "
                  "budget; the model is tied to the real byte_channel by differential execution with counting "
                  "wakers (poll results, bytes and which waker fired, step by step).",
    "level_note": "Trusted: Lean kernel, compiled driver, harness; modelled not verified: the mutex (polls are "
                  "atomic), Waker, BytesMut. Real multi-threaded schedules are covered only through the "
                  "atomicity assumption.",
    "assumptions": [
        "each poll of either half runs atomically under the channel mutex",
        "one task per half (the waker passed by a half is always that task's waker)",
    ],
}
