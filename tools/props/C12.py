from common import COMMON_TRUST

PROP = {
    "generated": ["CoopConsts", "ConduitSrc", "CoopSrc"],
    "lean_modules": ["SwimVerif.Model.Conduit", "SwimVerif.Model.ConduitMon", "SwimVerif.Proofs.Conduit",
                     "SwimVerif.Model.ConduitProg", "SwimVerif.Proofs.ConduitProg",
                     "SwimVerif.Generated.CoopConsts", "SwimVerif.Generated.ConduitSrc", "SwimVerif.Generated.CoopSrc"],
    "engines": [
        # real threads: closing either half while the other side is registering its waker (below the model's atomic steps)
        {"name": "close-race", "crate": "core", "bin": "sv-c12s", "machine": "c12s", "modes": ["monitor"],
         "cases": {"quick": 24, "thorough": 600}, "min_shard": 3, "shards": 4, "nontrivial_min_ops": 1},
        {"name": "conduit", "crate": "core", "bin": "sv-c12", "machine": "c12",
         "cases": {"quick": 4000, "thorough": 400000}, "min_shard": 1000},
    ],
    "trusted_base": COMMON_TRUST + [
        "modelled, not verified: parking_lot::Mutex (critical sections are serialised), std::task::Waker, bytes::BytesMut",
        "translator tools/extractors/c12.py: parses the function bodies of channel/mod.rs into the statement language of "
        "Model/ConduitProg.lean (structure from the source; primitive statements and conditions recognised by exact "
        "text, anything else fails the extraction); trusted: its tables and ConduitProg.exec give each primitive the "
        "meaning of the Rust statement (the differential engine `conduit` checks the resulting model against the real code)",
    ],
    "level_text": "Proof: for every capacity >= 1 and every sequence of poll_read/poll_write/flush/shutdown/drop/"
                  "budget operations, an invariant proved by induction gives FIFO-prefix, boundedness, EOF after "
                  "drain, failure after close and no-lost-wake-up (+ progress) for the model of Conduit + coop "
                  "budget; the model is tied to the real byte_channel by differential execution with counting "
                  "wakers (poll results, bytes and which waker fired, step by step) AND by a translator: the statement structure of "
                  "Conduit::{poll_read, poll_write, poll_flush, poll_shutdown, read, write, wake, close_channel}, of the coop "
                  "wrappers of both halves and of both Drop impls is regenerated from channel/mod.rs on every run "
                  "(Generated/ConduitSrc.lean) and C12_source_is_model proves that executing it is exactly the model's step, "
                  "for every state and argument; C12_source_single_critical_section proves from the same programs that each "
                  "operation takes the mutex at most once and touches the shared state only under it; coop::consume_budget and "
                  "track_progress are translated likewise (Generated/CoopSrc.lean, C12_source_coop_is_model).",
    "level_note": "Trusted: Lean kernel, compiled driver, harness, the translator's vocabulary tables; modelled not "
                  "verified: the mutex (serialises critical sections), Waker, BytesMut. That one poll is one critical "
                  "section is extracted from the source and proved (C12_source_single_critical_section); real "
                  "multi-threaded schedules then reduce to sequences of atomic steps only through the mutex's "
                  "mutual exclusion, which is trusted and sampled by the close-race engine. The non-coop cfg twins "
                  "of the wrappers are not translated (the coop feature is on in every build of this repository).",
    "assumptions": [
        "parking_lot::Mutex gives mutual exclusion (each poll is proved to be a single critical section of it)",
        "one task per half (the waker passed by a half is always that task's waker)",
    ],
}
