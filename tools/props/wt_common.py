"""The write-task engine (`sv-wt` / machine `wt`) is shared by C01, C02, C03, C04, C14 and C20; each property
looks at its own class of monitor verdicts (model/implementation disagreements concern all of them)."""

WT_LEAN = ["SwimVerif.Model.AssocList", "SwimVerif.Model.WriteTask", "SwimVerif.Model.WriteTaskIO",
           "SwimVerif.Model.UplinkSys", "SwimVerif.Proofs.AssocList", "SwimVerif.Proofs.UplinkSys",
           "SwimVerif.Proofs.NoFab"]

REASONS = {
    "C04": r"lane-not-found.*|frame-.*|unlinked-without-open-link|synced-.*|event-outside-link|"
           r"fabricated-event-body|link-left-open-at-stop|linked-remote-.*|unparsable.*|unexpected.*",
    "C20": r"aggregate-.*|lane-link-count-wrong|lane-event-count-wrong|lane-snapshot-missing|snapshot-unparsable",
    "C14": r"supply-.*",
    "C01": r"value-.*",
    "C02": r"map-.*",
    # the sync protocol seen at the write task: linked (implicitly, if need be) before the sync events, synced only
    # after a request and inside a link
    "C03": r"synced-.*|event-outside-link|linked-remote-.*",
}


def wt_engine(pid, quick=3000, thorough=300000):
    return {"name": "wt", "crate": "core", "bin": "sv-wt", "machine": "wt", "reasons": REASONS[pid],
            "cases": {"quick": quick, "thorough": thorough}, "min_shard": 400, "nontrivial_min_ops": 6}


WT_TRUST = [
    "modelled, not verified: tokio / futures executor (each WriteTaskEvent is one atomic step of the write task), "
    "byte channels and FramedWrite/RawResponseMessageEncoder (a write future is the list of frames it sends), "
    "HashMap/HashSet iteration order (outputs sorted), compare_recon_values (map keys are key classes)",
]


# The end-to-end rig (`sv-e2e` / monitor `e2e`): real agent + real runtime + remotes; monitor only.
E2E_REASONS = {
    # http-*: a value-lane change made by a handler of the agent's HTTP lane (the agent's own handlers, C01) is logged by
    # `on_event` on the line of the request; `http get` answers with the value the lane held when the handler ran
    "C01": r"value-event-stale-or-reordered|value-stale-at-quiescence|value-event-on-map-lane|"
           r"http-handler-change-not-applied|http-get-stale|http-dropped-response-change-lost",
    "C02": r"map-replica-diverged|map-event-on-other-lane|map-take-drop-wrong-keys|"
           r"map-http-handler-change-not-applied|map-http-dropped-response-change-lost",
    "C03": r"map-snapshot-inconsistent|value-snapshot-inconsistent|value-synced-without-value|"
           r"sync-request-never-answered|synced-not-requested|map-update-lost-during-implicit-link-sync|"
           r"event-outside-link|synced-outside-link|linked-remote-never-told-linked",
    "C04": r"event-outside-link|unlinked-without-open-link|lane-not-found.*|linked-for-unknown-lane|"
           r"link-left-open-at-stop|fabricated-event-body|synced-outside-link|linked-remote-never-told-linked|"
           r"unexpected-frame-body|frame-decode-error|run-.*|unparsable.*|http-response-unexpected",
    "C14": r"supply-.*|command-.*",
    # the agent's start/stop handler (one method carrying `#[on_stop] #[on_start]`, stop first) runs before anything
    # else the lifecycle does and again at stop
    "C06": r"on-start-not-run-first|on-stop-not-run",
}


def e2e_engine(pid, quick=1500, thorough=150000):
    return {"name": "e2e", "crate": "core", "bin": "sv-e2e", "machine": "e2e", "modes": ["monitor"],
            "reasons": E2E_REASONS[pid], "cases": {"quick": quick, "thorough": thorough}, "min_shard": 100,
            "nontrivial_min_ops": 6, "timeout": 3000}


E2E_TRUST = [
    "end-to-end rig: tokio current-thread runtime with paused time and its select! randomness are sampled, not "
    "modelled; the agent-side history logged by the test lifecycle is taken as ground truth",
]
