from common import COMMON_TRUST
from wt_common import WT_LEAN, WT_TRUST, wt_engine, e2e_engine, E2E_TRUST

PROP = {
    "generated": [],
    "lean_modules": ["SwimVerif.Model.MapLane", "SwimVerif.Model.ValueLane", "SwimVerif.Proofs.ValueLane",
                     "SwimVerif.Model.AssocList", "SwimVerif.Proofs.AssocList",
                     "SwimVerif.Proofs.C03Queue", "SwimVerif.Proofs.C03Pop", "SwimVerif.Proofs.C03Mon",
                     "SwimVerif.Proofs.C03Rel", "SwimVerif.Proofs.C03Inv", "SwimVerif.Proofs.C03Write",
                     "SwimVerif.Proofs.C03Trace", "SwimVerif.Proofs.C03Bridge", "SwimVerif.Proofs.C03Strings",
                     "SwimVerif.Proofs.C03Lines", "SwimVerif.Proofs.C03Indep", "SwimVerif.Proofs.C03Fails",
                     "SwimVerif.Model.PruneRt", "SwimVerif.Proofs.PruneRt"],
    "engines": [
        e2e_engine("C03"),
        wt_engine("C03", quick=2000),
        {"name": "ml", "crate": "core", "bin": "sv-ml", "machine": "ml",
         "reasons": r"snapshot-.*|sync-.*|synced-.*|unparsable.*",
         "cases": {"quick": 4000, "thorough": 400000}, "min_shard": 500, "nontrivial_min_ops": 6},
        {"name": "vl", "crate": "core", "bin": "sv-vl", "machine": "vl",
         "cases": {"quick": 3000, "thorough": 300000}, "min_shard": 1000},
        # who is still registered when it syncs: the prune glue of the write task (`PruneRemotes`, `schedule_prune`,
        # `remove_remote_if_idle`) under the real AgentRouteTask::run_agent with prune_remote_delay = 701 ms on a
        # paused clock: remotes attach at different times, link / unlink / sync after various idle times
        {"name": "rt-prune", "crate": "core", "bin": "sv-c17x", "machine": "c17pr", "gen_args": ["pr"],
         "reasons": r"prune-.*", "cases": {"quick": 5000, "thorough": 300000}, "min_shard": 1000,
         "nontrivial_min_ops": 4},
    ],
    "level_text": "Proof of the mechanism, for every state of the write queues: synced is emitted only when the "
                  "request's key snapshot is exhausted and nothing queued ahead of the request is still waiting; a "
                  "sync event serves the oldest snapshot key; a live update/remove of a key removes it from every "
                  "duplicate-free snapshot; an emitted clear empties the snapshots; every emitted event counts the "
                  "waiting down; a value lane answers a sync with its current value followed by synced and keeps a "
                  "pending change. The trace-level statement for the map lane (at synced every key of the replica holds "
                  "a value the lane held between the request and that instant — for a remote linked all along and "
                  "for one that held nothing; synced after all of the remote's sync events; a write that produces "
                  "nothing finds no request outstanding and the observer converged) is PROVED for every operation "
                  "sequence shorter than 2^64 with fresh sync ids (C03_snapshot_consistent_partial, by the inductive "
                  "invariant ML.Inv over lane content, event queue with wrapping epochs, sync queues with their "
                  "pending counters, and the monitor's replicas and per-key histories), and the same predicate is "
                  "decided by the Lean monitor on traces of the REAL MapLane / ValueLane, whose behaviour is tied to "
                  "the model by differential execution. Concurrent syncs: literal independence of the frames is "
                  "false (witness, same on the real lane); independence up to the schedule is proved.",
    "level_note": "The interval statement over whole traces is a theorem for the map lane model (bound 2^64 on the "
                  "trace length: beyond it the wrapping epochs of the unbounded model alias; the full statement "
                  "C03_snapshot_consistent is refuted for the unbounded model by C03_snapshot_consistent_fails). "
                  "The runtime half (implicit link on the first targeted response; MapSynced draining the uplink "
                  "queue) is covered by the wt engine under C04, and the composition by the end-to-end rig where "
                  "present.",
    "trusted_base": COMMON_TRUST + E2E_TRUST + ["modelled, not verified: BTreeMap (sorted association list), Recon encoding of "
                                    "lane responses (frames are decoded with the real decoder)"],
    "assumptions": ["a remote has at most one sync request outstanding per lane in the monitor's attribution"],
}
