from common import COMMON_TRUST

_ENG = {"crate": "core", "bin": "sv-c09", "machine": "c09", "nontrivial_min_ops": 1}

PROP = {
    "generated": ["ReconTables"],
    "lean_modules": ["SwimVerif.Model.Recon", "SwimVerif.Model.ReconProto", "SwimVerif.Model.ReconInc",
                     "SwimVerif.Model.ReconIncProto", "SwimVerif.Proofs.Recon",
                     "SwimVerif.Proofs.ReconFloat", "SwimVerif.Proofs.ReconStruct", "SwimVerif.Proofs.ReconStyles", "SwimVerif.Proofs.ReconInc", "SwimVerif.Proofs.ReconIncCoupled", "SwimVerif.Proofs.ReconIncSeq",
                     "SwimVerif.Generated.ReconTables"],
    "engines": [
        # model values -> real printers (exact text vs model print) and print/parse cycles (vs model parse)
        dict(_ENG, name="values", cases={"quick": 2500, "thorough": 150000}, min_shard=400,
             gen_args=["values"], nontrivial_min_ops=6),
        # texts of the harness' own Recon grammar generator -> real one-shot parser vs model parser
        dict(_ENG, name="texts", cases={"quick": 12000, "thorough": 600000}, min_shard=1500, gen_args=["texts"]),
        # implementation-vs-implementation: every single cut / random multi-cuts of grammar, printed and mutated
        # texts through WithLenRecognizerDecoder and RecognizerDecoder vs uncut vs one-shot; no panic, no hang
        dict(_ENG, name="chunks", bin="sv-c09x", cases={"quick": 1600, "thorough": 60000}, min_shard=100, gen_args=["chunks"],
             modes=["monitor"]),
        # the same five observations on documents where the model is an oracle (valid UTF-8, model floats), compared
        # with the Lean model of RecognizerDecoder::{decode, decode_eof} / WithLenRecognizerDecoder on every cut
        dict(_ENG, name="chunksm", bin="sv-c09x", machine="c09i", cases={"quick": 1200, "thorough": 40000}, min_shard=100,
             gen_args=["chunksm"]),
        # derived Form types: parse::<T>(print(t)) == t for the three printers
        dict(_ENG, name="typed", bin="sv-c09x", cases={"quick": 1500, "thorough": 60000}, min_shard=500, gen_args=["typed"],
             modes=["monitor"]),
    ],
    "rule": "values: one case = one generated model value with 3 print ops + 3 print/parse/print/parse cycles; texts: "
            "one case = one grammar-generated document; chunks: one case = one document with every single cut (<= 400 "
            "bytes) or random multi-cuts, or (1 case in 3) a sequence of 2-4 short documents, malformed ones in any position, "
            "through ONE decoder instance (WithLen frames back to back; bare decoder document after document) with every "
            "single cut of the stream and random multi-cuts; chunksm: the same on documents where the model is an oracle; "
            "distinct = distinct op text (sha1)",
    "level_text": "Proof: un-escaping what the printer's escape_text wrote gives the string back for every string "
                  "(never an error), un-escaping and the model parser never panic; the printer's quoting decision is_identifier agrees "
                  "with the tokenizer's identifier for every string — both over tables regenerated from the sources; "
                  "every text / integer / byte string token is lexed back; parse(print v) = v (up to integer kinds, which "
                  "Value::eq ignores) and the fixed point after one cycle for each of the three printers on the stated fragment "
                  "of values (strong induction over records/attributes/items), with witnesses that the unrestricted "
                  "statement is false of the code as it is.  Correspondence: real print_recon{,_compact,_pretty} = model print (exact text) on generated "
                  "model values, real parse_recognize::<Value> = model parse on grammar-generated documents and on "
                  "printer output, monitor for recovery + fixed point on the real code.  Incremental path: a Lean model of "
                  "IncrementalReconParser + RecognizerDecoder::{decode,decode_eof} + WithLenRecognizerDecoder; proved for it: "
                  "every streaming token / parser step verdict is stable under extension, chunked = unchunked, incremental = "
                  "one-shot for every text and chunking (character level), the decoder is fresh after every finished "
                  "document so sequences through one decoder decode document by document as one-shot, WithLen consumes "
                  "exactly the announced length; the decoder model = the real decoders on every byte cut of single "
                  "documents and of sequences of documents through one instance (chunksm); implementation-vs-implementation "
                  "monitors (cut vs uncut vs one-shot, state leaking between documents), no panic / no hang on mutated and invalid input.",
    "level_note": "Labelled partial: parse-after-print is proved for the model parser (a reference recursive descent "
                  "that is tied to the real nom automaton by differential testing only), for the three styles, "
                  "floats as canonical shortest decimals; f64 <-> text (ryu, {:e}, str::parse) is not modelled — floats are exact "
                  "shortest decimals and generators stay where ryu and {:e} agree; the incremental theorems are about the "
                  "Lean transcription of the automaton and decoders (tied to the real ones by chunksm), over chunks of characters "
                  "and over chunks of BYTES that may cut a multi-byte character (C09_incremental_eq_oneshot_bytes, over the "
                  "hand-written UTF-8 codec Model/Utf8.lean with decode(encode) = id and read_utf8 specified on every prefix of a "
                  "valid encoding); WithLen freshness between frames "
                  "is proved given decode_eof resets on BadUtf8, which the code does not (known finding C09-N5).",
    "trusted_base": COMMON_TRUST + [
        "modelled, not verified: nom (streaming combinators), ryu / core::fmt {:e} / str::parse::<f64>, base64, "
        "num-bigint, bytes::BytesMut, tokio_util::codec::Decoder driving convention (FramedRead)",
        "the reference parser in Model/Recon.lean is tied to recon_parser/record/mod.rs + ValueMaterializer by "
        "differential testing on grammar-generated and printer-generated documents only",
    ],
    "assumptions": [
        "floats in model comparisons have a shortest decimal on which ryu and {:e} agree; non-finite floats are "
        "excluded from the recovery requirement",
        "documents given to the one-shot parser are valid UTF-8; for bodies that are not, only no-panic/no-hang is required",
        "a decoder is driven the way tokio_util's FramedRead drives it (decode until None, decode_eof at end of input)",
    ],
}
