from common import COMMON_TRUST

PROP = {
    "generated": ["RouteTables"],
    "lean_modules": ["SwimVerif.Model.Route", "SwimVerif.Model.RouteMon", "SwimVerif.Proofs.Route",
                     "SwimVerif.Generated.RouteTables"],
    "engines": [
        {"name": "route-random", "crate": "core", "bin": "sv-c18", "machine": "c18",
         "features": [], "cases": {"quick": 24000, "thorough": 1600000}, "min_shard": 1500},
        {"name": "route-table", "crate": "core", "bin": "sv-c18", "machine": "c18", "shards": 1,
         "cases": {"quick": 1, "thorough": 1}, "nontrivial_min_ops": 1,
         "gen_args": {"quick": ["table", "3"], "thorough": ["table", "4"]}},
    ],
    "rule": "a case is one pattern pair with its parse/ambiguity/round-trip/match ops (or one row of the exhaustive "
            "character/byte tables), all generated from one SplitMix64 seed; distinct = distinct op sequence (sha1), "
            "non-trivial = at least 3 ops (1 for table rows)",
    "level_text": "Proof (all inputs of the model): percent decode . encode = id for every byte string with the "
                  "encode set read from source; apply-then-unapply returns exactly the parameter values for every "
                  "pattern with /-free literals and percent-normal distinct names and every map of non-empty strings, "
                  "at URI level and through the route string and the modelled RouteUri parser (every ASCII byte is "
                  "escaped by apply or accepted by the path grammar: generated-table fact); a match never binds an "
                  "empty string; matching depends on (scheme, path) only; one binding per parameter for every "
                  "accepted pattern; two patterns that match one URI are always reported ambiguous; a route table "
                  "accepted by PlaneBuilder::build matches every URI with at most one pattern, so find_route's first "
                  "match is the only one; every pattern accepted by the parser automaton satisfies the structural "
                  "side conditions. (F12, F12b, F12c repaired by fix: commits; their witnesses are regressions.) Tied "
                  "to the real RoutePattern/RouteUri by differential execution of parse_str, apply, unapply_str, "
                  "unapply_route_uri, are_ambiguous and RouteUri::from_str on generated patterns, maps, pattern "
                  "pairs with synthesised URIs, malformed patterns, and exhaustive character/byte tables.",
    "level_note": "The percent-encoding crate, String::from_utf8_lossy and the nom combinators are modelled (byte "
                  "level, exact on the harness inputs) and not verified; patterns are modelled as byte automata, "
                  "equal to the char-level code on valid UTF-8 because every distinguished character is ASCII; "
                  "PlaneBuilder::build / Routes::find_route are modelled as pure functions over the pattern list and "
                  "not driven in the harness.",
    "trusted_base": COMMON_TRUST + [
        "modelled, not verified: percent-encoding 2.3.2 (utf8_percent_encode, percent_decode_str), "
        "String::from_utf8_lossy, nom 7 combinators (opt/alt/many0_count/many1_count/recognize), "
        "std::collections::HashMap (finite map)",
        "tools/extractors/c18.py: URL_ENCODE from route_pattern/mod.rs + NON_ALPHANUMERIC from the registry copy of "
        "percent-encoding at the Cargo.lock version; schema/path/query character classes from route_uri/parser/mod.rs",
    ],
    "assumptions": ["pattern and route strings are valid UTF-8 (they are Rust `str`s)",
                    "HashMap<String, String> behaves as a finite map (iteration order is never observed: bindings are "
                    "compared sorted)"],
}
