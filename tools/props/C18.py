from common import COMMON_TRUST

PROP = {
    "generated": ["RouteTables", "MetaRoutes"],
    "lean_modules": ["SwimVerif.Model.Route", "SwimVerif.Model.RouteMon", "SwimVerif.Model.RoutePlane",
                     "SwimVerif.Proofs.Route", "SwimVerif.Proofs.RoutePlane", "SwimVerif.Proofs.RoutePlaneMeta",
                     "SwimVerif.Generated.RouteTables", "SwimVerif.Generated.MetaRoutes"],
    "engines": [
        {"name": "route-random", "crate": "core", "bin": "sv-c18", "machine": "c18",
         "features": [], "cases": {"quick": 24000, "thorough": 1600000}, "min_shard": 1500},
        {"name": "route-table", "crate": "core", "bin": "sv-c18", "machine": "c18", "shards": 1,
         "cases": {"quick": 1, "thorough": 1}, "nontrivial_min_ops": 1,
         "gen_args": {"quick": ["table", "3"], "thorough": ["table", "4"]}},
        # plane level: the real PlaneBuilder / check_meta_collisions / ServerBuilder::build and the server's route
        # table (Routes + register_introspection + find_route through the verif_hooks re-export of swimos_server_app)
        {"name": "plane-random", "crate": "store", "bin": "sv-c18p", "machine": "c18p", "features": [],
         "cases": {"quick": 12000, "thorough": 800000}, "min_shard": 1500, "nontrivial_min_ops": 2},
    ],
    "rule": "a case is one pattern pair with its parse/ambiguity/round-trip/match ops (or one row of the exhaustive "
            "character/byte tables), all generated from one SplitMix64 seed; distinct = distinct op sequence (sha1), "
            "non-trivial = at least 3 ops (1 for table rows); plane-random: a case is one route "
            "table (0-4 patterns, most derived from the meta-agent routes) with build / meta / srv verdicts and find "
            "ops on URIs synthesised from its rows and from the meta routes, non-trivial = at least 2 ops",
    "level_text": "Proof (all inputs of the model): percent decode . encode = id for every byte string with the "
                  "encode set read from source; apply-then-unapply returns exactly the parameter values for every "
                  "pattern with /-free literals and percent-normal distinct names and every map of non-empty strings, "
                  "at URI level and through the route string and the modelled RouteUri parser (every ASCII byte is "
                  "escaped by apply or accepted by the path grammar: generated-table fact); a match never binds an "
                  "empty string; matching depends on (scheme, path) only; one binding per parameter for every "
                  "accepted pattern; two patterns that match one URI are always reported ambiguous; a route table "
                  "accepted by PlaneBuilder::build matches every URI with at most one pattern, so find_route's first "
                  "match is the only one; with introspection, a table accepted by build and "
                  "check_meta_collisions together with the node and lane meta-agent routes (texts and registration "
                  "order read from source) still matches every URI with at most one row, so no URI is claimed both by "
                  "a user route and by a meta route; the same for the table the server really uses, user "
                  "routes followed by the mesh, node and lane meta routes (F12d, mesh route unchecked, repaired by a "
                  "fix: commit; its witness is a regression); every pattern accepted by the parser automaton satisfies the "
                  "structural side conditions. (F12, F12b, F12c repaired by fix: commits; their witnesses are regressions.) Tied "
                  "to the real RoutePattern/RouteUri by differential execution of parse_str, apply, unapply_str, "
                  "unapply_route_uri, are_ambiguous and RouteUri::from_str on generated patterns, maps, pattern "
                  "pairs with synthesised URIs, malformed patterns, and exhaustive character/byte tables; and of "
                  "PlaneBuilder::build, PlaneModel::check_meta_collisions, ServerBuilder::build and the server's "
                  "route table (Routes::from_iter + register_introspection + Routes::find_route) on generated "
                  "route tables and URIs.",
    "level_note": "The percent-encoding crate, String::from_utf8_lossy and the nom combinators are modelled (byte "
                  "level, exact on the harness inputs) and not verified; patterns are modelled as byte automata, "
                  "equal to the char-level code on valid UTF-8 because every distinguished character is ASCII; "
                  "the server's route table is assembled by a verif_hooks function from the same pieces as "
                  "SwimServer::run_server (two lines of glue are duplicated, see hooks/C18x.patch); agents are never "
                  "started.",
    "trusted_base": COMMON_TRUST + [
        "modelled, not verified: percent-encoding 2.3.2 (utf8_percent_encode, percent_decode_str), "
        "String::from_utf8_lossy, nom 7 combinators (opt/alt/many0_count/many1_count/recognize), "
        "std::collections::HashMap (finite map)",
        "tools/extractors/c18.py: URL_ENCODE from route_pattern/mod.rs + NON_ALPHANUMERIC from the registry copy of "
        "percent-encoding at the Cargo.lock version; schema/path/query character classes from route_uri/parser/mod.rs; "
        "the three meta-agent pattern texts from swimos_introspection/src/route/mod.rs and their registration order "
        "from register_introspection",
        "swimos_server_app::verif::RouteTable (hooks/C18x.patch): Routes::from_iter + register_introspection as in "
        "SwimServer::run_server, then the real Routes::find_route",
    ],
    "assumptions": ["pattern and route strings are valid UTF-8 (they are Rust `str`s)",
                    "HashMap<String, String> behaves as a finite map (iteration order is never observed: bindings are "
                    "compared sorted)"],
}
