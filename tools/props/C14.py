from common import COMMON_TRUST
from wt_common import WT_LEAN, WT_TRUST, wt_engine, e2e_engine, E2E_TRUST

PROP = {
    "generated": [],
    "lean_modules": WT_LEAN + ["SwimVerif.Proofs.UplinkFlow", "SwimVerif.Proofs.SupplyFifo",
                               "SwimVerif.Model.CommandOutput", "SwimVerif.Proofs.CommandOutput"],
    "engines": [
        e2e_engine("C14"),
        wt_engine("C14"),
        {"name": "cmd", "crate": "core", "bin": "sv-cmd", "machine": "cmd",
         "cases": {"quick": 4000, "thorough": 400000}, "min_shard": 1000},
    ],
    "level_text": "Proof. Supply: for every registry and every interleaving of events on any lanes, link messages and "
                  "write completions in which lane l is a supply lane that stays linked, (sent or in flight) ++ "
                  "buffered = pushed for l — each item exactly once, in order; with no write in flight everything "
                  "pushed has been delivered. Agent-sent commands: for every append/write/completion sequence on the "
                  "CommandOutput and every target, channel ++ in flight ++ pending is a supersession of the appended "
                  "commands: only a trailing overwritable command is dropped, only by the next command to the same "
                  "target; order preserved; newest survives. Tied to the real Uplinks/SupplyBackpressure (wt engine) "
                  "and the real CommandOutput (cmd engine) by differential execution.",
    "level_note": "Command lanes' handler invocation (read task feed/flush discipline) and the SupplyLane queue inside "
                  "the agent are covered by the end-to-end rig where present, not by a theorem.",
    "trusted_base": COMMON_TRUST + WT_TRUST + E2E_TRUST + [
        "modelled, not verified: RawRequestMessageEncoder (a record is (target, command)), byte channel of the output"],
    "assumptions": ["the supply lane stays linked to the remote in the exactly-once theorem"],
}
