from common import COMMON_TRUST
from wt_common import WT_LEAN, WT_TRUST, wt_engine, e2e_engine, E2E_TRUST

PROP = {
    "generated": [],
    "lean_modules": WT_LEAN + ["SwimVerif.Proofs.UplinkFlow", "SwimVerif.Proofs.SupplyFifo",
                               "SwimVerif.Model.CommandOutput", "SwimVerif.Proofs.CommandOutput",
                               "SwimVerif.Model.SupplyLane", "SwimVerif.Proofs.SupplyLane",
                               "SwimVerif.Proofs.SupplyCompose",
                               "SwimVerif.Model.ReadFeed", "SwimVerif.Proofs.ReadFeed",
                               "SwimVerif.Model.CommandLane", "SwimVerif.Proofs.CommandLane",
                               "SwimVerif.Proofs.AgentCommands"],
    "engines": [
        e2e_engine("C14"),
        wt_engine("C14"),
        {"name": "cmd", "crate": "core", "bin": "sv-cmd", "machine": "cmd",
         "cases": {"quick": 4000, "thorough": 400000}, "min_shard": 1000},
        # agent half of supply lanes: the real SupplyLane (push / sync / write_to_buffer)
        {"name": "sup", "crate": "core", "bin": "sv-sup", "machine": "sup",
         "cases": {"quick": 4000, "thorough": 200000}, "min_shard": 1000},
        # agent half of command + supply lanes and of agent-sent (ad hoc) commands: the real agent task (AgentModel)
        # with the harness as the runtime; handlers send bursts of ad hoc commands into a small command channel that
        # the harness reads a few records at a time with the real CommandMessageDecoder
        {"name": "cl", "crate": "core", "bin": "sv-cl", "machine": "cl",
         "cases": {"quick": 3000, "thorough": 100000}, "min_shard": 500, "nontrivial_min_ops": 5},
        # agent-sent commands end to end: the real agent (SendCommand + Commanders) on the real runtime
        # (external_links_task: CommanderIds, CommandOutput), target channels served through LinkRequest::Commander;
        # supersession depends on scheduling: monitor only
        {"name": "adh", "crate": "core", "bin": "sv-adh", "machine": "adh", "modes": ["monitor"],
         "cases": {"quick": 1500, "thorough": 100000}, "min_shard": 300, "nontrivial_min_ops": 3},
        # runtime half of command lanes: the real read task (read_task / LaneSender) under AgentRouteTask
        {"name": "rf", "crate": "core", "bin": "sv-rf", "machine": "rf", "reasons": r"(?!command-count-).*",
         "cases": {"quick": 3000, "thorough": 100000}, "min_shard": 500, "nontrivial_min_ops": 5},
        # the same with racing remotes and small lane buffers (order across remotes is tokio's): monitor only
        {"name": "race-rf", "crate": "core", "bin": "sv-rf", "machine": "rf", "modes": ["monitor"],
         "reasons": r"(?!command-count-).*",
         "gen_args": ["race"], "cases": {"quick": 3000, "thorough": 100000}, "min_shard": 500,
         "nontrivial_min_ops": 5},
    ],
    "level_text": "Proof. Supply, runtime: for every registry and every interleaving of events on any lanes, link "
                  "messages and write completions in which lane l is a supply lane that stays linked, (sent or in "
                  "flight) ++ buffered = pushed for l — each item exactly once, in order. Supply, agent: for every "
                  "push/sync/write_to_buffer interleaving written ++ queued = pushed, one frame per write, oldest "
                  "first, a sync answered by a bare synced, DataStillAvailable exactly while something is queued; in "
                  "the agent task queued work keeps the lane dirty and a dirty lane has a write in flight; composed "
                  "with the runtime theorem: delivered ++ in flight ++ buffered ++ lane channel ++ lane queue = "
                  "supplied, and = delivered at quiescence. Command lanes: for every interleaving of remotes, lanes, "
                  "idle flushes and agent reads each lane is given exactly the requests the read task picked for it "
                  "in pick order, per remote exactly what it sent in the order sent, at most one sender holds "
                  "unflushed data (the needs_flush lane), nothing stranded once idle (with or without the immediate "
                  "flush); at the agent the on_command handler runs once per validly decoded command with its value "
                  "in order, never for a body that fails to decode. Agent-sent commands inside the agent task "
                  "(command_buffer, CommandWriter lending, CommandSendComplete): for every interleaving read ++ channel "
                  "++ batch in flight ++ buffer = issued, buffered commands always have a write in flight, at "
                  "quiescence everything issued has been written once, in order per target; commanders: ids unique "
                  "per address, every command sent through a commander carries an id the runtime resolves to that "
                  "commander's own address (a registration never rebinds another id); composed with the runtime "
                  "side: what reaches a target is a supersession of what the handlers issued. Runtime side: for every "
                  "append/write/completion sequence on the CommandOutput and every target, channel ++ in flight ++ "
                  "pending is a supersession of the appended commands. Tied to the real Uplinks/SupplyBackpressure "
                  "(wt), CommandOutput (cmd), SupplyLane (sup), the agent task with CommandLane + SupplyLane (cl) and "
                  "the runtime read task (rf) by differential execution; racing remotes by monitor (race-rf, e2e); "
                  "agent-sent commands end to end (real agent + real external links task, adh) by monitor.",
    "level_note": "The read task is driven through AgentRouteTask with a lane-holder agent (model comparison when "
                  "every envelope is followed by a settle; racing remotes are judged by the monitor only). The "
                  "hand-over between agent task, lane channel and write task is covered by the end-to-end rig, not "
                  "by differential execution. Lane endpoints that fail and map-like lanes' extract_header are not in "
                  "the read-feed model.",
    "trusted_base": COMMON_TRUST + WT_TRUST + E2E_TRUST + [
        "modelled, not verified: RawRequestMessageEncoder (a record is (target, command)), byte channel of the output",
        "modelled, not verified (cl, rf): byte channels and FramedRead/FramedWrite at frame granularity (a lane "
        "output channel smaller than a frame completes a write exactly when the frame is read), tokio current-thread "
        "scheduling (the runtime settles between harness requests), the Recon decoder of i32 command bodies (a body "
        "is valid iff it is a short decimal), the derive macros of the test agent and its lifecycle (the handler "
        "parameter of the model is instantiated with what the rig's lifecycle does)"],
    "assumptions": ["the supply lane stays linked to the remote in the exactly-once theorems",
                    "read feed: lane endpoints stay open and all lanes are registered before the first envelope",
                    "command handler: a handler commands its own lane at most once and that nested handler does not",
                    "commanders: fewer than 65535 distinct addresses (CommanderIdOverflow is not modelled)"],
}
