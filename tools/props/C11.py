from common import COMMON_TRUST

PROP = {
    "generated": ["EnvelopeTables", "MultiReaderConsts"],
    "lean_modules": ["SwimVerif.Model.Envelope", "SwimVerif.Proofs.Envelope", "SwimVerif.Generated.EnvelopeTables",
                     "SwimVerif.Model.Routing", "SwimVerif.Model.RoutingMon", "SwimVerif.Proofs.Routing",
                     "SwimVerif.Model.WsFrames", "SwimVerif.Proofs.WsFrames",
                     "SwimVerif.Model.MultiReader", "SwimVerif.Proofs.MultiReader", "SwimVerif.Proofs.MultiReaderReady", "SwimVerif.Proofs.MultiReaderPending",
                     "SwimVerif.Proofs.MultiReaderRank", "SwimVerif.Proofs.MultiReaderFair",
                     "SwimVerif.Generated.MultiReaderConsts"],
    "engines": [
        {"name": "pure", "crate": "core", "bin": "sv-c11", "machine": "c11pure",
         "cases": {"quick": 24000, "thorough": 1200000}, "min_shard": 2000, "gen_args": ["pure"], "nontrivial_min_ops": 1},
        {"name": "fuzz", "crate": "core", "bin": "sv-c11", "machine": "c11pure", "modes": ["monitor"],
         "cases": {"quick": 24000, "thorough": 1200000}, "min_shard": 2000, "gen_args": ["fuzz"], "nontrivial_min_ops": 1},
        {"name": "route", "crate": "core", "bin": "sv-c11", "machine": "c11route",
         "cases": {"quick": 12000, "thorough": 400000}, "min_shard": 1000, "gen_args": ["route"]},
        {"name": "mr", "crate": "core", "bin": "sv-c11", "machine": "c11mr",
         "cases": {"quick": 16000, "thorough": 500000}, "min_shard": 1000, "gen_args": ["mr"]},
        {"name": "wakepoll", "crate": "core", "bin": "sv-c11", "machine": "c11mrw", "modes": ["monitor"],
         "cases": {"quick": 6000, "thorough": 300000}, "min_shard": 1000, "gen_args": ["mrw"]},
        {"name": "threads", "crate": "core", "bin": "sv-c11", "machine": "c11mrs", "modes": ["monitor"], "shards": 1,
         "cases": {"quick": 12, "thorough": 400}, "gen_args": ["mrs"], "nontrivial_min_ops": 1, "shrink": False},
    ],
    "level_text": "Proof (Lean 4, no axioms beyond the three standard ones). (1) Writer/reader: for every envelope kind, "
                  "EVERY node and lane string (sequences of Unicode scalar values: empty, true/false, quotes, backslashes, "
                  "controls, non-BMP, %) and every body not starting with a space or tab, the model of "
                  "peel_envelope_header_str applied to the model of ReconEncoder's output returns the same kind, node, lane "
                  "and body (C11_read_write; the general form strips leading blanks of the body); escape tables, identifier "
                  "ranges and all tag/slot constants are regenerated from the sources and their side conditions re-decided. "
                  "(2) Routing: for every sequence of attach/detach/send/resolve/frame operations an invariant on "
                  "client_subscriptions/agent_routes gives route_exact (a notification goes to exactly the open downlinks "
                  "attached to its decoded node and lane, a request to at most one agent channel opened for its node) and "
                  "invalid_not_delivered. (3) MultiReader: per-source FIFO (delivered ++ queued = pushed) and the readiness "
                  "invariant (a stream with something to deliver always has its ready bit set; a stream without a bit holds "
                  "the waker that sets it; Pending is answered only when no ready bit is left, so every stream is then parked) "
                  "for any number of buckets. The reader never panics on any frame (C11_reader_never_panics) and the body of "
                  "every notification reaches the downlink unchanged (C11_body_unchanged). Each model is tied to the real code by differential "
                  "execution: ReconEncoder -> peel_envelope_header_str in process; the public RemoteTask over an in-memory "
                  "duplex web socket (ratchet on tokio::io::duplex, paused clock, run to quiescence after every operation); "
                  "the real MultiReader polled by hand with a counting waker; observable-level monitors decide the property on "
                  "the implementation traces alone.",
    "level_note": "Strings are List Char (Rust str); bodies are assumed valid UTF-8. The reader model covers headers whose "
                  "slot values are string literals or identifiers (what the writer emits and what the hand-made frames "
                  "contain); numbers/blobs/records as values and rate/prio slots are outside it and only fuzzed (no panic). "
                  "Web socket framing (ratchet), tokio scheduling and the byte channels are sampled through the socket rig, not "
                  "proved. MultiReader bit masks are modelled as finite index sets; its sources are passive queues in the "
                  "manual-poll engine (FramedRead over byte channels is exercised by the socket rig's burst operations and by "
                  "the multi-threaded engine). The reassembly of fragmented web-socket text messages with interleaved control "
                  "frames is modelled (WsFrames) and proved; ratchet's frame parsing itself is sampled by the rig's raw-frame "
                  "peer. The wake ordering of MultiReader (flag before wake) under eager and real multi-threaded schedules is "
                  "sampled by two monitor-only engines, not proved (the model's steps are atomic). The value-based fairness "
                  "statement is false for repeated items (C11_fair_within_2n_polls_fails); the position-based one is proved. The three defects found by this check (FC11-1, FC11-2, and F16 reached through the "
                  "socket) are repaired in /repo; the shape of each repaired expression is a generated flag, so reverting a "
                  "repair breaks the corresponding theorem and the monitors report the failing frame.",
    "trusted_base": COMMON_TRUST + [
        "modelled, not verified: nom combinators (the reader model transliterates peel_message/peel_items/string_literal/"
        "parse_text_token for the modelled fragment), ratchet web socket framing, tokio (mpsc, select!, paused clock), "
        "swimos byte channels and FramedRead/FramedWrite, slab::Slab key reuse, std HashMap (finite maps)",
        "swimos_remote verif_hooks re-export of task::envelopes::ReconEncoder (hooks/C11.patch, add-only)",
    ],
    "assumptions": [
        "node, lane and body are valid UTF-8 (Text/BytesStr; bodies are Recon text)",
        "MultiReader is polled by one task (the waker captured for a stream is the task's waker), as in OutgoingTask::run",
        "byte channels between the socket task and agents/downlinks are large enough not to block in the rig (64 KiB)",
    ],
}
