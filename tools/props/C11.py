from common import COMMON_TRUST

PROP = {
    "generated": ["EnvelopeTables", "MultiReaderConsts"],
    "lean_modules": ["SwimVerif.Model.Envelope", "SwimVerif.Proofs.Envelope", "SwimVerif.Generated.EnvelopeTables",
                     "SwimVerif.Model.Routing", "SwimVerif.Model.RoutingMon", "SwimVerif.Proofs.Routing",
                     "SwimVerif.Model.MultiReader", "SwimVerif.Proofs.MultiReader", "SwimVerif.Proofs.MultiReaderReady",
                     "SwimVerif.Generated.MultiReaderConsts"],
    "engines": [
        {"name": "pure", "crate": "core", "bin": "sv-c11", "machine": "c11pure",
         "cases": {"quick": 24000, "thorough": 1600000}, "min_shard": 2000, "gen_args": ["pure"], "nontrivial_min_ops": 1},
        {"name": "fuzz", "crate": "core", "bin": "sv-c11", "machine": "c11pure", "modes": ["monitor"],
         "cases": {"quick": 24000, "thorough": 1600000}, "min_shard": 2000, "gen_args": ["fuzz"], "nontrivial_min_ops": 1},
        {"name": "route", "crate": "core", "bin": "sv-c11", "machine": "c11route",
         "cases": {"quick": 12000, "thorough": 600000}, "min_shard": 1000, "gen_args": ["route"]},
        {"name": "mr", "crate": "core", "bin": "sv-c11", "machine": "c11mr",
         "cases": {"quick": 16000, "thorough": 800000}, "min_shard": 1000, "gen_args": ["mr"]},
    ],
    "level_text": "TODO",
    "level_note": "TODO",
    "trusted_base": COMMON_TRUST + [],
    "assumptions": [],
}
