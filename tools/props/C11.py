from common import COMMON_TRUST

PROP = {
    "generated": ["EnvelopeTables"],
    "lean_modules": ["SwimVerif.Model.Envelope", "SwimVerif.Proofs.Envelope", "SwimVerif.Generated.EnvelopeTables"],
    "engines": [
        {"name": "pure", "crate": "core", "bin": "sv-c11", "machine": "c11pure",
         "cases": {"quick": 24000, "thorough": 1600000}, "min_shard": 2000, "gen_args": ["pure"], "nontrivial_min_ops": 1},
        {"name": "fuzz", "crate": "core", "bin": "sv-c11", "machine": "c11pure", "modes": ["monitor"],
         "cases": {"quick": 24000, "thorough": 1600000}, "min_shard": 2000, "gen_args": ["fuzz"], "nontrivial_min_ops": 1},
    ],
    "level_text": "TODO",
    "level_note": "TODO",
    "trusted_base": COMMON_TRUST + [],
    "assumptions": [],
}
