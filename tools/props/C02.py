from common import COMMON_TRUST
from wt_common import WT_LEAN, WT_TRUST, wt_engine, e2e_engine, E2E_TRUST

PROP = {
    "generated": [],
    "lean_modules": WT_LEAN + ["SwimVerif.Proofs.MapQueue", "SwimVerif.Proofs.AgentMapQueue",
                               "SwimVerif.Model.MapLane", "SwimVerif.Model.EpochQueue"],
    "engines": [
        e2e_engine("C02"),
        wt_engine("C02"),
        {"name": "ml", "crate": "core", "bin": "sv-ml", "machine": "ml", "reasons": r"map-.*|lane-map-.*|write-result-.*|unparsable.*",
         "cases": {"quick": 3000, "thorough": 300000}, "min_shard": 500, "nontrivial_min_ops": 6},
        {"name": "eq-agent", "crate": "core", "bin": "sv-eq", "machine": "eq", "gen_args": ["agent"],
         "cases": {"quick": 4000, "thorough": 400000}, "min_shard": 1000},
        {"name": "eq-runtime", "crate": "core", "bin": "sv-eq", "machine": "eq", "gen_args": ["runtime"],
         "cases": {"quick": 4000, "thorough": 400000}, "min_shard": 1000},
    ],
    "level_text": "Proof: both coalescing layers preserve the fold for every interleaving of operations and pops — "
                  "runtime: applyAll(popped ++ queue) = applyAll(pushed), at most one operation per key, clear only "
                  "at the head (never lost or overtaken); agent: whenever the key-only event queue is empty an "
                  "observer's replica equals the lane's map (values read when written), with the per-key invariant "
                  "in between. The faithful index models (head_epoch / epoch_map mod 2^64) of both real queues are "
                  "tied to the real EventQueue and MapOperationQueue (epochs seeded up to 2^64-1) and to the "
                  "specification queue by execution on every generated step; the real MapLane (BTreeMap backing: "
                  "update/remove/clear/take/drop/sync/write_to_buffer) and the real uplink map path are tied by "
                  "differential execution; monitors check replica convergence at quiescence.",
    "level_note": "Index-invariant => specification refinement for the wrapping epochs, per-key sampling and the "
                  "take/drop key-order statement are open as theorems (checked by execution/monitor). Recon key "
                  "equality is represented by key classes validated against compare_recon_values at harness start.",
    "trusted_base": COMMON_TRUST + WT_TRUST + E2E_TRUST,
    "assumptions": ["queues hold fewer than 2^64 entries", "Ord on keys agrees with the Recon order (take/drop)"],
}
