from common import COMMON_TRUST
from wt_common import WT_LEAN, WT_TRUST, wt_engine, e2e_engine, E2E_TRUST

PROP = {
    "generated": [],
    "lean_modules": WT_LEAN + ["SwimVerif.Proofs.MapQueue", "SwimVerif.Proofs.AgentMapQueue",
                               "SwimVerif.Model.MapLane", "SwimVerif.Model.EpochQueue",
                               "SwimVerif.Proofs.AssocKeys", "SwimVerif.Proofs.EpochQueue",
                               "SwimVerif.Proofs.EpochQueueInv", "SwimVerif.Proofs.EpochQueueRun",
                               "SwimVerif.Proofs.EpochQueueCompose", "SwimVerif.Proofs.MapLaneTakeDrop",
                               "SwimVerif.Proofs.MapQueueSampled", "SwimVerif.Proofs.MapCompose",
                               "SwimVerif.Proofs.MapLaneAgent"],
    "engines": [
        e2e_engine("C02"),
        wt_engine("C02"),
        {"name": "ml", "crate": "core", "bin": "sv-ml", "machine": "ml", "reasons": r"map-.*|lane-map-.*|write-result-.*|unparsable.*",
         "cases": {"quick": 3000, "thorough": 300000}, "min_shard": 500, "nontrivial_min_ops": 6},
        # the same op language and machine, but every command is an encoded MapMessage dispatched by the REAL
        # DecodeWithAndSelectApply (decode_and_select_apply + decode_shared_and_select_apply) to a lane found at run
        # time through a SelectorFn (dynamically opened lanes of connector agents); sync through MapLaneSelectSync
        {"name": "ml-select", "crate": "core", "bin": "sv-mlsel", "machine": "ml",
         "reasons": r"map-.*|lane-map-.*|write-result-.*|unparsable.*",
         "cases": {"quick": 1500, "thorough": 100000}, "min_shard": 500, "nontrivial_min_ops": 6},
        {"name": "eq-agent", "crate": "core", "bin": "sv-eq", "machine": "eq", "gen_args": ["agent"],
         "cases": {"quick": 4000, "thorough": 400000}, "min_shard": 1000},
        {"name": "eq-runtime", "crate": "core", "bin": "sv-eq", "machine": "eq", "gen_args": ["runtime"],
         "cases": {"quick": 4000, "thorough": 400000}, "min_shard": 1000},
    ],
    "level_text": "Proof: both coalescing layers preserve the fold for every interleaving of operations and pops — "
                  "runtime: applyAll(popped ++ queue) = applyAll(pushed), at most one operation per key, clear only "
                  "at the head (never lost or overtaken); agent: whenever the key-only event queue is empty an "
                  "observer's replica equals the lane's map (values read when written), with the per-key invariant "
                  "in between; composition: both queues empty => the remote's replica is the lane's map; per-key "
                  "sampling (what is popped about a key is a sub-sequence of what was pushed about it). The faithful "
                  "index models (head_epoch / epoch_map mod 2^64) of both real queues are PROVED to refine the "
                  "specification queue along every run holding fewer than 2^64-1 entries (index invariant = the "
                  "executable invOk, preserved by push/pop across wrap-around, any initial head_epoch), and are tied "
                  "to the real EventQueue and MapOperationQueue (epochs seeded up to 2^64-1) by execution on every "
                  "generated step; take/drop leave exactly content.drop n / content.take n (map proved sorted along "
                  "every run); the real MapLane (BTreeMap backing: "
                  "update/remove/clear/take/drop/sync/write_to_buffer) and the real uplink map path are tied by "
                  "differential execution (also with every command dispatched by the real DecodeWithAndSelectApply to a "
                  "dynamically selected lane, BTreeMap and HashMap backings); monitors check replica convergence "
                  "at quiescence.",
    "level_note": "No open statements. The lane model (sorted map, indexed event queue, WriteQueues alternation with "
                  "sync requests, vanished-key loop, take/drop) is proved to refine the specification agent and to "
                  "converge; the composition agent queue + runtime queue is proved at specification level, the "
                  "runtime side of it is tied to the Uplinks model by differential execution. Recon key "
                  "equality is represented by key classes validated against compare_recon_values at harness start.",
    "trusted_base": COMMON_TRUST + WT_TRUST + E2E_TRUST,
    "assumptions": ["queues hold fewer than 2^64 entries", "Ord on keys agrees with the Recon order (take/drop)"],
}
