from common import COMMON_TRUST

PROP = {
    "generated": [],
    "lean_modules": ["SwimVerif.Model.Persist", "SwimVerif.Model.PersistIO", "SwimVerif.Proofs.PersistStore",
                     "SwimVerif.Proofs.PersistWT", "SwimVerif.Proofs.Persist", "SwimVerif.Model.WriteTask",
                     "SwimVerif.Model.UplinkSys", "SwimVerif.Proofs.NoFab", "SwimVerif.Proofs.UplinkSys"],
    "engines": [
        # one "case" of the generator = one history run to a clean stop, to the inactivity time-out, and crashed
        # after EVERY store operation / EVERY delivered frame / with a store error at EVERY store operation,
        # each followed by a restart against the same store (so ~20-60 agent runs per history).
        # Every fourth history runs on the LATE rig: a harness-implemented `Agent` that registers lanes through
        # `AgentContext::add_lane` while it is running (-> `TaskMessageResult::AddLane` in `write_task`) and plays the
        # lane side of the protocol; after the restart the same lanes are registered again and synced.
        {"name": "e2e", "crate": "core", "bin": "sv-c05", "machine": "c05",
         "cases": {"quick": 1400, "thorough": 20000}, "min_shard": 20, "nontrivial_min_ops": 30},
    ],
    "rule": "a generated history (script of attach/link/sync/unlink/command/stall/drop steps from one SplitMix64 "
            "seed) is expanded into one case per end mode: clean stop, inactivity time-out, crash after the n-th "
            "store operation, crash after the n-th delivered frame, store failure at the n-th store operation, for "
            "every n of the run; every case restarts a fresh agent on the same store and syncs every lane. Every fourth "
            "history uses the late rig (value / map lanes, persistent and transient, registered by addlane steps while "
            "the agent runs; re-registered after the restart at run time or during initialisation). One value in five "
            "(lane values, map values, store values; also as the last state before the stop / cut) is Option::None, "
            "whose encoding is the EMPTY byte string. Per history additionally: an id lookup (NodePersistence::id_for, "
            "error other than NoStoreAvailable) fails at 1 random lookup of the first start and at 2 of the restart "
            "after a clean stop (initialisation phase, write-task prologue, registration at run time; lanes and "
            "stores); the lane input buffer (= init channel of a lane) is 24..4096 bytes; one history in twenty has "
            "values of 5-12 KB in a lane and a store (8 random cuts only). "
            "distinct = distinct script+end mode (sha1 of the op lines), non-trivial = at least 30 log lines",
    "level_text": "Proof: for every store naming and every sequence of write-task events in which lanes and stores "
                  "are REGISTERED by events of the history - in the prologue of write_task (initialisation phase) or "
                  "at any later moment (TaskMessageResult::AddLane: AgentContext::add_lane while the agent runs), the "
                  "registration fixing the store id of the item's response stream exactly as the code does "
                  "(laneStoreId) - (further events: lane / store responses with succeeding or failing store calls, link / unlink / "
                  "unknown-lane messages, write completions and failures, lane failure, pruning, stop) of the model "
                  "`persist_response; handle_event` composed with the WHOLE write-task model (links, remote tracker, "
                  "uplink queues with back-pressure): in the merged log every event frame of a persistent lane is "
                  "preceded by the store operation carrying exactly that state, at every prefix (= every crash "
                  "point); the store is the fold of the logged operations; a restart (ValueInit/MapInit -> "
                  "value_like_init/map_like_init) yields the last value / exactly the entries implied by the map "
                  "operations, independent of other items; transient items never reach the store and restart at "
                  "their default; hence at every cut the restored state is the published state or a later one; a lane "
                  "registered at run time gets the same store id as one registered during initialisation, keeps it, "
                  "and is persisted-before-published and never-older across re-registration in the next incarnation; "
                  "a value with an empty encoding is an ordinary value (put with an empty payload, restored by an init "
                  "command with an empty body; update with an empty value is not a remove). "
                  "A failing id lookup at a registration ends the task without registering the item (never "
                  "transient), nothing is stored or sent afterwards. "
                  "Tied to the code end to end: a real agent (value/map lanes, value/map stores, transient lane and "
                  "store) on the real runtime (AgentRouteTask::run_agent_with_store) with a recording "
                  "NodePersistence sharing one sequence counter with the remote-side frame log, run to clean stop, "
                  "inactivity time-out, and crashed after every store operation and every delivered frame, then "
                  "restarted and synced; the Lean model predicts every line (restore after fold) and the Lean "
                  "monitor decides the property on the log. Lanes registered after start-up: the same runtime running a "
                  "harness-implemented Agent that calls add_lane on scripted steps and speaks the lane protocol "
                  "(store initialisation, events, syncs) on the returned channels.",
    "level_note": "The order 'persist, then schedule the write' inside one loop iteration of the real write task is "
                  "a fact about the source text that the end-to-end log cannot distinguish from the opposite order "
                  "(a frame is observable only after the write future runs); it is covered by the model theorem and "
                  "by reading, not by correspondence. tokio scheduling is sampled (single-threaded, paused time). "
                  "Durability of a real storage engine is C13's concern; MapMessage::Take/Drop in map_like_init "
                  "are not modelled (never produced by the runtime's initializers).",
    "trusted_base": COMMON_TRUST + [
        "modelled, not verified: tokio (single-threaded, paused clock), byte channels and Framed codecs, the agent's "
        "lane implementations and Recon (de)serialisation of i32 keys / Option<i32> values (store bytes are treated as opaque, "
        "injectively printed keys), HashMap/BTreeMap (finite maps)",
        "the recording NodePersistence of the harness (an in-memory map; its reads are cross-checked by the model)",
        "late rig: the harness's own lane implementations (value: last command; map: update/remove/clear) stand in for "
        "swimos_agent's lanes; what they hold after initialisation and answer to a sync is cross-checked by the model",
    ],
    "assumptions": ["a restore that does not complete is reported through the time box of the harness (paused clock: "
                    "attachment confirmation within 20 s, item_init_timeout 1 s), as restart-did-not-complete",
                    "a crash stops every task at once (nothing reaches the store or a remote after the cut)",
                    "the store applies put/update/remove/clear atomically and in call order",
                    "map keys print injectively (distinct keys have distinct Recon bytes)"],
}
