from common import COMMON_TRUST

PROP = {
    "generated": ["StoreConsts"],
    "lean_modules": ["SwimVerif.Model.StoreKey", "SwimVerif.Model.Stores", "SwimVerif.Proofs.StoreKey",
                     "SwimVerif.Proofs.Stores", "SwimVerif.Proofs.StoresHandover", "SwimVerif.Proofs.StoresNeverLost",
                     "SwimVerif.Proofs.StoresCrash", "SwimVerif.Proofs.StoresCrashRun", "SwimVerif.Proofs.StoresAlloc",
                     "SwimVerif.Generated.StoreConsts"],
    "engines": [
        {"name": "rocks-random", "crate": "store", "bin": "sv-c13", "machine": "c13r", "features": [],
         "cases": {"quick": 1600, "thorough": 60000}, "min_shard": 100, "timeout": 1500},
        {"name": "rocks-rawid", "crate": "store", "bin": "sv-c13", "machine": "c13r", "features": [],
         "modes": ["model"], "gen_args": ["rawid"],
         "cases": {"quick": 480, "thorough": 16000}, "min_shard": 30, "timeout": 1500},
        # SIGKILL exploration: support only (RocksDB WAL durability is trusted, not proved); a few cases in quick too
        {"name": "rocks-crash", "crate": "store", "bin": "sv-c13", "machine": "c13r", "features": [],
         "gen_args": ["crash"], "shrink": False,
         "cases": {"quick": 96, "thorough": 1600}, "min_shard": 12, "timeout": 1500},
        {"name": "inmem-random", "crate": "store", "bin": "sv-c13m", "machine": "c13m", "features": [],
         "cases": {"quick": 16000, "thorough": 320000}, "min_shard": 1000, "timeout": 1500},
        # every hand-over choreography of three handles on one URI up to a fixed depth (small-scope exhaustive)
        {"name": "inmem-exh", "crate": "store", "bin": "sv-c13m", "machine": "c13m", "features": [], "shards": 8,
         "cases": {"quick": 1, "thorough": 1}, "shrink": False,
         "gen_args": {"quick": ["exhaustive", "4", "8"], "thorough": ["exhaustive", "6", "8"]}, "timeout": 1500},
    ],
    "level_text": "Proof (Lean 4, all inputs / all op sequences): the on-disk key layout is injective in "
                  "(keyspace tag, lane id, key) including empty keys, 0x00/0xFF and shared prefixes; a key lies in "
                  "[prefix(id), ubound(id)) iff it is a map key of lane id, so delete_range removes exactly that lane; "
                  "the in-memory node store refines the id-indexed value|map specification for every sequence of "
                  "id_for/get/put/delete/update/remove/clear/read_map, ids are stable and collision free, the node "
                  "state survives restart and hand-over to a waiting instance, and for every sequence of opens, polls, "
                  "drops (cancelled opens included) and data ops a URI never has two running instances nor a running "
                  "instance next to a handed-over state, and an entry marked in use always has a holder, i.e. no node "
                  "state is ever lost (every choreography of three handles up to depth 6 is also "
                  "checked exhaustively against the real store); "
                  "RocksDB modelled as ordered byte maps refines "
                  "the same specification under id < 2^56 with reopen points (prefix iteration exact), also for histories "
                  "with any number of kills at any cut of the RocksDB writes of the op in flight: a kill leaves the "
                  "state before or after that op, or (inside id_for of a new name) burns one id and loses nothing; "
                  "id < 2^56 holds for every history of fewer than 2^56 events that passes ids returned by id_for. "
                  "Tied to both "
                  "real stores by differential execution through swimos_api::persistence (public open_rocks_store; "
                  "in-memory store through a verif_hooks re-export) with adversarial names/keys and reopen anywhere.",
    "level_note": "RocksDB itself (ordered map semantics of put/get/delete/delete_range/merge/prefix iteration, WAL "
                  "durability) is trusted and sampled: reopen correspondence on every run, SIGKILL exploration in the "
                  "thorough tier (support only; `sv-c13 burn-probe` shows the burnt-id cut in the real store). id_injective is false for adversarial names (F10, known finding). "
                  "The 2^56 hypothesis of prefix iteration cannot be reached through id_for (ids are counter+1); the "
                  "rawid engine replays it with fabricated ids against the model only.",
    "trusted_base": COMMON_TRUST + [
        "modelled, not verified: RocksDB (durable ordered byte-key map per column family: put/get/delete/"
        "delete_range/merge(add)/seek+prefix_same_as_start with a fixed 8-byte extractor), integer_encoding "
        "(to_le_bytes; varint round trip of stored ids), std HashMap/BTreeMap (finite maps; BTreeMap iterates in "
        "Ord for Vec<u8>), tokio oneshot, parking_lot::Mutex",
    ],
    "assumptions": ["lane ids passed to NodePersistence were returned by id_for of the same plane (rocks) / node "
                    "(in-memory); allocated ids stay below 2^56",
                    "one process has a plane database open at a time (RocksDB LOCK)",
                    "names are ASCII in the generated traces (they are only concatenated, never normalised)"],
}
