from common import COMMON_TRUST
from wt_common import WT_LEAN, WT_TRUST, wt_engine, e2e_engine, E2E_TRUST

PROP = {
    "generated": [],
    "lean_modules": WT_LEAN + ["SwimVerif.Proofs.UplinkFlow", "SwimVerif.Proofs.ValueSampling",
                               "SwimVerif.Model.ValueLane", "SwimVerif.Proofs.ValueLane"],
    "engines": [
        e2e_engine("C01"),
        wt_engine("C01"),
        {"name": "vl", "crate": "core", "bin": "sv-vl", "machine": "vl",
         "cases": {"quick": 4000, "thorough": 400000}, "min_shard": 1000},
    ],
    "level_text": "Proof, in two layers. Runtime: for every registry and every interleaving of lane events (any "
                  "lanes), link messages and write completions on a remote's uplink queue in which lane l is a value "
                  "lane that stays linked: what is sent for l is an in-order subsequence of what was pushed (values "
                  "skipped, never invented/duplicated/reordered), the newest value is never lost, and when no write "
                  "is in flight the last value delivered is the newest pushed. Agent: for every set/sync/write "
                  "sequence the lane writes only values it held, each the current one, and a clean lane has "
                  "published its current value. Both layers are tied to the real code (WriteTaskState/Uplinks and "
                  "ValueLane::write_to_buffer) by differential execution; the monitor checks ordered sampling and "
                  "freshness at quiescence on implementation traces.",
    "level_note": "The composition agent loop (dirty_items / item_writers hand-back) + byte pipe + runtime under the "
                  "real tokio scheduler is not in a theorem: it is sampled by the end-to-end rig where present; the "
                  "two layers are proved separately.",
    "trusted_base": COMMON_TRUST + WT_TRUST + E2E_TRUST,
    "assumptions": ["the remote stays linked to the lane (no unlinked for it) in the sampling/freshness theorems",
                    "one WriteTaskEvent / one lane operation at a time (single task each)"],
}
