from common import COMMON_TRUST
from wt_common import WT_LEAN, WT_TRUST, wt_engine, e2e_engine, E2E_TRUST

PROP = {
    "generated": [],
    "lean_modules": WT_LEAN + ["SwimVerif.Proofs.UplinkFlow", "SwimVerif.Proofs.ValueSampling",
                               "SwimVerif.Model.ValueLane", "SwimVerif.Proofs.ValueLane",
                               "SwimVerif.Proofs.MonoSample", "SwimVerif.Proofs.ValueCompose",
                               "SwimVerif.Proofs.ValueComposeDefs", "SwimVerif.Proofs.ValueComposeInv",
                               "SwimVerif.Proofs.ValueComposeStep", "SwimVerif.Proofs.ValueComposeFinal"],
    "engines": [
        e2e_engine("C01"),
        wt_engine("C01"),
        {"name": "vl", "crate": "core", "bin": "sv-vl", "machine": "vl",
         "cases": {"quick": 4000, "thorough": 400000}, "min_shard": 1000},
    ],
    "level_text": "Proof, in three layers. Runtime: for every registry and every interleaving of lane events (any "
                  "lanes), link messages and write completions on a remote's uplink queue in which lane l is a value "
                  "lane that stays linked: what is sent for l is an in-order subsequence of what was pushed (values "
                  "skipped, never invented/duplicated/reordered), the newest value is never lost, and when no write "
                  "is in flight the last value delivered is the newest pushed. Agent: for every set/sync/write "
                  "sequence the lane writes only values it held, each the current one, and a clean lane has "
                  "published its current value. Composition (Proofs/ValueCompose.lean, built from the two models "
                  "only): the lane feeding, through its output pipe (a FIFO of frames, arbitrary delay), the uplink "
                  "queues of any number of remotes, for every interleaving of set / sync request / agent write / "
                  "pipe transfer of one frame (broadcast to linked remotes, sync frames targeted with implicit link) "
                  "/ link / write completion, and every remote that is never unlinked: the values it is delivered "
                  "are a monotone index sampling of the values the lane held (initial value, then every set; "
                  "positions never go backwards; a strict subsequence of the sets if the remote never syncs — the "
                  "strict form for syncing remotes is refuted: a sync answer re-sends the value of the last event), "
                  "at every moment the queue delivered / in flight / buffered / in the pipe / unsent ends with the "
                  "current value, and at quiescence (lane clean, no sync pending, pipe empty, no write in flight) the "
                  "last value delivered is the lane's current value if a set happened after it linked or it synced. "
                  "Both models are tied to the real code (WriteTaskState/Uplinks and ValueLane::write_to_buffer) by "
                  "differential execution; the monitor checks ordered sampling and freshness at quiescence on "
                  "implementation traces.",
    "level_note": "The composed theorems are about the composition of the two tied models; that the real agent loop "
                  "(dirty_items / item_writers hand-back: `write` happens only when the lane's writer is available) "
                  "and the real write task realise exactly these steps under the tokio scheduler is sampled by the "
                  "end-to-end rig, not proved. Remotes that are unlinked / detached and linked again are outside the "
                  "composed theorems.",
    "trusted_base": COMMON_TRUST + WT_TRUST + E2E_TRUST,
    "assumptions": ["the remote stays linked to the lane (no unlinked for it) in the sampling/freshness theorems",
                    "composition: every remote id is an attached remote; one frame per pipe transfer; values are "
                    "numbers encoded as one-element bodies (injective)",
                    "one WriteTaskEvent / one lane operation at a time (single task each)"],
}
