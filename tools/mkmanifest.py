#!/usr/bin/env python3
"""Regenerates MANIFEST.json from tools/props.py (one source of truth for what is claimed)."""
import json, os, sys, subprocess
ROOT = os.path.dirname(os.path.dirname(os.path.abspath(__file__)))
sys.path.insert(0, os.path.join(ROOT, "tools"))
from props import PROPS, HOOK_COMMITS, PENDING

ids = [json.loads(l)["id"] for l in open(os.path.join(ROOT, "properties.jsonl"))]
checks = []
for pid in ids:
    if pid not in PROPS:
        continue
    c = PROPS[pid]
    checks.append({
        "property_id": pid,
        "quick_cmd": f"./check {pid} --tier quick",
        "thorough_cmd": f"./check {pid} --tier thorough",
        "evidence_file": f"/verif/evidence/{pid}.json",
        "replay_cmd_template": f"./check {pid} --replay {{path}}",
        "engine": "lean4-proof+correspondence",
        "level_claimed": {
            "category": "proof",
            "text": c["level_text"],
            "design_ref": f"DESIGN.md §5 {pid}",
        },
        "level_note": c["level_note"],
        "technique": c.get("technique", "Lean 4 theorems over an executable model (induction/invariants over all op "
                           "sequences) + checked correspondence of the compiled model with the real code + Lean "
                           "monitor over implementation traces"),
    })
man = {
    "version": 1,
    "setup_cmd": "sh tools/setup.sh",
    "hooks": {
        "guard": "cargo feature verif_hooks",
        "enable": "harness crates depend on the /repo crates by path with features = [\"verif_hooks\"]",
        "baseline_off_cmd": "sh /verif/tools/baseline.sh",
        "source_commits": HOOK_COMMITS,
        "add_only": True,
    },
    "engines": [
        {"name": "lean4-proof+correspondence", "path": "/verif/tools/check.py",
         "serves_properties": [c["property_id"] for c in checks],
         "kind_free_text": "Lean 4 model + theorems (lean/SwimVerif), constants regenerated from /repo "
                           "(tools/extract.py), Rust harness driving the real code (harness/), compiled Lean driver "
                           "(svdriver) for model diff and property monitors"},
    ],
    "checks": checks,
    "notes": "See DESIGN.md. Every check rebuilds the harness against /repo's working tree and re-checks the Lean "
             "proofs; KNOWN_FINDINGS.json lists recorded genuine defects.",
    "not_applicable": [{"property_id": pid, "reason": PENDING.get(pid, "check not built yet in this session; "
                        "the technique applies (see DESIGN.md §5)")} for pid in ids if pid not in PROPS],
}
json.dump(man, open(os.path.join(ROOT, "MANIFEST.json"), "w"), indent=1)
print("MANIFEST.json:", len(checks), "checks,", len(man["not_applicable"]), "not claimed")
