#!/bin/sh
# Runs swim-rust's own test suite with the verification guard OFF (no `verif_hooks` feature) and compares the
# set of passing tests with /root/.vp/BASELINE.json (stable_pass). Exit 0 iff every baseline test still passes.
set -u
cd /repo || exit 2
export CARGO_NET_OFFLINE=true
rm -f /repo/target/nextest/pb/junit.xml
cargo nextest run --workspace --no-fail-fast --tool-config-file pb:/verif/tools/nextest.toml --profile pb \
  --test-threads 8 --offline > /tmp/verif-baseline.log 2>&1
python3 - <<'PY'
import json, sys, xml.etree.ElementTree as ET
base = json.load(open('/root/.vp/BASELINE.json'))
want = set(base['stable_pass'])
passed, failed = set(), set()
try:
    root = ET.parse('/repo/target/nextest/pb/junit.xml').getroot()
except Exception as e:
    print('no junit output:', e); sys.exit(2)
for tc in root.iter('testcase'):
    tid = (tc.get('classname') or '') + '::' + (tc.get('name') or '')
    if tc.find('failure') is not None or tc.find('error') is not None or tc.find('flakyFailure') is not None:
        failed.add(tid)
    elif tc.find('skipped') is None:
        passed.add(tid)
passed -= failed
missing = sorted(want - passed)
print(f'baseline: {len(want)} expected, {len(passed & want)} passed, {len(missing)} missing/failed; '
      f'{len(failed)} failed in total')
for m in missing[:40]:
    print('  NOT PASSING:', m)
sys.exit(0 if not missing else 1)
PY
