from extract import src, one, HEADER, ExtractError
import re

def form_consts():
    """Facts of the recogniser library the C16 model depends on, re-read from the source on every run."""
    impls = src("api/swimos_form/src/structural/read/recognizer/impls.rs")
    body = one(r"impl<T> Recognizer for EmptyBodyRecognizer<T> \{(.*?)\n\}\n", impls, "EmptyBodyRecognizer impl", re.S)
    accepts = len(re.findall(r"!self\.seen_extant && matches!\(input, ReadEvent::Extant\)", body))
    old = len(re.findall(r"if matches!\(input, ReadEvent::EndRecord\) \{\s*Some\(Ok\(None\)\)\s*\} else \{\s*"
                         r"Some\(Err\(input\.kind_error\(ExpectedEvent::EndOfRecord\)\)\)", body))
    if accepts + old != 1:
        raise ExtractError("EmptyBodyRecognizer::feed_event not recognised")
    # Option: the empty alternative is tried first, in attribute and in body position
    one(r"fn make_attr_recognizer\(\) -> Self::AttrRec \{\s*FirstOf::new\(\s*EmptyAttrRecognizer::default\(\),\s*"
        r"MappedRecognizer::new\(T::make_attr_recognizer\(\), Option::Some\),", impls, "Option attr recogniser order")
    one(r"fn make_body_recognizer\(\) -> Self::BodyRec \{\s*FirstOf::new\(\s*EmptyBodyRecognizer::default\(\),\s*"
        r"MappedRecognizer::new\(T::make_body_recognizer\(\), Option::Some\),", impls, "Option body recogniser order")
    # Vec in attribute position: flattened alternative first
    one(r"FirstOf::new\(\s*VecRecognizer::new\(true, T::make_recognizer\(\)\),\s*"
        r"SimpleAttrBody::new\(VecRecognizer::new\(false, T::make_recognizer\(\)\)\),", impls, "Vec attr recogniser order")
    rec = src("api/swimos_form/src/structural/read/recognizer/mod.rs")
    # header: the flattened recogniser is the first alternative
    one(r"let simple = HeaderRecognizer::new\(has_body, true, num_slots, make_fields\(\), vtable\);\s*"
        r"let flattened = HeaderRecognizer::new\(has_body, false, num_slots, make_fields\(\), vtable\);\s*"
        r"FirstOf::new\(simple, flattened\)", rec, "header_recognizer order")
    # VecRecognizer::reset: does the attribute-body instance return to `Between` (its initial stage) or to `Init`?
    vreset = one(r"impl<T, R: Recognizer<Target = T>> Recognizer for VecRecognizer<T, R> \{.*?\n    fn reset\(&mut self\) \{(.*?)\n    \}\n\}",
                 impls, "VecRecognizer::reset", re.S)
    always_init = len(re.findall(r"self\.stage = BodyStage::Init;", vreset))
    keeps = len(re.findall(r"self\.stage = if self\.is_attr_body \{\s*BodyStage::Between\s*\} else \{\s*BodyStage::Init\s*\};", vreset))
    if always_init + keeps != 1:
        raise ExtractError("VecRecognizer::reset not recognised")
    return (HEADER + "namespace SwimVerif.Generated\n"
            "/-- `EmptyBodyRecognizer` accepts one `Extant` item before `EndRecord` (repair of C16-F1). -/\n"
            f"def emptyBodyAcceptsExtant : Bool := {'true' if accepts else 'false'}\n"
            "/-- `VecRecognizer::reset` restores the initial stage of an attribute-body instance (false: C16-F16). -/\n"
            f"def vecResetKeepsAttrMode : Bool := {'true' if keeps else 'false'}\n"
            "end SwimVerif.Generated\n")

EXTRACTORS = {"FormConsts": form_consts}
