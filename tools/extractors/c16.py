from extract import src, one, HEADER, ExtractError
import re

def form_consts():
    """Facts of the recogniser library the C16 model depends on, re-read from the source on every run."""
    impls = src("api/swimos_form/src/structural/read/recognizer/impls.rs")
    body = one(r"impl<T> Recognizer for EmptyBodyRecognizer<T> \{(.*?)\n\}\n", impls, "EmptyBodyRecognizer impl", re.S)
    accepts = len(re.findall(r"!self\.seen_extant && matches!\(input, ReadEvent::Extant\)", body))
    old = len(re.findall(r"if matches!\(input, ReadEvent::EndRecord\) \{\s*Some\(Ok\(None\)\)\s*\} else \{\s*"
                         r"Some\(Err\(input\.kind_error\(ExpectedEvent::EndOfRecord\)\)\)", body))
    if accepts + old != 1:
        raise ExtractError("EmptyBodyRecognizer::feed_event not recognised")
    # Option: the empty alternative is tried first, in attribute and in body position
    one(r"fn make_attr_recognizer\(\) -> Self::AttrRec \{\s*FirstOf::new\(\s*EmptyAttrRecognizer::default\(\),\s*"
        r"MappedRecognizer::new\(T::make_attr_recognizer\(\), Option::Some\),", impls, "Option attr recogniser order")
    one(r"fn make_body_recognizer\(\) -> Self::BodyRec \{\s*FirstOf::new\(\s*EmptyBodyRecognizer::default\(\),\s*"
        r"MappedRecognizer::new\(T::make_body_recognizer\(\), Option::Some\),", impls, "Option body recogniser order")
    # Vec in attribute position: flattened alternative first
    one(r"FirstOf::new\(\s*VecRecognizer::new\(true, T::make_recognizer\(\)\),\s*"
        r"SimpleAttrBody::new\(VecRecognizer::new\(false, T::make_recognizer\(\)\)\),", impls, "Vec attr recogniser order")
    rec = src("api/swimos_form/src/structural/read/recognizer/mod.rs")
    # header: the flattened recogniser is the first alternative
    one(r"let simple = HeaderRecognizer::new\(has_body, true, num_slots, make_fields\(\), vtable\);\s*"
        r"let flattened = HeaderRecognizer::new\(has_body, false, num_slots, make_fields\(\), vtable\);\s*"
        r"FirstOf::new\(simple, flattened\)", rec, "header_recognizer order")
    # VecRecognizer::reset: does the attribute-body instance return to `Between` (its initial stage) or to `Init`?
    vreset = one(r"impl<T, R: Recognizer<Target = T>> Recognizer for VecRecognizer<T, R> \{.*?\n    fn reset\(&mut self\) \{(.*?)\n    \}\n\}",
                 impls, "VecRecognizer::reset", re.S)
    always_init = len(re.findall(r"self\.stage = BodyStage::Init;", vreset))
    keeps = len(re.findall(r"self\.stage = if self\.is_attr_body \{\s*BodyStage::Between\s*\} else \{\s*BodyStage::Init\s*\};", vreset))
    if always_init + keeps != 1:
        raise ExtractError("VecRecognizer::reset not recognised")
    return (HEADER + "namespace SwimVerif.Generated\n"
            "/-- `EmptyBodyRecognizer` accepts one `Extant` item before `EndRecord` (repair of C16-F1). -/\n"
            f"def emptyBodyAcceptsExtant : Bool := {'true' if accepts else 'false'}\n"
            "/-- `VecRecognizer::reset` restores the initial stage of an attribute-body instance (false: C16-F16). -/\n"
            f"def vecResetKeepsAttrMode : Bool := {'true' if keeps else 'false'}\n"
            "end SwimVerif.Generated\n")

EXTRACTORS = {"FormConsts": form_consts}


# ------------------------------------------------------------------------------------------------------------------
# Coverage side condition: every hand-written `StructuralWritable` / `RecognizerReadable` impl of swimos_form must be
# exercised by at least one entry of the harness battery (registry of harness/form/src/bin/sv-c16.rs). A new impl in the
# source that is not listed here, or a listed battery entry that no longer exists, fails the extraction (= the check).
IMPL_COVERAGE = {
    # write side: `impl .. StructuralWritable for <X>`
    "W:&T": ["S01"],                      # every by-reference write goes through it (write_attr / write_slot of fields)
    "W:&mut T": ["S01"],                  # same blanket forwarding impl (no separate observable)
    "W:()": ["Lunit", "S37"], "W:i32": ["Pi32"], "W:i64": ["Li64"], "W:u32": ["Lu32"], "W:u64": ["Pu64"],
    "W:usize": ["Lusize", "X09"], "W:NonZeroUsize": ["Lnz", "X09"], "W:f64": ["Lf64", "X01"], "W:bool": ["Pbool"],
    "W:BigInt": ["Lbigint", "X06"], "W:BigUint": ["Lbiguint", "X09"], "W:String": ["Ptext"],
    "W:&'a str": ["S01"],                 # slot keys of every derived struct are written as &str
    "W:Text": ["Ltext", "X09"], "W:RouteUri": ["Luri", "X09"], "W:Arc<T>": ["Larc", "X09"],
    "W:Rc<T>": [],                        # write-only (no RecognizerReadable): cannot be a Form; not exercised
    "W:Blob": ["Lblob", "X05", "X08"], "W:Vec<u8>": ["X08"], "W:&[u8]": ["X08"], "W:Box<[u8]>": ["X08"],
    "W:Value": ["Lvalue", "X02", "X03"], "W:Vec<T>": ["Plist", "V:S01"], "W:Option<T>": ["Popt", "O:S01"],
    "W:HashMap<K, V, S>": ["X04", "M:S01", "Kmap2", "KmapS", "KmapV", "KmapE", "KmapO", "X11", "X12"],
    "W:BTreeMap<K, V>": [],               # write-only (no RecognizerReadable): cannot be a Form; not exercised
    "W:Timestamp": ["Ltime", "X09", "X10"], "W:Quantity<T>": ["Lquant", "Lquant2", "X09"],
    "W:Duration": ["Ldur", "X09", "X10", "Ptup1"], "W:RetryStrategy": ["Lretry", "X09"],
    "W:tuple1": ["Ptup1"], "W:tuple2": ["Ptup2", "X12"], "W:tuple3": ["Ptup3"], "W:tuple12": ["Ptup12"],
    # read side: `impl .. RecognizerReadable for <X>` / simple_readable!(X, ..)
    "R:()": ["Lunit"], "R:i32": ["Pi32"], "R:i64": ["Li64"], "R:u32": ["Lu32"], "R:u64": ["Pu64"],
    "R:usize": ["Lusize"], "R:NonZeroUsize": ["Lnz"], "R:f64": ["Lf64"], "R:BigInt": ["Lbigint"],
    "R:BigUint": ["Lbiguint"], "R:String": ["Ptext"], "R:Text": ["Ltext"], "R:Vec<u8>": ["X08"], "R:bool": ["Pbool"],
    "R:Blob": ["Lblob", "X08"], "R:Box<[u8]>": ["X08"], "R:Arc<T>": ["Larc"], "R:Value": ["Lvalue"],
    "R:RetryStrategy": ["Lretry"], "R:Quantity<T>": ["Lquant", "Lquant2"], "R:Duration": ["Ldur"],
    "R:RouteUri": ["Luri"], "R:Timestamp": ["Ltime"], "R:Vec<T>": ["Plist"], "R:Option<T>": ["Popt"],
    "R:HashMap<K, V>": ["X04", "Kmap2", "KmapS", "KmapV", "KmapE", "KmapO"],
    "R:tuple1": ["Ptup1"], "R:tuple2": ["Ptup2"], "R:tuple3": ["Ptup3"], "R:tuple12": ["Ptup12"],
}
# tuple arities 4..11 are instances of the same macro body as 2, 3 and 12
TUPLE_MACRO_ARITIES = list(range(1, 13))


def form_impls():
    import os
    found = []
    w1 = src("api/swimos_form/src/structural/write/mod.rs")
    w2 = src("api/swimos_form/src/structural/write/impls.rs")
    for t in (w1, w2):
        for m in re.finditer(r"^impl(?:<[^>]*>)? StructuralWritable for ([^\n{]+?)\s*(?:where[^{]*)?\{", t, re.M):
            found.append("W:" + m.group(1).strip())
    for m in re.finditer(r"^map_impl!\((\w+<[^)]*>)\);", w1, re.M):
        found.append("W:" + m.group(1))
    arw = sorted(int(a) for a in re.findall(r"^impl_writable_tuple! \{ (\d+) =>", w1, re.M))
    r1 = src("api/swimos_form/src/structural/read/recognizer/mod.rs")
    r2 = src("api/swimos_form/src/structural/read/recognizer/impls.rs")
    for t in (r1, r2):
        for m in re.finditer(r"^impl(?:<[^>]*>)? RecognizerReadable for ([^\n{]+?)\s*(?:where[^{]*)?\{?$", t, re.M):
            found.append("R:" + m.group(1).strip())
        for m in re.finditer(r"^simple_readable!\(([^,]+(?:<[^>]*>)?), \w+\);", t, re.M):
            found.append("R:" + m.group(1).strip())
    arr = sorted(int(a) for a in re.findall(r"^impl_readable_tuple! \{ (\d+) =>", r2, re.M))
    if arw != TUPLE_MACRO_ARITIES or arr != TUPLE_MACRO_ARITIES:
        raise ExtractError(f"tuple impl arities changed: write {arw}, read {arr}")
    found = [f for f in found if not f.startswith("W:WritableRef") and "HeaderWithBody" not in f and "SimpleHeader" not in f]
    unknown = sorted(set(found) - set(IMPL_COVERAGE))
    if unknown:
        raise ExtractError("Form impls in swimos_form not covered by the C16 battery (add battery entries and list them "
                           "in tools/extractors/c16.py IMPL_COVERAGE): " + ", ".join(unknown))
    gone = sorted(k for k in IMPL_COVERAGE if not k[2:].startswith("tuple") and k not in found)
    if gone:
        raise ExtractError("impls listed in IMPL_COVERAGE no longer in the source: " + ", ".join(gone))
    here = os.path.dirname(os.path.abspath(__file__))
    harness = open(os.path.join(here, "..", "..", "harness", "form", "src", "bin", "sv-c16.rs"), encoding="utf-8").read()
    reg = set(re.findall(r'"(\w+)" => ', harness))
    missing = sorted({n for ns in IMPL_COVERAGE.values() for n in ns if n.split(":")[-1] not in reg})
    if missing:
        raise ExtractError("battery entries named in IMPL_COVERAGE are not in the harness registry: " + ", ".join(missing))
    rows = ",\n  ".join('("%s", [%s])' % (k, ", ".join('"%s"' % n for n in IMPL_COVERAGE[k])) for k in sorted(found))
    return (HEADER + "namespace SwimVerif.Generated\n"
            "/-- every hand-written Form impl found in swimos_form (W: write side, R: read side) with the battery entries\n"
            "that exercise it; an empty list = write-only type that cannot be a `Form` (Rc, BTreeMap) -/\n"
            f"def formImpls : List (String × List String) := [\n  {rows}]\n"
            "end SwimVerif.Generated\n")


EXTRACTORS["FormImpls"] = form_impls
