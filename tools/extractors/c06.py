from extract import src, one, HEADER, ExtractError
import re

def handler_flags():
    """Which `Modification` the modifying lane handlers report (decides whether `run_handler` triggers the lane's
    lifecycle handlers) and the flag sets behind the three `Modification` constructors."""
    ev = src("server/swimos_agent/src/event_handler/mod.rs")
    one(r"const DIRTY = 0b01;", ev, "ModificationFlags::DIRTY")
    one(r"const TRIGGER_HANDLER = 0b10;", ev, "ModificationFlags::TRIGGER_HANDLER")
    ctor = {}
    ctor["of"] = one(r"pub\(crate\) fn of\(item_id: u64\) -> Self \{\s*Modification \{\s*item_id,\s*flags: ([^,]+),",
                     ev, "Modification::of")
    ctor["no_trigger"] = one(r"pub\(crate\) fn no_trigger\(item_id: u64\) -> Self \{\s*Modification \{\s*item_id,"
                             r"\s*flags: ([^,]+),", ev, "Modification::no_trigger")
    ctor["trigger_only"] = one(r"pub\(crate\) fn trigger_only\(item_id: u64\) -> Self \{\s*Modification \{\s*item_id,"
                               r"\s*flags: ([^,]+),", ev, "Modification::trigger_only")
    flags = {
        "ModificationFlags::all()": (True, True),
        "ModificationFlags::complement(ModificationFlags::TRIGGER_HANDLER)": (True, False),
        "ModificationFlags::TRIGGER_HANDLER": (False, True),
        "ModificationFlags::DIRTY": (True, False),
    }
    for k, v in ctor.items():
        if v.strip() not in flags:
            raise ExtractError(f"Modification::{k}: unknown flag expression {v!r}")

    def step_mod(text, ty, what):
        # the `impl … HandlerAction<C> for <ty><…>` block up to its `fn describe`
        m = re.findall(r"HandlerAction<C> for " + ty + r"<[^>]*>(.*?)fn describe", text, re.S)
        if len(m) != 1:
            raise ExtractError(f"{what}: expected one HandlerAction impl for {ty}, found {len(m)}")
        c = one(r"modified_item: Some\(Modification::(\w+)\(", m[0], what + " modification")
        if c not in ctor:
            raise ExtractError(f"{what}: unknown Modification constructor {c}")
        return flags[ctor[c].strip()]

    vl = src("server/swimos_agent/src/lanes/value/mod.rs")
    ml = src("server/swimos_agent/src/lanes/map/mod.rs")
    out = {
        "valueSet": step_mod(vl, "ValueLaneSet", "ValueLaneSet::step"),
        "mapUpdate": step_mod(ml, "MapLaneUpdate", "MapLaneUpdate::step"),
        "mapRemove": step_mod(ml, "MapLaneRemove", "MapLaneRemove::step"),
        "mapClear": step_mod(ml, "MapLaneClear", "MapLaneClear::step"),
    }
    b = lambda x: "true" if x else "false"
    body = "".join(f"def {k}Dirty : Bool := {b(d)}\ndef {k}Trigger : Bool := {b(t)}\n" for k, (d, t) in out.items())
    return HEADER + "namespace SwimVerif.Generated\n" + body + "end SwimVerif.Generated\n"

EXTRACTORS = {"HandlerFlags": handler_flags}
