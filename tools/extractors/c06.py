from extract import src, one, HEADER, ExtractError
import re

def handler_flags():
    """Which `Modification` the modifying lane handlers report (decides whether `run_handler` triggers the lane's
    lifecycle handlers) and the flag sets behind the three `Modification` constructors."""
    ev = src("server/swimos_agent/src/event_handler/mod.rs")
    one(r"const DIRTY = 0b01;", ev, "ModificationFlags::DIRTY")
    one(r"const TRIGGER_HANDLER = 0b10;", ev, "ModificationFlags::TRIGGER_HANDLER")
    ctor = {}
    ctor["of"] = one(r"pub\(crate\) fn of\(item_id: u64\) -> Self \{\s*Modification \{\s*item_id,\s*flags: ([^,]+),",
                     ev, "Modification::of")
    ctor["no_trigger"] = one(r"pub\(crate\) fn no_trigger\(item_id: u64\) -> Self \{\s*Modification \{\s*item_id,"
                             r"\s*flags: ([^,]+),", ev, "Modification::no_trigger")
    ctor["trigger_only"] = one(r"pub\(crate\) fn trigger_only\(item_id: u64\) -> Self \{\s*Modification \{\s*item_id,"
                               r"\s*flags: ([^,]+),", ev, "Modification::trigger_only")
    flags = {
        "ModificationFlags::all()": (True, True),
        "ModificationFlags::complement(ModificationFlags::TRIGGER_HANDLER)": (True, False),
        "ModificationFlags::TRIGGER_HANDLER": (False, True),
        "ModificationFlags::DIRTY": (True, False),
    }
    for k, v in ctor.items():
        if v.strip() not in flags:
            raise ExtractError(f"Modification::{k}: unknown flag expression {v!r}")

    def step_mod(text, ty, what):
        # the `impl … HandlerAction<C> for <ty><…>` block up to its `fn describe`
        m = re.findall(r"HandlerAction<C> for " + ty + r"<[^>]*>(.*?)fn describe", text, re.S)
        if len(m) != 1:
            raise ExtractError(f"{what}: expected one HandlerAction impl for {ty}, found {len(m)}")
        c = one(r"modified_item: Some\(Modification::(\w+)\(", m[0], what + " modification")
        if c not in ctor:
            raise ExtractError(f"{what}: unknown Modification constructor {c}")
        return flags[ctor[c].strip()]

    vl = src("server/swimos_agent/src/lanes/value/mod.rs")
    ml = src("server/swimos_agent/src/lanes/map/mod.rs")
    out = {
        "valueSync": step_mod(vl, "ValueLaneSync", "ValueLaneSync::step"),
        "mapSync": step_mod(ml, "MapLaneSync", "MapLaneSync::step"),
        "valueSet": step_mod(vl, "ValueLaneSet", "ValueLaneSet::step"),
        "mapUpdate": step_mod(ml, "MapLaneUpdate", "MapLaneUpdate::step"),
        "mapRemove": step_mod(ml, "MapLaneRemove", "MapLaneRemove::step"),
        "mapClear": step_mod(ml, "MapLaneClear", "MapLaneClear::step"),
        "mapTransform": step_mod(ml, "MapLaneTransformEntry", "MapLaneTransformEntry::step"),
    }
    # take/drop: keys sorted by their Recon structure, Drop = the first n, Take = all but the first n, removed from
    # the FRONT of the queue, one `MapLaneRemove` per step (what `dropTakeKeys` / `step (.remMulti ..)` model)
    ms = src("server/swimos_agent/src/map_storage/mod.rs")
    one(r"keys_with_recon\.sort_by\(\|\(k1, _\), \(k2, _\)\| k1\.cmp\(k2\)\);", ms, "drop_or_take: sort by key structure")
    one(r"DropOrTake::Drop => it\.take\(number\)\.cloned\(\)\.collect\(\),\s*DropOrTake::Take => it\.skip\(number\)\.cloned\(\)\.collect\(\),",
        ms, "to_deque: Drop = take(n), Take = skip(n)")
    rm = re.findall(r"HandlerAction<C> for MapLaneRemoveMultiple<[^>]*>(.*?)fn describe", ml, re.S)
    if len(rm) != 1:
        raise ExtractError(f"MapLaneRemoveMultiple::step: expected one impl, found {len(rm)}")
    one(r"\} else if let Some\(next\) = key_queue\.pop_front\(\) \{\s*current\.insert\(MapLaneRemove::new\(\*projection, next\)\)",
        rm[0], "MapLaneRemoveMultiple::step: next key = pop_front")
    b = lambda x: "true" if x else "false"
    body = "".join(f"def {k}Dirty : Bool := {b(d)}\ndef {k}Trigger : Bool := {b(t)}\n" for k, (d, t) in out.items())
    return HEADER + "namespace SwimVerif.Generated\n" + body + "end SwimVerif.Generated\n"


def flush_table():
    """The write flush at the end of every iteration of the agent task's loop (`run_agent`): for each `WriteResult`
    whether a write is started, the `requires_event` flag given to `do_write` (whose completion re-dispatches the
    item's lifecycle event when it is true) and whether the item stays in `dirty_items`; the `WriteResult`s that the
    `write_to_buffer` of value / map / command lanes can return; the item kinds that can return `RequiresEvent`."""
    am = src("server/swimos_agent/src/agent_model/mod.rs")
    variants = one(r"pub enum WriteResult \{(.*?)\n\}", am, "enum WriteResult", re.S)
    names = re.findall(r"^\s*(\w+),\s*$", variants, re.M)
    if sorted(names) != ["DataStillAvailable", "Done", "NoData", "RequiresEvent"]:
        raise ExtractError(f"enum WriteResult: unexpected variants {names}")
    blk = one(r"// Attempt to write to the outgoing buffers for any items with data\.\s*dirty_items\.retain\(\|id\| \{(.*?)\n            \}\);",
              am, "write flush (dirty_items.retain)", re.S)
    one(r"if let Some\(mut tx\) = item_writers\.remove\(id\) \{", blk, "flush: writer taken from item_writers")
    one(r"match item_model\.write_event\(name\.as_str\(\), &mut tx\.buffer\) \{", blk, "flush: match on write_event")
    arms = re.findall(r"Some\(WriteResult::(\w+)\) => \{\s*pending_writes\.push\(do_write\(tx, (true|false)\)\);\s*(true|false)\s*\}",
                      blk)
    table = {n: (True, ev == "true", keep == "true") for n, ev, keep in arms}
    if len(arms) != len(table):
        raise ExtractError("flush: duplicate match arm")
    dflt = re.findall(r"_ => \{\s*(?://[^\n]*\s*)*item_writers\.insert\(\*id, tx\);\s*(true|false)\s*\}", blk)
    if len(dflt) != 1:
        raise ExtractError(f"flush: expected one default arm returning the writer, found {len(dflt)}")
    for n in names:
        table.setdefault(n, (False, False, dflt[0] == "true"))
    # every `=>` of the match is accounted for (an arm of another shape would be missed otherwise)
    if blk.count("=>") != len(arms) + 1:
        raise ExtractError(f"flush: {blk.count('=>')} match arms, {len(arms) + 1} understood")
    away = one(r"\} else \{\s*(true|false)\s*\}\s*$", blk, "flush: writer away", re.S)
    one(r"async fn do_write\(\s*writer: ItemWriter,\s*requires_event: bool,\s*\) -> \(ItemWriter, Result<bool, std::io::Error>\) \{"
        r"\s*let \(writer, result\) = writer\.write\(\)\.await;\s*\(writer, result\.map\(move \|_\| requires_event\)\)\s*\}",
        am, "do_write")
    one(r"TaskEvent::WriteComplete \{ writer, result \} => \{\s*match result \{\s*Ok\(true\) => \{\s*(?://[^\n]*\s*)*"
        r"let lane = &lifecycle_item_ids\[&writer\.lane_id\(\)\];\s*if let Some\(handler\) = lifecycle\.item_event\(&item_model, lane\.as_str\(\)\)"
        r"\s*\{\s*exec_handler!\(handler\);\s*\}\s*\}", am, "WriteComplete arm")
    # lifecycle_item_ids: id -> lifecycle (field) name; external_item_ids: external name -> id
    one(r"let mut lifecycle_item_ids: HashMap<u64, Text> = item_specs\s*\.values\(\)\s*"
        r"\.map\(\|spec\| \(spec\.id, Text::new\(spec\.lifecycle_name\)\)\)\s*\.collect\(\);", am, "lifecycle_item_ids")
    one(r"let mut external_item_ids: HashMap<Text, u64> = item_specs\s*\.iter\(\)\s*"
        r"\.map\(\|\(name, spec\)\| \(Text::new\(name\), spec\.id\)\)\s*\.collect\(\);", am, "external_item_ids")

    def results(rel, ty):
        text = src(rel)
        m = re.findall(r"LaneItem for " + ty + r"<[^{]*\{\s*fn write_to_buffer\(&self, buffer: &mut BytesMut\) -> WriteResult \{(.*?)\n    \}\n\}",
                       text, re.S)
        if len(m) != 1:
            raise ExtractError(f"{ty}::write_to_buffer: expected one impl, found {len(m)}")
        return sorted(set(re.findall(r"WriteResult::(\w+)", m[0])))

    res = {
        "value": results("server/swimos_agent/src/lanes/value/mod.rs", "ValueLane"),
        "map": results("server/swimos_agent/src/lanes/map/mod.rs", "MapLane"),
        "command": results("server/swimos_agent/src/lanes/command/mod.rs", "CommandLane"),
        "demandMap": results("server/swimos_agent/src/lanes/demand_map/mod.rs", "DemandMapLane"),
    }
    import glob, os
    from extract import REPO
    base = os.path.join(REPO, "server/swimos_agent/src")
    users = []
    for p in sorted(glob.glob(os.path.join(base, "**", "*.rs"), recursive=True)):
        rel = os.path.relpath(p, base)
        if "/tests" in "/" + rel or rel.endswith("tests.rs") or rel == "agent_model/mod.rs":
            continue
        if "WriteResult::RequiresEvent" in open(p, encoding="utf-8").read():
            users.append(rel)
    b = lambda x: "true" if x else "false"
    lst = lambda xs: "[" + ", ".join('"%s"' % x for x in xs) + "]"
    body = ""
    for n in ["NoData", "Done", "DataStillAvailable", "RequiresEvent"]:
        push, ev, keep = table[n]
        k = n[0].lower() + n[1:]
        body += f"def flush{n}Push : Bool := {b(push)}\ndef flush{n}Event : Bool := {b(ev)}\ndef flush{n}Retain : Bool := {b(keep)}\n"
    body += f"def flushWriterAwayRetain : Bool := {b(away == 'true')}\n"
    for k, v in res.items():
        body += f"def {k}LaneWriteResults : List String := {lst(v)}\n"
    body += f"def requiresEventSources : List String := {lst(users)}\n"
    return HEADER + "namespace SwimVerif.Generated\n" + body + "end SwimVerif.Generated\n"


EXTRACTORS = {"HandlerFlags": handler_flags, "FlushTable": flush_table}
