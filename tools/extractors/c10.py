"""C10: wire constants (tags, header sizes, flag bits) and the tag arms each decoder matches, re-read from the sources.

Generated/WireConsts.lean is what the Lean codec models are written against: a changed tag value changes the
model (and is then caught by the correspondence or by the `tags_distinct` side conditions); a changed set of
match arms changes `*Arms` and breaks `C10_tag_tables` (the model's if-chains no longer mirror the code).
"""
import re
from extract import src, one, HEADER, ExtractError

SIZEOF = {"u8": 1, "u16": 2, "u32": 4, "u64": 8, "u128": 16}


def const(text, name, what, ty=r"\w+"):
    """`const NAME: ty = <int literal | 0b.. | std::mem::size_of::<T>()>;` -> int"""
    v = one(r"^\s*const %s: %s = ([^;]+);" % (name, ty), text, what, re.M).strip()
    m = re.fullmatch(r"std::mem::size_of::<(\w+)>\(\)", v)
    if m:
        if m.group(1) not in SIZEOF:
            raise ExtractError(f"{what}: unknown size_of type {m.group(1)}")
        return SIZEOF[m.group(1)]
    if re.fullmatch(r"0b[01_]+", v):
        return int(v.replace("_", ""), 2)
    if re.fullmatch(r"\d+", v):
        return int(v)
    m = re.fullmatch(r"(\d+) \* (\w+)", v)
    if m:
        return int(m.group(1)) * const(text, m.group(2), what + " (factor)")
    raise ExtractError(f"{what}: cannot evaluate {v!r}")


def block(text, start_pat, what):
    """Text from the unique match of start_pat up to the next top-level item (line starting with `impl`, `#[`,
    `pub `, `struct`, `enum`, `const`, `fn`, `type`)."""
    ms = list(re.finditer(start_pat, text, re.M))
    if len(ms) != 1:
        raise ExtractError(f"{what}: expected exactly one match of /{start_pat}/, found {len(ms)}")
    rest = text[ms[0].end():]
    m = re.search(r"^(impl|#\[|pub |struct |enum |const |fn |type )", rest, re.M)
    return rest[:m.start()] if m else rest


def arms(blk, what, pat=r"^\s+((?:[A-Z_]+)(?: \| [A-Z_]+)*|tag @ \([A-Z_ |]+\))( if [^=\n]*?)? => "):
    """Upper-case constant match arms (in order) of a decoder block; a guarded arm (`X if cond =>`) is `X?`."""
    out = []
    for a, guard in re.findall(pat, blk, re.M):
        out += [n + ("?" if guard else "") for n in re.findall(r"[A-Z_]+", a)]
    if not out:
        raise ExtractError(f"{what}: no constant match arms found")
    return out


def lean_strs(xs):
    return "[" + ", ".join('"%s"' % x for x in xs) + "]"


def wire_consts():
    lib = src("api/swimos_agent_protocol/src/lib.rs")
    lane = src("api/swimos_agent_protocol/src/lane/mod.rs")
    mp = src("api/swimos_agent_protocol/src/map/mod.rs")
    store = src("api/swimos_agent_protocol/src/store/mod.rs")
    dl = src("api/swimos_agent_protocol/src/downlink/mod.rs")
    cmd = src("api/swimos_agent_protocol/src/command/mod.rs")
    proto = src("runtime/swimos_messages/src/protocol/mod.rs")
    codec = src("swimos_utilities/swimos_encoding/src/codec.rs")

    L = []

    def d(name, val):
        L.append(f"def {name} : Nat := {int(val)}")

    # lib.rs: lane / store protocol tags and sizes
    for lean, rust in [("laneCommand", "COMMAND"), ("laneSync", "SYNC"), ("laneSyncComplete", "SYNC_COMPLETE"),
                       ("laneEvent", "EVENT"), ("laneInitDone", "INIT_DONE"), ("laneInitialized", "INITIALIZED")]:
        d(lean, const(lib, rust, "lib.rs " + rust, "u8"))
    d("tagLen", const(lib, "TAG_LEN", "lib.rs TAG_LEN", "usize"))
    d("idLen", const(lib, "ID_LEN", "lib.rs ID_LEN", "usize"))
    d("tagSize", const(lib, "TAG_SIZE", "lib.rs TAG_SIZE", "usize"))
    d("lenSize", const(lib, "LEN_SIZE", "lib.rs LEN_SIZE", "usize"))
    # map/mod.rs
    for lean, rust in [("mapUpdate", "UPDATE"), ("mapRemove", "REMOVE"), ("mapClear", "CLEAR"), ("mapTake", "TAKE"),
                       ("mapDrop", "DROP")]:
        d(lean, const(mp, rust, "map/mod.rs " + rust, "u8"))
    d("mapLenSize", const(mp, "LEN_SIZE", "map/mod.rs LEN_SIZE", "usize"))
    d("mapTagSize", const(mp, "TAG_SIZE", "map/mod.rs TAG_SIZE", "usize"))
    # codec.rs
    d("wlbLenSize", const(codec, "LEN_SIZE", "codec.rs LEN_SIZE", "usize"))
    # downlink/mod.rs
    for lean, rust in [("dlLinked", "LINKED"), ("dlSynced", "SYNCED"), ("dlEvent", "EVENT"), ("dlUnlinked", "UNLINKED")]:
        d(lean, const(dl, rust, "downlink/mod.rs " + rust, "u8"))
    # protocol/mod.rs
    d("opShift", const(proto, "OP_SHIFT", "protocol OP_SHIFT", "usize"))
    one(r"const OP_MASK: u64 = 0b111 << OP_SHIFT;", proto, "protocol OP_MASK = 0b111 << OP_SHIFT")
    for lean, rust in [("msgLink", "LINK"), ("msgSync", "SYNC"), ("msgUnlink", "UNLINK"), ("msgCommand", "COMMAND"),
                       ("msgLinked", "LINKED"), ("msgSynced", "SYNCED"), ("msgUnlinked", "UNLINKED"),
                       ("msgEvent", "EVENT")]:
        d(lean, const(proto, rust, "protocol " + rust, "u64"))
    d("headerInitLen", const(proto, "HEADER_INIT_LEN", "protocol HEADER_INIT_LEN", "usize"))
    # command/mod.rs
    d("cmdFlagsLen", const(cmd, "FLAGS_LEN", "command FLAGS_LEN", "usize"))
    d("cmdLenLen", const(cmd, "LEN_LEN", "command LEN_LEN", "usize"))
    d("cmdIdLen", const(cmd, "ID_LEN", "command ID_LEN", "usize"))
    d("cmdMinRequired", const(cmd, "MIN_REQUIRED", "command MIN_REQUIRED", "usize"))
    d("cmdMaxRequired", const(cmd, "MAX_REQUIRED", "command MAX_REQUIRED", "usize"))
    for lean, rust in [("cmdRegistration", "REGISTRATION"), ("cmdRegistered", "REGISTERED"), ("cmdHasHost", "HAS_HOST"),
                       ("cmdOverwrite", "OVERWRITE_PERMITTED")]:
        d(lean, int(one(r"const %s = (0b[01]+);" % rust, cmd, "command flag " + rust), 2))

    # which constant arms each hand-written decoder matches (in source order)
    tabs = [
        ("laneRequestArms", arms(block(lane, r"^impl<D> Decoder for LaneRequestDecoder<D>", "LaneRequestDecoder"),
                                 "LaneRequestDecoder arms")),
        ("laneResponseArms", arms(block(lane, r"^impl<Inner> Decoder for LaneResponseDecoder<Inner>",
                                        "LaneResponseDecoder"), "LaneResponseDecoder arms")),
        ("rawMapOpArms", arms(block(mp, r"^impl Decoder for RawMapOperationDecoder", "RawMapOperationDecoder"),
                              "RawMapOperationDecoder arms")),
        ("mapMessageArms", arms(block(mp, r"^impl<K, V, Inner> Decoder for MessageDecoder<Inner>", "MessageDecoder"),
                                "MessageDecoder arms")),
        ("storeInitArms", arms(block(store, r"^impl<D> Decoder for StoreInitMessageDecoder<D>",
                                     "StoreInitMessageDecoder"), "StoreInitMessageDecoder arms")),
        ("rawRequestArms", arms(block(proto, r"^impl Decoder for RawRequestMessageDecoder", "RawRequestMessageDecoder"),
                                "RawRequestMessageDecoder arms")),
        ("rawResponseArms", arms(block(proto, r"^impl Decoder for RawResponseMessageDecoder",
                                       "RawResponseMessageDecoder"), "RawResponseMessageDecoder arms")),
        ("dlNotificationArms", arms(block(dl, r"^impl<T, D> Decoder for DownlinkNotificationDecoder<T, D>",
                                          "DownlinkNotificationDecoder"), "DownlinkNotificationDecoder arms")),
    ]
    # single-tag decoders compare with `==`
    one(r"if tag == INITIALIZED \{", store, "StoreInitializedCodec compares with INITIALIZED")
    one(r"if tag == EVENT \{", store, "StoreResponseDecoder compares with EVENT")
    one(r"if src\.remaining\(\) <= TAG_LEN \{", store, "StoreResponseDecoder header guard `<= TAG_LEN`")
    # the discard arithmetic of the length-delimited Recon body decoders (modelled in Model/FrameDiscard.lean):
    # in the `Err(e)` arm of `ReadingBody`: `let rem = src.remaining(); if rem >= *remaining { src.advance(*remaining);
    # .. } else { src.clear(); .. Discarding { remaining: <expr>, .. } }`
    def discard_exprs(text, what):
        flat = re.sub(r"\s+", " ", text)
        xs = re.findall(r"let rem = src\.remaining\(\); if rem >= \*remaining \{ src\.advance\(\*remaining\); "
                        r"\*state = \w+::ReadingHeader; break Err\([^)]*\)\)?; \} else \{ src\.clear\(\); "
                        r"\*state = \w+::Discarding \{ remaining: ([^,]+),", flat)
        if not xs:
            raise ExtractError(f"{what}: the error arm `rem >= *remaining .. Discarding {{ remaining: .. }}` was not found")
        return xs
    recon_enc = src("api/formats/swimos_recon/src/encoding.rs")
    tabs.append(("wlrDiscardArms", discard_exprs(recon_enc, "WithLenRecognizerDecoder")))
    tabs.append(("dlNotDiscardArms", discard_exprs(dl, "DownlinkNotificationDecoder")))
    one(r"let to_split = remaining\.min\(src\.remaining\(\)\);", codec, "consume_bounded bounds the slice")
    one(r"let end_of_message = remaining <= buf_remaining;", codec, "consume_bounded end_of_message")
    for name, xs in tabs:
        L.append(f"def {name} : List String := {lean_strs(xs)}")
    return (HEADER + "namespace SwimVerif.Generated.Wire\n" + "\n".join(L) + "\nend SwimVerif.Generated.Wire\n")


EXTRACTORS = {"WireConsts": wire_consts}
