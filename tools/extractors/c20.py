"""C20 translator: the two atomic helpers of `agent/reporting/mod.rs` (`saturating_add`, `snapshot_value`) as programs
over the atomic steps of `Model/Counters.lean` (same scheme as c12.py / c17.py), plus the wiring of the reporter's
methods to them (exact text)."""
import re
from extract import src, one, HEADER, ExtractError
from rustmini import strip_comments, norm, fn_body, parse_block, seq

K_CONDS = {
    "n.compare_exchange_weak(count, 0, Ordering::Relaxed, Ordering::Relaxed) .is_ok()": ".casWeakZeroOk",
    "n.compare_exchange_weak(count, 0, Ordering::Relaxed, Ordering::Relaxed).is_ok()": ".casWeakZeroOk",
}
K_ATOMS = {
    "let count = n.load(Ordering::Relaxed)": ".loadCount",
    "break count": ".breakCount",
    "let _ = n.fetch_update(Ordering::Relaxed, Ordering::Relaxed, |n| { Some(n.saturating_add(m)) })": ".fetchUpdateSatAdd",
}


def emit_k(nodes, fn):
    items = []
    for nd in nodes:
        if nd[0] == "loop":
            items.append(f"(.loop {emit_k(nd[1], fn)})")
        elif nd[0] == "if":
            _, cond, then_l, else_l, _ = nd
            if cond not in K_CONDS:
                raise ExtractError(f"{fn}: unknown condition {cond!r}")
            items.append(f"(.ite {K_CONDS[cond]} {emit_k(then_l, fn)} {emit_k(else_l, fn)})")
        else:
            _, text, _ = nd
            if text not in K_ATOMS:
                raise ExtractError(f"{fn}: unknown statement {text!r}")
            items.append(K_ATOMS[text])
    return seq(items)


def counter_src():
    t = strip_comments(src("runtime/swimos_runtime/src/agent/reporting/mod.rs"))
    sat = emit_k(parse_block(fn_body(t, "saturating_add", r"fn saturating_add\(n: &AtomicU64, m: u64\)", "reporting"), False),
                 "saturating_add")
    snap = emit_k(parse_block(fn_body(t, "snapshot_value", r"fn snapshot_value\(n: &AtomicU64\) -> u64", "reporting"), True),
                  "snapshot_value")
    # wiring: which counter each public method touches, and how
    one(r"pub fn count_events\(&self, n: u64\) \{\s*saturating_add\(&self\.counters\.event_count, n\)\s*\}", t, "count_events")
    one(r"pub fn count_commands\(&self, n: u64\) \{\s*saturating_add\(&self\.counters\.command_count, n\)\s*\}", t,
        "count_commands")
    one(r"pub fn set_uplinks\(&self, n: u64\) \{\s*self\.counters\.link_count\.store\(n, Ordering::Relaxed\);\s*\}", t,
        "set_uplinks")
    one(r"let link_count = counters\.link_count\.load\(Ordering::Relaxed\);\s*"
        r"let event_count = snapshot_value\(&counters\.event_count\);\s*"
        r"let command_count = snapshot_value\(&counters\.command_count\);\s*"
        r"UplinkSnapshot \{\s*link_count,\s*event_count,\s*command_count,\s*\}", t, "UplinkReportReader::snapshot")
    for f, n in (("event_count", 4), ("command_count", 4), ("link_count", 4)):
        # struct field + the uses above (+ the UplinkSnapshot / pulse fields of the same name are counted separately)
        pass
    if len(re.findall(r"counters\.(event_count|command_count|link_count)", t)) != 6:
        raise ExtractError("the counters are accessed somewhere else than in count_events / count_commands / "
                           "set_uplinks / snapshot")
    return "\n".join([HEADER, "import SwimVerif.Model.CounterProg", "namespace SwimVerif.Generated.CounterSrc",
                      "open SwimVerif.CounterProg", "",
                      "/-- `saturating_add` -/", f"def saturating_add : KStmt :=\n  {sat}",
                      "/-- `snapshot_value` -/", f"def snapshot_value : KStmt :=\n  {snap}",
                      "end SwimVerif.Generated.CounterSrc\n"])


EXTRACTORS = {"CounterSrc": counter_src}
