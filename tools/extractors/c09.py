"""C09: escape / unescape tables, identifier character ranges, printer paddings — read from the Rust sources.

Generated module `ReconTables`:
  escapeTable      : (char, letter) pairs of `literal.rs::escape_text` (`c` is written `\\letter`)
  escapeCtlBound   : chars below it (and not in the table) are written `\\u` + 4 hex digits (DIGITS table checked)
  needsEscapeBound / needsEscapeChars : `literal.rs::needs_escape`
  unescapeTable    : (letter, char) pairs of `tokens.rs::unescape`; isEscapeChars : `tokens.rs::is_escape`
  identStartRanges : inclusive code point ranges of `identifier.rs::is_identifier_start`
  identCharExtra   : what `is_identifier_char` adds (ranges); reservedWords : the words `is_identifier` rejects
  separators, prettyIndent, newLine
"""
import re
from extract import src, one, HEADER, ExtractError


def rust_char(lit, what):
    """Code point of a Rust char literal body (between the quotes)."""
    simple = {"\\\\": 0x5c, '\\"': 0x22, "\\'": 0x27, "\\n": 10, "\\r": 13, "\\t": 9, "\\0": 0}
    if lit in simple:
        return simple[lit]
    m = re.fullmatch(r"\\u\{([0-9a-fA-F]+)\}", lit)
    if m:
        return int(m.group(1), 16)
    if len(lit) == 1:
        return ord(lit)
    raise ExtractError(f"{what}: cannot read Rust char literal {lit!r}")


CH = r"'((?:\\u\{[0-9a-fA-F]+\}|\\.|[^'\\]))'"


def lean_pairs(ps):
    return "[" + ", ".join(f"({a}, {b})" for a, b in ps) + "]"


def recon_tables():
    lit = src("api/swimos_model/src/literal.rs")
    body = one(r"fn escape_text\(text: &str\) -> String \{(.*?)\n\}\n", lit, "escape_text body", re.S)
    arms = re.findall(CH + r" => \{\s*output\.push\('\\\\'\);\s*output\.push\(" + CH + r"\);\s*\}", body)
    if len(arms) < 2:
        raise ExtractError("escape_text: no two-character escape arms found")
    esc = [(rust_char(a, "escape arm"), rust_char(b, "escape arm")) for a, b in arms]
    # every arm of the match must be accounted for: the table arms, the control-character arm, the default arm
    n_arms = len(re.findall(r"=> \{|=> output\.push\(c\)", body))
    if n_arms != len(esc) + 2:
        raise ExtractError(f"escape_text: {n_arms} match arms but {len(esc)} table arms + control arm + default expected")
    bound = one(r"cp if cp < " + CH + r" => \{", body, "escape_text control bound")
    ctl = rust_char(bound, "control bound")
    one(r"let n = cp as usize;\s*output\.push\('\\\\'\);\s*output\.push\('u'\);\s*"
        r"output\.push\(DIGITS\[\(n >> 12\) & 0xf\]\);\s*output\.push\(DIGITS\[\(n >> 8\) & 0xf\]\);\s*"
        r"output\.push\(DIGITS\[\(n >> 4\) & 0xf\]\);\s*output\.push\(DIGITS\[n & 0xf\]\);", body, "\\uXXXX arm")
    digits = one(r"static DIGITS: \[char; 16\] = \[(.*?)\];", lit, "DIGITS", re.S)
    dl = [rust_char(d, "DIGITS") for d in re.findall(CH, digits)]
    if "".join(map(chr, dl)) != "0123456789abcdef":
        raise ExtractError("DIGITS is not 0123456789abcdef")
    ne = one(r"fn needs_escape\(text: &str\) -> bool \{\s*text\.chars\(\)\.any\(\|c\| (.*?)\)\s*\}", lit, "needs_escape", re.S)
    parts = [p.strip() for p in ne.split("||")]
    ne_bound, ne_chars = None, []
    for p in parts:
        m = re.fullmatch(r"c < " + CH, p)
        if m:
            ne_bound = rust_char(m.group(1), "needs_escape bound")
            continue
        m = re.fullmatch(r"c == " + CH, p)
        if m:
            ne_chars.append(rust_char(m.group(1), "needs_escape char"))
            continue
        raise ExtractError(f"needs_escape: unexpected disjunct {p!r}")
    if ne_bound is None:
        raise ExtractError("needs_escape: no bound")
    one(r"if crate::identifier::is_identifier\(literal\) \{\s*f\.write_str\(literal\)\s*\} else if needs_escape\(literal\) \{\s*"
        r"write!\(f, \"\\\"\{\}\\\"\", escape_text\(literal\)\)\s*\} else \{\s*write!\(f, \"\\\"\{\}\\\"\", literal\)", lit,
        "write_string_literal shape")

    tok = src("api/formats/swimos_recon/src/recon_parser/tokens.rs")
    ie = one(r"fn is_escape\(c: char\) -> bool \{(.*?)\}", tok, "is_escape", re.S)
    is_esc = [rust_char(x, "is_escape") for x in re.findall(r"c == " + CH, ie)]
    ub = one(r"EscapeState::Escape if is_escape\(c\) => \{\s*\*state = EscapeState::None;\s*Some\(match c \{(.*?)ow => ow,", tok,
             "unescape table", re.S)
    unesc = [(rust_char(a, "unescape"), rust_char(b, "unescape")) for a, b in re.findall(CH + r" => " + CH + ",", ub)]
    if sorted(a for a, _ in unesc) != sorted(is_esc):
        raise ExtractError("unescape: the match arms and is_escape disagree")
    one(r"EscapeState::Escape if c == 'u' => \{\s*\*state = EscapeState::UnicodeEscape0;", tok, "\\u start")
    one(r"EscapeState::UnicodeEscape0 if c == 'u' => None,", tok, "repeated u")
    one(r"\(\*d1 << 12\) \| \(\*d2 << 8\) \| \(\*d3 << 4\) \| c\.to_digit\(16\)\.unwrap\(\)", tok, "\\uXXXX value")
    seps = one(r"character::one_of\(\"([^\"]+)\"\)\(input\)\s*\}\s*macro_rules! token_mod", tok, "separator set", re.S)

    idt = src("api/swimos_model/src/identifier.rs")
    sb = one(r"pub fn is_identifier_start\(c: char\) -> bool \{(.*?)\n\}", idt, "is_identifier_start", re.S)
    ranges = []
    for p in [x.strip() for x in sb.split("||")]:
        if p == "c.is_ascii_uppercase()":
            ranges.append((65, 90))
        elif p == "c.is_ascii_lowercase()":
            ranges.append((97, 122))
        elif re.fullmatch(r"c == " + CH, p):
            v = rust_char(re.fullmatch(r"c == " + CH, p).group(1), "ident char")
            ranges.append((v, v))
        elif re.fullmatch(r"\(" + CH + r"\.\.=" + CH + r"\)\.contains\(&c\)", p):
            m = re.fullmatch(r"\(" + CH + r"\.\.=" + CH + r"\)\.contains\(&c\)", p)
            ranges.append((rust_char(m.group(1), "range"), rust_char(m.group(2), "range")))
        else:
            raise ExtractError(f"is_identifier_start: unexpected disjunct {p!r}")
    cb = one(r"pub fn is_identifier_char\(c: char\) -> bool \{(.*?)\n\}", idt, "is_identifier_char", re.S)
    extra = []
    for p in [x.strip() for x in cb.split("||")]:
        if p == "is_identifier_start(c)":
            continue
        elif p == "c.is_ascii_digit()":
            extra.append((48, 57))
        elif re.fullmatch(r"c == " + CH, p):
            v = rust_char(re.fullmatch(r"c == " + CH, p).group(1), "ident char")
            extra.append((v, v))
        else:
            raise ExtractError(f"is_identifier_char: unexpected disjunct {p!r}")
    ib = one(r"pub fn is_identifier\(name: &str\) -> bool \{(.*?)\n\}", idt, "is_identifier", re.S)
    words = re.findall(r'name == "(\w+)"', one(r"if (.*?) \{\s*false", ib, "reserved words", re.S))
    if not words:
        raise ExtractError("is_identifier: no reserved words")
    one(r"Some\(c\) if is_identifier_start\(c\) => name_chars\.all\(is_identifier_char\),\s*_ => false,", ib, "is_identifier shape")

    pr = src("api/formats/swimos_recon/src/printer/mod.rs")
    indent = one(r'const PRETTY_INDENT: &str = "( +)";', pr, "PRETTY_INDENT")
    nl = one(r'const NEW_LINE: &str = "(\\n)";', pr, "NEW_LINE")
    raw_names = len(re.findall(r'write!\(fmt, "@\{\}", name\.as_ref\(\)\)\?;', pr))
    quoted_names = len(re.findall(r'write_string_literal\(name\.as_ref\(\), fmt\)\?;', pr))
    if raw_names + quoted_names != 2 or (raw_names and quoted_names):
        raise ExtractError(f"printer: attribute name writing not recognised (raw={raw_names}, quoted={quoted_names})")

    rec = src("api/formats/swimos_recon/src/recon_parser/record/mod.rs")
    fin_ident = len(re.findall(r"fn attr_name_final\(input: Span<'_>\) -> IResult<Span<'_>, Cow<'_, str>> \{\s*"
                               r"map\(complete::identifier, Cow::Borrowed\)\(input\)\s*\}", rec))
    fin_both = len(re.findall(r"fn attr_name_final\(input: Span<'_>\) -> IResult<Span<'_>, Cow<'_, str>> \{\s*"
                              r"alt\(\(string_literal, map\(complete::identifier, Cow::Borrowed\)\)\)\(input\)\s*\}", rec))
    fin_both += len(re.findall(r"fn attr_name_final\(input: Span<'_>\) -> IResult<Span<'_>, Cow<'_, str>> \{\s*(?://[^\n]*\n\s*)*"
                               r"alt\(\(\s*complete_parser\(string_literal\),\s*map\(complete::identifier, Cow::Borrowed\),?\s*\)\)\(input\)\s*\}", rec))
    if fin_ident + fin_both != 1:
        raise ExtractError("record/mod.rs: attr_name_final not recognised")

    # the reset discipline of `RecognizerDecoder` (Decoder impl)
    asy = src("api/formats/swimos_recon/src/recon_parser/async_parser/mod.rs")
    dec_body = one(r"fn decode\(&mut self, src: &mut BytesMut\) -> Result<Option<Self::Item>, Self::Error> \{\s*"
                   r"let result = self\.decode_bytes\(src\);\s*if ([^{]*?) \{\s*self\.reset\(\);\s*\}\s*result\s*\}",
                   asy, "RecognizerDecoder::decode reset condition", re.S).strip()
    if dec_body == "!matches!(result, Ok(None))":
        decode_resets_on_error = True
    elif dec_body == "matches!(result, Ok(Some(_)))":
        decode_resets_on_error = False
    else:
        raise ExtractError(f"RecognizerDecoder::decode: reset condition not recognised: {dec_body!r}")
    eof = one(r"fn decode_eof\(&mut self, buf: &mut BytesMut\) -> Result<Option<Self::Item>, Self::Error> \{(.*?)\n    \}\n",
              asy, "RecognizerDecoder::decode_eof", re.S)
    if not re.search(r"\};\s*self\.reset\(\);\s*result\s*$", eof):
        raise ExtractError("RecognizerDecoder::decode_eof: final reset not recognised")
    if re.search(r"let content = read_utf8\(buf\.as_ref\(\)\)\?;", eof):
        eof_bad_utf8_resets = False      # early return before the reset (finding C09-N5)
    elif re.search(r"let content = match read_utf8\(buf\.as_ref\(\)\) \{\s*Ok\((\w+)\) => \1,\s*Err\((\w+)\) => \{\s*(?://[^\n]*\n\s*)*"
                   r"self\.reset\(\);\s*return Err\(\2(?:\.into\(\))?\);\s*\}\s*\};", eof):
        eof_bad_utf8_resets = True
    else:
        raise ExtractError("RecognizerDecoder::decode_eof: read_utf8 handling not recognised")

    def words_lean(ws):
        return "[" + ", ".join('"' + w + '".toList' for w in ws) + "]"

    return (HEADER + "namespace SwimVerif.Generated.Recon\n"
            f"def escapeTable : List (Nat × Nat) := {lean_pairs(esc)}\n"
            f"def escapeCtlBound : Nat := {ctl}\n"
            f"def needsEscapeBound : Nat := {ne_bound}\n"
            f"def needsEscapeChars : List Nat := {ne_chars}\n"
            f"def unescapeTable : List (Nat × Nat) := {lean_pairs(unesc)}\n"
            f"def isEscapeChars : List Nat := {is_esc}\n"
            f"def identStartRanges : List (Nat × Nat) := {lean_pairs(ranges)}\n"
            f"def identCharExtra : List (Nat × Nat) := {lean_pairs(extra)}\n"
            f"def reservedWords : List (List Char) := {words_lean(words)}\n"
            f"def separators : List Nat := {[ord(c) for c in seps]}\n"
            f"def prettyIndent : Nat := {len(indent)}\n"
            f"def newLine : Nat := {10 if nl == chr(92) + 'n' else -1}\n"
            f"/-- `true` while the printers write attribute names raw (`@{{}}`, finding F7); `false` once they quote them. -/\n"
            f"def attrNamesRaw : Bool := {'true' if raw_names else 'false'}\n"
            "/-- `attr_name_final` (attribute at the very end of a document) accepts a quoted name. -/\n"
            f"def finalAttrNameQuoted : Bool := {'true' if fin_both else 'false'}\n"
            "/-- `RecognizerDecoder::decode` resets parser and recogniser after an error as well as after a value. -/\n"
            f"def decodeResetsOnError : Bool := {'true' if decode_resets_on_error else 'false'}\n"
            "/-- `RecognizerDecoder::decode_eof` resets also when the buffer is not UTF-8 (`false`: it returns before the reset, finding C09-N5). -/\n"
            f"def eofBadUtf8Resets : Bool := {'true' if eof_bad_utf8_resets else 'false'}\n"
            "end SwimVerif.Generated.Recon\n")


EXTRACTORS = {"ReconTables": recon_tables}
