"""C11 tables: identifier character classes, the writer's escape table, the reader's unescape table,
the envelope header constants of the writer (ReconEncoder) and the tag/slot names of the reader (EnvelopeHeaderPeeler).
Every piece is matched exactly once and every `||` term / match arm must be of a recognised shape, otherwise the
extraction fails (nothing is defaulted)."""
import re
from extract import src, one, HEADER, ExtractError


def rust_char(lit):
    """Code point of the Rust char literal body `lit` (text between the single quotes)."""
    simple = {"\\\\": 92, "\\\"": 34, "\\'": 39, "\\r": 13, "\\n": 10, "\\t": 9, "\\0": 0}
    if lit in simple:
        return simple[lit]
    m = re.fullmatch(r"\\u\{([0-9a-fA-F]+)\}", lit)
    if m:
        return int(m.group(1), 16)
    if len(lit) == 1 and lit != "\\":
        return ord(lit)
    raise ExtractError(f"unrecognised char literal '{lit}'")


CH = r"'((?:\\u\{[0-9a-fA-F]+\}|\\.|[^'\\]))'"


def fn_body(text, sig, what):
    """Body (between the outermost braces) of the unique function whose signature starts with `sig`."""
    idxs = [m.start() for m in re.finditer(re.escape(sig), text)]
    if len(idxs) != 1:
        raise ExtractError(f"{what}: expected exactly one '{sig}', found {len(idxs)}")
    i = text.index("{", idxs[0])
    depth, j = 0, i
    while True:
        if text[j] == "{":
            depth += 1
        elif text[j] == "}":
            depth -= 1
            if depth == 0:
                return text[i + 1:j]
        j += 1
        if j >= len(text):
            raise ExtractError(f"{what}: unbalanced braces")


def class_terms(expr, what, allow_call=None):
    """Parse `t1 || t2 || ...` where every term is a recognised character test; returns ranges (and whether the
    allowed nested call occurred)."""
    ranges, called = [], False
    for term in [t.strip() for t in expr.split("||")]:
        m = re.fullmatch(r"c == " + CH, term)
        if m:
            n = rust_char(m.group(1)); ranges.append((n, n)); continue
        m = re.fullmatch(r"\(" + CH + r"\.\.=" + CH + r"\)\.contains\(&c\)", term)
        if m:
            ranges.append((rust_char(m.group(1)), rust_char(m.group(2)))); continue
        if term == "c.is_ascii_uppercase()":
            ranges.append((65, 90)); continue
        if term == "c.is_ascii_lowercase()":
            ranges.append((97, 122)); continue
        if term == "c.is_ascii_digit()":
            ranges.append((48, 57)); continue
        if allow_call and term == allow_call:
            called = True; continue
        raise ExtractError(f"{what}: unrecognised term `{term}`")
    return ranges, called


def lean_pairs(ps):
    return "[" + ", ".join(f"({a}, {b})" for a, b in ps) + "]"


def lean_chars(s):
    out = []
    for ch in s:
        if not (32 <= ord(ch) < 127) or ch in "'\\":
            out.append(f"Char.ofNat {ord(ch)}")
        else:
            out.append(f"'{ch}'")
    return "[" + ", ".join(out) + "]"


def bstr(text, name, what):
    """`const NAME: &[u8] = b"...";` or `const NAME: &str = "...";` (printable ASCII, no escapes)."""
    v = one(r"const " + name + r": &(?:\[u8\]|str) = b?\"([^\"\\]*)\";", text, what)
    if not all(32 <= ord(c) < 127 for c in v):
        raise ExtractError(f"{what}: non-printable constant")
    return v


def envelope_tables():
    ident = src("api/swimos_model/src/identifier.rs")
    lit = src("api/swimos_model/src/literal.rs")
    tok = src("api/formats/swimos_recon/src/recon_parser/tokens.rs")
    enc = src("runtime/swimos_remote/src/task/envelopes/mod.rs")
    warp = src("runtime/swimos_messages/src/warp/mod.rs")
    matcher = src("api/formats/swimos_recon/src/recon_parser/record/matcher/mod.rs")
    parser = src("api/formats/swimos_recon/src/recon_parser/mod.rs")

    # ---- identifiers
    start_ranges, _ = class_terms(fn_body(ident, "pub fn is_identifier_start(c: char) -> bool", "is_identifier_start"),
                                  "is_identifier_start")
    extra_ranges, called = class_terms(fn_body(ident, "pub fn is_identifier_char(c: char) -> bool", "is_identifier_char"),
                                       "is_identifier_char", allow_call="is_identifier_start(c)")
    if not called:
        raise ExtractError("is_identifier_char does not call is_identifier_start")
    body = fn_body(ident, "pub fn is_identifier(name: &str) -> bool", "is_identifier")
    kw = one(r"^\s*if ((?:name == \"[a-z]+\"(?: \|\| )?)+) \{\s*false\s*\} else \{", body, "is_identifier keywords", re.M)
    keywords = re.findall(r'name == "([a-z]+)"', kw)
    one(r"match name_chars\.next\(\) \{\s*Some\(c\) if is_identifier_start\(c\) => name_chars\.all\(is_identifier_char\),"
        r"\s*_ => false,\s*\}", body, "is_identifier shape")
    # the reader uses the same two predicates
    one(r"use swimos_model::identifier::\{is_identifier_char, is_identifier_start\};", tok, "tokens.rs identifier import")
    one(r"character::satisfy\(is_identifier_start\),\s*many0_count\(character::satisfy\(is_identifier_char\)\),", tok,
        "tokens.rs identifier lexer")

    # ---- writer escape table
    esc_body = fn_body(lit, "fn escape_text(text: &str) -> String", "escape_text")
    arms = re.findall(CH + r" => \{\s*output\.push\(" + CH + r"\);\s*output\.push\(" + CH + r"\);\s*\}", esc_body)
    esc_table = []
    for pat, p1, p2 in arms:
        if rust_char(p1) != 92:
            raise ExtractError("escape_text arm does not start with a backslash")
        esc_table.append((rust_char(pat), rust_char(p2)))
    n_arms = len(re.findall(r"=> \{", esc_body))
    if n_arms != len(arms) + 1:
        raise ExtractError(f"escape_text: {n_arms} block arms but {len(arms)} two-push arms + 1 unicode arm expected")
    below = rust_char(one(r"cp if cp < " + CH + r" => \{", esc_body, "escape_text unicode arm guard"))
    one(r"let n = cp as usize;\s*output\.push\('\\\\'\);\s*output\.push\('u'\);\s*"
        r"output\.push\(DIGITS\[\(n >> 12\) & 0xf\]\);\s*output\.push\(DIGITS\[\(n >> 8\) & 0xf\]\);\s*"
        r"output\.push\(DIGITS\[\(n >> 4\) & 0xf\]\);\s*output\.push\(DIGITS\[n & 0xf\]\);", esc_body,
        "escape_text unicode arm body")
    one(r"_ => output\.push\(c\),", esc_body, "escape_text default arm")
    digits = one(r"static DIGITS: \[char; 16\] = \[\s*((?:'[0-9a-f]',?\s*){16})\];", lit, "DIGITS")
    digits = [ord(c) for c in re.findall(r"'([0-9a-f])'", digits)]
    ne = fn_body(lit, "fn needs_escape(text: &str) -> bool", "needs_escape")
    ne_expr = one(r"text\.chars\(\)\.any\(\|c\| (.*)\)", ne.strip(), "needs_escape expression")
    ne_terms = [t.strip() for t in ne_expr.split("||")]
    ne_below, ne_extra = None, []
    for t in ne_terms:
        m = re.fullmatch(r"c < " + CH, t)
        if m:
            ne_below = rust_char(m.group(1)); continue
        m = re.fullmatch(r"c == " + CH, t)
        if m:
            ne_extra.append(rust_char(m.group(1))); continue
        raise ExtractError(f"needs_escape: unrecognised term `{t}`")
    if ne_below is None:
        raise ExtractError("needs_escape: no `c < ..` term")
    one(r"pub fn escape_if_needed\(text: &str\) -> Cow<str> \{\s*if needs_escape\(text\) \{\s*"
        r"Cow::Owned\(escape_text\(text\)\)\s*\} else \{\s*Cow::Borrowed\(text\)\s*\}\s*\}", lit, "escape_if_needed")

    # ---- reader unescape table
    un = fn_body(tok, "fn unescape(literal: &str) -> Result<Text, Text>", "unescape")
    blk = one(r"EscapeState::Escape if is_escape\(c\) => \{\s*\*state = EscapeState::None;\s*Some\(match c \{(.*?)ow => ow,",
              un, "unescape escape arm", re.S)
    un_table = [(rust_char(a), rust_char(b)) for a, b in re.findall(CH + r" => " + CH + r",", blk)]
    if len(un_table) != len(re.findall(r"=>", blk)):
        raise ExtractError("unescape: unrecognised arm in the escape table")
    ie = fn_body(tok, "fn is_escape(c: char) -> bool", "is_escape")
    ie_ranges, _ = class_terms(ie.strip(), "is_escape")
    if sorted(a for a, _ in ie_ranges) != sorted(a for a, _ in un_table):
        raise ExtractError("is_escape set differs from the unescape table's keys")
    one(r"EscapeState::Escape if c == 'u' => \{\s*\*state = EscapeState::UnicodeEscape0;", un, "unescape \\u arm")
    one(r"\(\*d1 << 12\) \| \(\*d2 << 8\) \| \(\*d3 << 4\) \| c\.to_digit\(16\)\.unwrap\(\),", un, "unescape code point")
    # what happens when the four digits are a UTF-16 surrogate: `char::try_from(..).unwrap()` panics; a `match` on the
    # result with an `Err(_)` arm that sets `Failed` rejects the literal
    u3 = one(r"EscapeState::UnicodeEscape3\(d1, d2, d3\) if c\.is_ascii_hexdigit\(\) => \{(.*?)\n                \}\n", un,
             "unescape fourth digit arm", re.S)
    if re.search(r"let uc: char = char::try_from\(.*?\)\s*\.unwrap\(\);\s*\*state = EscapeState::None;\s*Some\(uc\)\s*$", u3, re.S):
        surrogate_panics = True
    elif re.search(r"match char::try_from\(.*?\) \{\s*Ok\(uc\) => \{\s*\*state = EscapeState::None;\s*Some\(uc\)\s*\}\s*"
                   r"Err\(_\) => \{\s*\*state = EscapeState::Failed;\s*failed = true;\s*None\s*\}\s*\}\s*$", u3, re.S):
        surrogate_panics = False
    else:
        raise ExtractError("unescape: unrecognised handling of the decoded code point")

    # ---- writer constants
    kinds = ["link", "sync", "unlink", "command", "linked", "synced", "unlinked", "event"]
    names = {"link": "LINK_HEADER", "sync": "SYNC_HEADER", "unlink": "UNLINK_HEADER", "command": "CMD_HEADER",
             "linked": "LINKED_HEADER", "synced": "SYNCED_HEADER", "unlinked": "UNLINKED_HEADER", "event": "EVENT_HEADER"}
    w_headers = [(k, bstr(enc, names[k], names[k])) for k in kinds]
    node_tag = bstr(enc, "NODE_TAG", "NODE_TAG")
    lane_tag = bstr(enc, "LANE_TAG", "LANE_TAG")
    nnf = bstr(enc, "NODE_NOT_FOUND_TAG", "NODE_NOT_FOUND_TAG")
    one(r"if body_bytes\.starts_with\(b\"@\"\) \{\s*dst\.reserve\(body_bytes\.len\(\)\);\s*\} else \{\s*"
        r"dst\.reserve\(body_bytes\.len\(\) \+ 1\);\s*dst\.put_u8\(b' '\);\s*\}\s*dst\.put\(body_bytes\);", enc, "put_body")
    one(r"dst\.put_slice\(header\);\s*dst\.put_slice\(NODE_TAG\);\s*write_lit\(node_str\.as_ref\(\), node_ident, dst\);\s*"
        r"dst\.put_u8\(b','\);\s*dst\.put_slice\(LANE_TAG\);\s*write_lit\(lane_str\.as_ref\(\), lane_ident, dst\);\s*"
        r"dst\.put_u8\(b'\)'\);", enc, "write_header layout")

    # ---- reader constants
    rnames = {"auth": "AUTH_TAG", "deauth": "DEAUTH_TAG", "link": "LINK_TAG", "sync": "SYNC_TAG", "command": "COMMAND_TAG",
              "unlink": "UNLINK_TAG", "linked": "LINKED_TAG", "synced": "SYNCED_TAG", "event": "EVENT_TAG",
              "unlinked": "UNLINKED_TAG"}
    r_tags = [(k, bstr(warp, rnames[k], rnames[k])) for k in ["auth", "deauth"] + kinds]
    slots = {s: bstr(warp, s.upper() + ("_URI" if s in ("node", "lane") else "") + "_SLOT", s + " slot")
             for s in ["node", "lane", "rate", "prio"]}
    # the body is what follows the header after `space0` (spaces and tabs)
    one(r"pair\(peel_tag_attr\(peeler\.clone\(\)\), preceded\(space0, rest\)\),", matcher, "peel_message body rule")
    one(r"use nom::character::complete::\{char, multispace0, one_of, space0\};", matcher, "matcher uses complete parsers")
    # `parse_text_token` uses the *streaming* `string_literal`: running out of input is `Incomplete`, on which the
    # following `.finish()` panics; wrapped in `complete(..)` it is an ordinary error
    tt = one(r"delimited\(\s*space0,\s*alt\(\(\s*map\(tokens::complete::identifier, Cow::Borrowed\),\s*"
             r"(tokens::string_literal|complete\(tokens::string_literal\)),\s*\)\),\s*space0,\s*\),\s*eof,", parser,
             "parse_text_token shape")
    one(r"let \(_, text\) = text_parser\(input\)\.finish\(\)\?;", parser, "parse_text_token finish")
    text_token_panics = (tt == "tokens::string_literal")

    task = src("runtime/swimos_remote/src/task/mod.rs")
    ub = one(r"let unlinked_body = if body\.is_empty\(\) \{ (Some\(\*body\)|None) \} else \{ (Some\(\*body\)|None) \};", task,
             "interpret_envelope unlinked body")
    if ub == ("Some(*body)", "None"):
        unlinked_body_dropped = True     # keeps the body only when it is empty
    elif ub == ("None", "Some(*body)"):
        unlinked_body_dropped = False
    else:
        raise ExtractError("interpret_envelope: unrecognised unlinked body expression")

    def dc(name, s):
        return f"def {name} : List Char := {lean_chars(s)}\n"

    out = HEADER + "namespace SwimVerif.Generated.Env\n"
    out += f"/-- `is_identifier_start` as inclusive code point ranges -/\ndef identStartRanges : List (Nat × Nat) := {lean_pairs(start_ranges)}\n"
    out += f"/-- additional ranges of `is_identifier_char` -/\ndef identExtraRanges : List (Nat × Nat) := {lean_pairs(extra_ranges)}\n"
    out += "/-- strings `is_identifier` rejects although they lex as identifiers -/\n"
    out += "def identKeywords : List (List Char) := [" + ", ".join(lean_chars(k) for k in keywords) + "]\n"
    out += f"/-- `escape_text`: (character, letter written after the backslash), in match order -/\ndef escTable : List (Nat × Nat) := {lean_pairs(esc_table)}\n"
    out += f"/-- `escape_text`: characters below this are written as `\\uXXXX` -/\ndef escapeBelow : Nat := {below}\n"
    out += f"def hexDigits : List Nat := [{', '.join(map(str, digits))}]\n"
    out += f"/-- `needs_escape`: `c < needsEscapeBelow || c ∈ needsEscapeExtra` -/\ndef needsEscapeBelow : Nat := {ne_below}\n"
    out += f"def needsEscapeExtra : List Nat := [{', '.join(map(str, ne_extra))}]\n"
    out += f"/-- `unescape`: (letter after the backslash, character produced) -/\ndef unescTable : List (Nat × Nat) := {lean_pairs(un_table)}\n"
    out += ("/-- `unescape`: a `\\uXXXX` escape naming a UTF-16 surrogate panics (`char::try_from(..).unwrap()`) rather than "
            "being rejected -/\n"
            f"def unescSurrogatePanics : Bool := {'true' if surrogate_panics else 'false'}\n")
    out += ("/-- `parse_text_token`: an `Incomplete` from the streaming string-literal parser reaches `finish()`, which panics -/\n"
            f"def textTokenIncompletePanics : Bool := {'true' if text_token_panics else 'false'}\n")
    out += ("/-- `interpret_envelope`: the body of an incoming `unlinked` envelope is kept only when it is empty -/\n"
            f"def unlinkedBodyDropped : Bool := {'true' if unlinked_body_dropped else 'false'}\n")
    for k, v in w_headers:
        out += dc("wHeader_" + k, v)
    out += dc("wNodeTag", node_tag) + dc("wLaneTag", lane_tag) + dc("nodeNotFoundTag", nnf)
    for k, v in r_tags:
        out += dc("rTag_" + k, v)
    for s, v in slots.items():
        out += dc("rSlot_" + s, v)
    out += "end SwimVerif.Generated.Env\n"
    return out


def multi_reader_consts():
    t = src("swimos_utilities/swimos_multi_reader/src/reader/mod.rs")
    one(r"const BUCKET_SIZE: usize = usize::BITS as usize;", t, "BUCKET_SIZE")
    # the shape the model relies on: the lowest set bit is taken, a delivered stream is re-queued
    one(r"let index = self\.0\.trailing_zeros\(\) as usize;\s*self\.unset_flag\(index\);", t, "LocalFlags::get_next")
    one(r"self\.queue_flags\.set_flag\(index\);\s*return Poll::Ready\(Some\(item\)\);", t, "re-queue after an item")
    return (HEADER + "namespace SwimVerif.Generated\n"
            "/-- `BUCKET_SIZE = usize::BITS` on the 64-bit targets the harness runs on -/\n"
            "def multiReaderBucketSize : Nat := 64\n"
            "end SwimVerif.Generated\n")


EXTRACTORS = {"EnvelopeTables": envelope_tables, "MultiReaderConsts": multi_reader_consts}
