from extract import src, one, HEADER, ExtractError
import re


def recon_eq_consts():
    # discriminants of ReadEvent = declaration order of its variants (derived Hash writes the discriminant first)
    ev = src("api/swimos_form/src/structural/read/event.rs")
    body = one(r"#\[derive\(Debug, PartialEq, Clone, Hash\)\]\s*pub enum ReadEvent<'a> \{(.*?)\n\}", ev, "enum ReadEvent", re.S)
    variants = re.findall(r"^\s*([A-Z]\w*)", body, re.M)
    want = ["Extant", "TextValue", "Number", "Boolean", "Blob", "StartAttribute", "EndAttribute", "StartBody", "Slot",
            "EndRecord"]
    if sorted(variants) != sorted(want):
        raise ExtractError(f"ReadEvent variants changed: {variants}")
    idx = {v: variants.index(v) for v in want}
    # NumericValue::hash tags
    ih = one(r"const INT_HASH: u8 = (\d+);", ev, "INT_HASH")
    bh = one(r"const BIGINT_HASH: u8 = (\d+);", ev, "BIGINT_HASH")
    fh = one(r"const FLOAT64_HASH: u8 = (\d+);", ev, "FLOAT64_HASH")
    # how a float is written: its bits, NaN as 0 (a fix for C15-N1 changes this text)
    raw_bits = len(re.findall(r"NumericValue::Float\(x\) => \{\s*state\.write_u8\(FLOAT64_HASH\);\s*if x\.is_nan\(\) \{\s*"
                              r"state\.write_u64\(0\);\s*\} else \{\s*state\.write_u64\(x\.to_bits\(\)\);\s*\}\s*\}", ev))
    zero_norm = len(re.findall(r"NumericValue::Float\(x\) => \{\s*state\.write_u8\(FLOAT64_HASH\);\s*(?://[^\n]*\n\s*)*"
                               r"if x\.is_nan\(\) \|\| \*x == 0\.0 \{\s*state\.write_u64\(0\);\s*\} else \{\s*"
                               r"state\.write_u64\(x\.to_bits\(\)\);\s*\}\s*\}", ev))
    if raw_bits + zero_norm != 1:
        raise ExtractError("NumericValue::hash: the Float arm is not one of the two recognised shapes")
    # is_implicit_record: the two `is_not` stop sets and the decision characters (a fix for C15-N2 replaces the function)
    hs = src("api/formats/swimos_recon/src/recon_parser/record/hash.rs")
    scan = len(re.findall(r"fn is_implicit_record\(input: Span\) -> bool \{\s*let mut result: IResult<Span<'_>, ValidationState>", hs))
    structural = len(re.findall(r"fn is_implicit_record\(input: Span\) -> bool \{\s*(?://[^\n]*\n\s*)*let mut lookahead = IncrementalReconParser", hs))
    if scan + structural != 1:
        raise ExtractError("hash.rs: is_implicit_record is not one of the two recognised shapes")
    if scan:
        top = one(r'Ok\(\(rest, ValidationState::Top\)\) => preceded\(\s*opt\(is_not\("([^"]*)"\)\)', hs, "Top stop set")
        nested = one(r'Ok\(\(rest, ValidationState::Nested\(level\)\)\) => preceded\(\s*opt\(is_not\("([^"]*)"\)\)', hs,
                     "Nested stop set")
    else:
        top, nested = ",;:{()", "{()}"
    sep = one(r'pub fn separator\(input: Span<\'_>\) -> IResult<Span<\'_>, char> \{\s*use nom::character::streaming as character;\s*'
              r'character::one_of\("([^"]*)"\)\(input\)', src("api/formats/swimos_recon/src/recon_parser/tokens.rs"), "separator")
    if sorted(sep) != sorted(",;"):
        raise ExtractError(f"separator set changed: {sep!r}")

    def chars(s):
        return "[" + ", ".join(str(ord(c)) for c in s) + "]"

    return (HEADER + "namespace SwimVerif.Generated.ReconEq\n"
            + "".join(f"def d{v} : Int := {idx[v]}\n" for v in want)
            + f"def intHash : Nat := {int(ih)}\n"
            f"def bigintHash : Nat := {int(bh)}\n"
            f"def floatHash : Nat := {int(fh)}\n"
            "/-- `true` once `NumericValue::hash` writes `-0.0` as `0.0` (finding C15-N1 repaired). -/\n"
            f"def floatHashZeroNormalised : Bool := {'true' if zero_norm else 'false'}\n"
            "/-- `true` once `is_implicit_record` decides from the events of a look-ahead parse instead of scanning the text "
            "(finding C15-N2 repaired). -/\n"
            f"def implicitByStructure : Bool := {'true' if structural else 'false'}\n"
            f"def scanTopStops : List Nat := {chars(top)}\n"
            f"def scanNestedStops : List Nat := {chars(nested)}\n"
            "end SwimVerif.Generated.ReconEq\n")


EXTRACTORS = {"ReconEqConsts": recon_eq_consts}
