from extract import src, one, HEADER, ExtractError


def _bytes(lit):
    # a Rust byte-string literal without escapes
    if "\\" in lit:
        raise ExtractError(f"byte string literal with escapes not supported: {lit!r}")
    return "[" + ", ".join(str(b) for b in lit.encode("ascii")) + "]"


def downlink_consts():
    p = src("runtime/swimos_messages/src/protocol/mod.rs")
    hdr = one(r"const HEADER_INIT_LEN: usize = (\d+);", p, "HEADER_INIT_LEN")
    # request frames are: u128 origin, u32 node length, u32 lane length, u64 tag|body length, node, lane, body
    one(r"impl<'a, P, B> Encoder<&'a RequestMessage<P, B>> for RawRequestMessageEncoder", p, "request encoder")
    r = src("runtime/swimos_runtime/src/backpressure/recon/mod.rs")
    clear = one(r'const CLEAR: &\[u8\] = b"([^"]*)";', r, "CLEAR")
    update = one(r'const UPDATE: &\[u8\] = b"([^"]*)";', r, "UPDATE")
    remove = one(r'const REMOVE: &\[u8\] = b"([^"]*)";', r, "REMOVE")
    off = one(r"const KEY_OFFSET: usize = (\d+);", r, "KEY_OFFSET")
    d = src("runtime/swimos_runtime/src/downlink/interpretation/mod.rs")
    # SINGLE_FRAME_STATE: default true (value), false for the map interpretation
    one(r"const SINGLE_FRAME_STATE: bool = true;", d, "default SINGLE_FRAME_STATE")
    one(r"impl DownlinkInterpretation for MapInterpretation \{\s*type Error = MessageExtractError;\s*"
        r"const SINGLE_FRAME_STATE: bool = false;", d, "MapInterpretation::SINGLE_FRAME_STATE")
    return (HEADER + "namespace SwimVerif.Generated\n"
            f"def dlHeaderInitLen : Nat := {int(hdr)}\n"
            f"def dlReconClear : List Nat := {_bytes(clear)}\n"
            f"def dlReconUpdate : List Nat := {_bytes(update)}\n"
            f"def dlReconRemove : List Nat := {_bytes(remove)}\n"
            f"def dlKeyOffset : Nat := {int(off)}\n"
            "def dlValueSingleFrame : Bool := true\n"
            "def dlMapSingleFrame : Bool := false\n"
            "end SwimVerif.Generated\n")


EXTRACTORS = {"DownlinkConsts": downlink_consts}
