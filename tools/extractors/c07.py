import re
from extract import src, one, HEADER, ExtractError


def _bytes(lit):
    # a Rust byte-string literal without escapes
    if "\\" in lit:
        raise ExtractError(f"byte string literal with escapes not supported: {lit!r}")
    return "[" + ", ".join(str(b) for b in lit.encode("ascii")) + "]"


def downlink_consts():
    p = src("runtime/swimos_messages/src/protocol/mod.rs")
    hdr = one(r"const HEADER_INIT_LEN: usize = (\d+);", p, "HEADER_INIT_LEN")
    # request frames are: u128 origin, u32 node length, u32 lane length, u64 tag|body length, node, lane, body
    one(r"impl<'a, P, B> Encoder<&'a RequestMessage<P, B>> for RawRequestMessageEncoder", p, "request encoder")
    r = src("runtime/swimos_runtime/src/backpressure/recon/mod.rs")
    clear = one(r'const CLEAR: &\[u8\] = b"([^"]*)";', r, "CLEAR")
    update = one(r'const UPDATE: &\[u8\] = b"([^"]*)";', r, "UPDATE")
    remove = one(r'const REMOVE: &\[u8\] = b"([^"]*)";', r, "REMOVE")
    off = one(r"const KEY_OFFSET: usize = (\d+);", r, "KEY_OFFSET")
    d = src("runtime/swimos_runtime/src/downlink/interpretation/mod.rs")
    # SINGLE_FRAME_STATE of every interpretation: the trait default, overridden (or not) in each impl block
    default = one(r"pub trait DownlinkInterpretation \{.*?const SINGLE_FRAME_STATE: bool = (true|false);", d,
                  "trait default of SINGLE_FRAME_STATE", re.S)

    def single_of(header_regex, what):
        m = list(re.finditer(header_regex, d))
        if len(m) != 1:
            raise ExtractError(f"{what}: expected exactly one impl block, found {len(m)}")
        i = d.index("{", m[0].end() - 1)
        depth, j = 0, i
        while True:
            if d[j] == "{":
                depth += 1
            elif d[j] == "}":
                depth -= 1
                if depth == 0:
                    break
            j += 1
            if j >= len(d):
                raise ExtractError(f"{what}: unbalanced braces")
        body = d[i:j + 1]
        cs = re.findall(r"const SINGLE_FRAME_STATE: bool = (true|false);", body)
        if len(cs) > 1:
            raise ExtractError(f"{what}: several SINGLE_FRAME_STATE constants")
        return cs[0] if cs else default          # a missing constant means the trait default

    value = single_of(r"impl<F, E> DownlinkInterpretation for FnMutInterpretation<F>\s*where[^{]*\{", "FnMutInterpretation")
    mapi = single_of(r"impl DownlinkInterpretation for MapInterpretation \{", "MapInterpretation")
    raw = single_of(r"impl DownlinkInterpretation for NoInterpretation \{", "NoInterpretation")
    # which interpretation each public runtime is built with
    one(r"pub fn value_interpretation\(\) -> impl DownlinkInterpretation<Error = Infallible> \{\s*"
        r"FnMutInterpretation\(trivial_interpretation\)", d, "value_interpretation = FnMutInterpretation")
    rt = src("runtime/swimos_runtime/src/downlink/mod.rs")
    one(r"value_interpretation\(\),\s*InfallibleStrategy,", rt, "ValueDownlinkRuntime uses value_interpretation()")
    one(r"interpretation: MapInterpretation::default\(\),", rt, "MapDownlinkRuntime::new uses MapInterpretation")
    one(r"pub use interpretation::NoInterpretation;", rt, "NoInterpretation is public")
    return (HEADER + "namespace SwimVerif.Generated\n"
            f"def dlHeaderInitLen : Nat := {int(hdr)}\n"
            f"def dlReconClear : List Nat := {_bytes(clear)}\n"
            f"def dlReconUpdate : List Nat := {_bytes(update)}\n"
            f"def dlReconRemove : List Nat := {_bytes(remove)}\n"
            f"def dlKeyOffset : Nat := {int(off)}\n"
            f"def dlDefaultSingleFrame : Bool := {default}\n"
            f"def dlValueSingleFrame : Bool := {value}\n"
            f"def dlMapSingleFrame : Bool := {mapi}\n"
            f"def dlRawSingleFrame : Bool := {raw}\n"
            "end SwimVerif.Generated\n")


EXTRACTORS = {"DownlinkConsts": downlink_consts}
