from extract import src, one, HEADER, ExtractError

def timeout_consts():
    t = src("runtime/swimos_runtime/src/timeout_coord/mod.rs")
    lim = one(r"const TWO_VOTERS_LIM: u8 = (\d+);", t, "TWO_VOTERS_LIM")
    ini = one(r"const INIT: u8 = (\d+);", t, "INIT")
    # the shape of the masks: all() = (1 << N) - 1 for N in 2..7 and u8::MAX for 8; flag = 1 << i; inverse = all ^ flag
    for n in range(2, 8):
        one(r"impl NumParties for \[Voter; %d\] \{\s*fn all\(\) -> u8 \{\s*\(1 << %d\) - 1\s*\}" % (n, n), t,
            f"NumParties::all for {n}")
    one(r"impl NumParties for \[Voter; 8\] \{\s*fn all\(\) -> u8 \{\s*u8::MAX\s*\}", t, "NumParties::all for 8")
    one(r"let flag: u8 = 1 << i;", t, "flag = 1 << i")
    one(r"let inverse: u8 = all \^ flag;", t, "inverse = all ^ flag")
    return (HEADER + "namespace SwimVerif.Generated\n"
            f"def twoVotersLim : Nat := {int(lim)}\n"
            f"def coordInit : Nat := {int(ini)}\n"
            "end SwimVerif.Generated\n")

EXTRACTORS = {"TimeoutConsts": timeout_consts}


# ---------------------------------------------------------------- translator: the bodies of vote / rescind / drop / poll
# (same scheme as tools/extractors/c12.py: structure from the source, vocabulary by exact text, anything else fails)
import re
from rustmini import strip_comments, norm, balanced, impl_block, fn_body, parse_block, seq

T_CONDS = {
    "before == *inverse": ".beforeIsInverse",
    "voted.get()": ".votedGet",
    "!self.voted.get()": ".notVoted",
    "*inverse < TWO_VOTERS_LIM": ".twoParty",
    "flags .compare_exchange(*flag, INIT, Ordering::Relaxed, Ordering::Relaxed) .is_err()": ".casFlagInitFails",
    "flags.compare_exchange(*flag, INIT, Ordering::Relaxed, Ordering::Relaxed).is_err()": ".casFlagInitFails",
    "current == inverse | flag": ".currentIsAll",
    "flags .compare_exchange( current, current & !flag, Ordering::Relaxed, Ordering::Relaxed, ) .is_ok()": ".casClearOk",
    "flags.compare_exchange(current, current & !flag, Ordering::Relaxed, Ordering::Relaxed).is_ok()": ".casClearOk",
    "flags.load(Ordering::Relaxed) == *unanimity": ".loadRelaxedIsAll",
    "flags.load(Ordering::Acquire) == *unanimity": ".loadAcquireIsAll",
}
T_RETS = {
    "VoteResult::Unanimous": ".unanimous",
    "VoteResult::UnanimityPending": ".pending",
    "Poll::Ready(())": ".ready",
    "Poll::Pending": ".notReady",
}
T_ATOMS = {
    "let before = flags.fetch_or(*flag, Ordering::Release)": ".fetchOr",
    "voted.set(true)": ".setVoted true",
    "voted.set(false)": ".setVoted false",
    "waker.wake()": ".wake",
    "let current = flags.load(Ordering::Relaxed)": ".loadCurrent",
    "waker.register(cx.waker())": ".register",
}
T_SKIP = (
    "let Voter { flag, inverse, voted, inner, } = self",
    "let Voter { flag, inverse, voted, inner, .. } = self",
    "let Inner { flags, waker, .. } = &**inner",
    "let Inner { flags, .. } = &**inner",
    "let Inner { flags, waker, unanimity, } = &*self.get_mut().inner",
)


def emit_t(nodes, bodies, fn):
    items = []
    for nd in nodes:
        if nd[0] == "loop":
            items.append(f"(.loop {emit_t(nd[1], bodies, fn)})")
            continue
        if nd[0] == "if":
            _, cond, then_l, else_l, _ = nd
            if cond not in T_CONDS:
                raise ExtractError(f"{fn}: unknown condition {cond!r}")
            items.append(f"(.ite {T_CONDS[cond]} {emit_t(then_l, bodies, fn)} {emit_t(else_l, bodies, fn)})")
            continue
        _, text, is_tail = nd
        if text in T_SKIP:
            continue
        if text.startswith("break "):
            r = text[len("break "):]
            if r not in T_RETS:
                raise ExtractError(f"{fn}: unknown break value {r!r}")
            items.append(f"(.ret {T_RETS[r]})")
        elif text in T_RETS:
            if not is_tail:
                raise ExtractError(f"{fn}: {text!r} is not in tail position")
            items.append(f"(.ret {T_RETS[text]})")
        elif text in T_ATOMS:
            items.append("(" + T_ATOMS[text] + ")" if " " in T_ATOMS[text] else T_ATOMS[text])
        elif text == "self.vote()":
            items.append(f"(.call {bodies['vote']})")
        else:
            raise ExtractError(f"{fn}: unknown statement {text!r}")
    return seq(items)


def timeout_src():
    t = strip_comments(src("runtime/swimos_runtime/src/timeout_coord/mod.rs"))
    bodies = {}
    vb = impl_block(t, r"\bimpl Voter \{", "impl Voter")
    bodies["vote"] = emit_t(parse_block(fn_body(vb, "vote", r"fn vote\(&self\) -> VoteResult", "Voter"), True), bodies, "vote")
    bodies["rescind"] = emit_t(parse_block(fn_body(vb, "rescind", r"fn rescind\(&self\) -> VoteResult", "Voter"), True),
                               bodies, "rescind")
    db = impl_block(t, r"\bimpl Drop for Voter \{", "Drop for Voter")
    bodies["drop"] = emit_t(parse_block(fn_body(db, "drop", r"fn drop\(&mut self\)", "Drop for Voter"), False), bodies, "drop")
    rb = impl_block(t, r"\bimpl Future for Receiver \{", "Future for Receiver")
    bodies["poll"] = emit_t(parse_block(fn_body(
        rb, "poll", r"fn poll\(self: Pin<&mut Self>, cx: &mut Context<'_>\) -> Poll<Self::Output>", "Receiver"), True),
        bodies, "poll")
    # nothing else may touch the shared word or the waker
    if len(re.findall(r"\bflags\b", t)) != 11 or len(re.findall(r"\bwaker\b", t)) != 7:
        raise ExtractError("flags / waker are used somewhere else than in vote, rescind, poll and the constructor: "
                           f"{len(re.findall(r'flags', t))} / {len(re.findall(r'waker', t))}")
    out = [HEADER, "import SwimVerif.Model.CoordProg", "namespace SwimVerif.Generated.TimeoutSrc",
           "open SwimVerif.CoordProg", ""]
    for k in ("vote", "rescind", "drop", "poll"):
        out.append(f"/-- `{k}` of `timeout_coord/mod.rs` -/\ndef {k} : CStmt :=\n  {bodies[k]}")
    out.append("end SwimVerif.Generated.TimeoutSrc\n")
    return "\n".join(out)


EXTRACTORS["TimeoutSrc"] = timeout_src
