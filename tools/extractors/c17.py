from extract import src, one, HEADER, ExtractError

def timeout_consts():
    t = src("runtime/swimos_runtime/src/timeout_coord/mod.rs")
    lim = one(r"const TWO_VOTERS_LIM: u8 = (\d+);", t, "TWO_VOTERS_LIM")
    ini = one(r"const INIT: u8 = (\d+);", t, "INIT")
    # the shape of the masks: all() = (1 << N) - 1 for N in 2..7 and u8::MAX for 8; flag = 1 << i; inverse = all ^ flag
    for n in range(2, 8):
        one(r"impl NumParties for \[Voter; %d\] \{\s*fn all\(\) -> u8 \{\s*\(1 << %d\) - 1\s*\}" % (n, n), t,
            f"NumParties::all for {n}")
    one(r"impl NumParties for \[Voter; 8\] \{\s*fn all\(\) -> u8 \{\s*u8::MAX\s*\}", t, "NumParties::all for 8")
    one(r"let flag: u8 = 1 << i;", t, "flag = 1 << i")
    one(r"let inverse: u8 = all \^ flag;", t, "inverse = all ^ flag")
    return (HEADER + "namespace SwimVerif.Generated\n"
            f"def twoVotersLim : Nat := {int(lim)}\n"
            f"def coordInit : Nat := {int(ini)}\n"
            "end SwimVerif.Generated\n")

EXTRACTORS = {"TimeoutConsts": timeout_consts}
