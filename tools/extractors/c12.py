"""C12 translator.

1. `CoopConsts`: the default task budget.
2. `ConduitSrc`: the bodies of `channel/mod.rs` (Conduit::{close_channel, wake, read, write, poll_read, poll_write,
   poll_flush, poll_shutdown}, the coop wrappers of ByteReader / ByteWriter and both Drop impls) are parsed into their
   statement structure (sequence, if / else-if / else chains, if-let, early return, tail expressions) and emitted as
   terms of the small statement language of `Model/ConduitProg.lean`.  The STRUCTURE (order of tests, nesting, which
   branch does what, where a function returns, where the lock is taken, which helper is called where) comes from the
   source; each primitive statement / condition is recognised by its exact (white-space normalised) text through the
   tables below and anything not in the tables is an ExtractError (= broken correspondence), never a default.
   `Proofs/ConduitProg.lean` proves that executing the generated programs IS the hand-written model `Model/Conduit.lean`
   the C12 theorems are about (for every state and argument), so a change of the source that changes the decision
   structure breaks a proof obligation.
"""
import re
from extract import src, one, HEADER, ExtractError

CHANNEL = "swimos_utilities/swimos_byte_channel/src/channel/mod.rs"


def coop_consts():
    t = src("swimos_utilities/swimos_byte_channel/src/coop/mod.rs")
    n = one(r"const DEFAULT_START_BUDGET: NonZeroUsize = unsafe \{ NonZeroUsize::new_unchecked\((\d+)\) \};", t,
            "DEFAULT_START_BUDGET")
    return (HEADER + "namespace SwimVerif.Generated\n"
            f"def defaultStartBudget : Nat := {int(n)}\n"
            "end SwimVerif.Generated\n")


from rustmini import strip_comments, norm, balanced, impl_block, fn_body, parse_block, seq


# ---------------------------------------------------------------- tables: exact texts -> the statement language

CONDS = {
    "self.data.has_remaining()": ".hasData",
    "count > 0": ".countPos",
    "self.closed": ".closed",
    "buf.is_empty()": ".bufEmpty",
    "available == 0": ".availZero",
    "let Some(waker) = self.waker.take()": ".takeWaker",
}

RETS = {
    "Poll::Ready(Ok(()))": ".okUnit",
    "Poll::Pending": ".pending",
    "Poll::Ready(Err(ErrorKind::BrokenPipe.into()))": ".err",
    "Poll::Ready(Ok(0))": ".okZero",
    "Poll::Ready(Ok(len))": ".okLen",
}

ATOMS = {
    "let count = self.data.remaining().min(buf.remaining())": ".letCount",
    "self.waker = Some(cx.waker().clone())": ".setWaker",
    "let available = self.capacity - self.data.len()": ".letAvail",
    "self.closed = true": ".setClosed",
    "waker.wake()": ".fireWaker",
    "buf.put_slice(&self.data[..count])": ".putSlice",
    "self.data.advance(count)": ".advance",
    "let len = buf.len().min(avail)": ".letLen",
    "self.data.extend_from_slice(&buf[..len])": ".extend",
    "ready!(super::coop::consume_budget(cx))": ".budgetGate",
    "let inner = &mut *(self.inner.lock())": ".lock",
    "let guard = &mut *(self.inner.lock())": ".lock",
}

# calls that are inlined: text -> name of the callee's translated body
CALLS = {
    "self.read(buf, count)": "read",
    "let len = self.write(buf, available)": "write",
    "self.close_channel()": "close_channel",
    "inner.close_channel()": "close_channel",
    "guard.close_channel()": "close_channel",
    "self.wake()": "wake",
    "Pin::new(inner).poll_flush(cx)": "poll_flush",
    "Pin::new(inner).poll_shutdown(cx)": "poll_shutdown",
}
TRACKED = {
    "super::coop::track_progress(Pin::new(inner).poll_read(cx, buf))": "poll_read",
    "super::coop::track_progress(Pin::new(inner).poll_write(cx, buf))": "poll_write",
}


def emit(nodes, bodies, fn):
    items = []
    for nd in nodes:
        if nd[0] == "if":
            _, cond, then_l, else_l, _tail = nd
            if cond not in CONDS:
                raise ExtractError(f"{fn}: unknown condition {cond!r}")
            items.append(f"(.ite {CONDS[cond]} {emit(then_l, bodies, fn)} {emit(else_l, bodies, fn)})")
            continue
        _, text, is_tail = nd
        if text.startswith("debug_assert!("):
            continue
        if text.startswith("return "):
            r = text[len("return "):]
            if r not in RETS:
                raise ExtractError(f"{fn}: unknown return value {r!r}")
            items.append(f"(.ret {RETS[r]})")
        elif text in RETS:
            if not is_tail:
                raise ExtractError(f"{fn}: {text!r} is not in tail position")
            items.append(f"(.ret {RETS[text]})")
        elif text in ATOMS:
            items.append(ATOMS[text])
        elif text in CALLS:
            callee = CALLS[text]
            if callee not in bodies:
                raise ExtractError(f"{fn}: call of {callee} before its translation")
            # a call in tail position of a poll function returns the callee's value: the callee's `ret` stands;
            # a call in statement position of a unit function: the callee has no `ret`
            items.append(bodies[callee])
        elif text in TRACKED:
            if not is_tail:
                raise ExtractError(f"{fn}: track_progress is not in tail position")
            items.append(f"(.track {bodies[TRACKED[text]]})")
        elif text == "len" and fn == "write" and is_tail:
            continue                       # `write` returns the local `len` (bound by letLen); callers read it
        else:
            raise ExtractError(f"{fn}: unknown statement {text!r}")
    return seq(items)


POLL_SIG_R = (r"fn poll_read\( (mut )?self: Pin<&mut Self>, cx: &mut Context<'_>, buf: &mut ReadBuf<'_>, \) "
              r"-> Poll<IoResult<\(\)>>")
POLL_SIG_W = (r"fn poll_write\( (mut )?self: Pin<&mut Self>, cx: &mut Context<'_>, buf: &\[u8\], \) "
              r"-> Poll<(IoResult<usize>|Result<usize, Error>)>")
POLL_SIG_F = r"fn poll_flush\((mut )?self: Pin<&mut Self>, (_|cx): &mut Context<'_>\) -> Poll<(IoResult<\(\)>|Result<\(\), Error>)>"
POLL_SIG_S = r"fn poll_shutdown\((mut )?self: Pin<&mut Self>, (_|cx): &mut Context<'_>\) -> Poll<(IoResult<\(\)>|Result<\(\), Error>)>"


def conduit_src():
    t = strip_comments(src(CHANNEL))
    t = re.sub(r"#\[inline\]", "", t)
    bodies = {}

    def tr(block, name, sig, what, tail):
        body = fn_body(block, name, sig, what)
        bodies[name] = emit(parse_block(body, tail), bodies, name)
        return bodies[name]

    inh = impl_block(t, r"\bimpl Conduit \{", "impl Conduit")
    tr(inh, "wake", r"fn wake\(&mut self\)", "Conduit", False)
    tr(inh, "close_channel", r"fn close_channel\(&mut self\)", "Conduit", False)
    tr(inh, "read", r"fn read\(&mut self, buf: &mut ReadBuf<'_>, count: usize\)", "Conduit", False)
    tr(inh, "write", r"fn write\(&mut self, buf: &\[u8\], avail: usize\) -> usize", "Conduit", True)
    rd = impl_block(t, r"\bimpl AsyncRead for Conduit \{", "AsyncRead for Conduit")
    tr(rd, "poll_read", POLL_SIG_R, "Conduit", True)
    wr = impl_block(t, r"\bimpl AsyncWrite for Conduit \{", "AsyncWrite for Conduit")
    tr(wr, "poll_write", POLL_SIG_W, "Conduit", True)
    tr(wr, "poll_flush", POLL_SIG_F, "Conduit", True)
    tr(wr, "poll_shutdown", POLL_SIG_S, "Conduit", True)
    conduit = dict(bodies)

    # the halves: the `coop` variants (feature on by default; the harness and the servers build with it)
    def coop_impl(trait, ty):
        ms = list(re.finditer(r'#\[cfg\(feature = "coop"\)\]\s*impl ' + trait + r" for " + ty + r" \{", t))
        if len(ms) != 1:
            raise ExtractError(f"coop impl {trait} for {ty}: found {len(ms)}")
        i = t.index("{", ms[0].end() - 1)
        return t[i + 1:balanced(t, i) - 1]

    out = {}

    def half(block, name, sig, key):
        body = fn_body(block, name, sig, key)
        out[key] = emit(parse_block(body, True), conduit, key)

    rb = coop_impl("AsyncRead", "ByteReader")
    half(rb, "poll_read", POLL_SIG_R, "reader_poll_read")
    wb = coop_impl("AsyncWrite", "ByteWriter")
    half(wb, "poll_write", POLL_SIG_W, "writer_poll_write")
    half(wb, "poll_flush", POLL_SIG_F, "writer_poll_flush")
    half(wb, "poll_shutdown", POLL_SIG_S, "writer_poll_shutdown")
    for ty, key in (("ByteReader", "reader_drop"), ("ByteWriter", "writer_drop")):
        blk = impl_block(t, r"\bimpl Drop for " + ty + r" \{", "Drop for " + ty)
        body = fn_body(blk, "drop", r"fn drop\(&mut self\)", key)
        out[key] = emit(parse_block(body, False), conduit, key)

    # no other code may touch the shared state: the only `.lock()` sites are the seven translated above plus is_closed
    locks = len(re.findall(r"\.lock\(\)", t))
    n_noncoop = len(re.findall(r'#\[cfg\(not\(feature = "coop"\)\)\]', t))
    expected = 6 + 1 + 4          # coop halves (4) + drops (2) + is_closed + the four non-coop twins
    if locks != expected or n_noncoop != 2:
        raise ExtractError(f"lock sites: expected {expected} `.lock()` and 2 non-coop impls, found {locks} / {n_noncoop}")
    one(r"pub fn is_closed\(&self\) -> bool \{\s*self\.inner\.lock\(\)\.closed\s*\}", t, "ByteWriter::is_closed")

    lines = [HEADER, "import SwimVerif.Model.ConduitProg", "namespace SwimVerif.Generated.ConduitSrc",
             "open SwimVerif.ConduitProg", ""]
    for k in ("poll_read", "poll_write", "poll_flush", "poll_shutdown"):
        lines.append(f"/-- `Conduit::{k}` with `read` / `write` / `wake` / `close_channel` inlined -/")
        lines.append(f"def conduit_{k} : Stmt :=\n  {conduit[k]}")
    for k, v in out.items():
        lines.append(f"def {k} : Stmt :=\n  {v}")
    lines.append("end SwimVerif.Generated.ConduitSrc\n")
    return "\n".join(lines)


# ---------------------------------------------------------------- coop/mod.rs: the budget cell

B_CONDS = {
    "b == 0": ".bZero",
    "poll.is_pending()": ".pollPending",
    "let Some(mut b) = budget.get()": ".getSome",
}
B_ATOMS = {
    "b = b.saturating_sub(1)": ".subOne",
    "b = b.saturating_add(1)": ".addOne",
    "budget.set(None)": ".setNone",
    "budget.set(Some(b))": ".setB",
    "budget.set(Some(DEFAULT_START_BUDGET.get()))": ".setDefault",
    "context.waker().wake_by_ref()": ".wakeSelf",
}
B_RETS = {"Poll::Pending": ".pending", "Poll::Ready(())": ".ready", "poll": ".same"}


def emit_b(nodes, fn):
    items = []
    for nd in nodes:
        if nd[0] == "if":
            _, cond, then_l, else_l, _ = nd
            if cond not in B_CONDS:
                raise ExtractError(f"{fn}: unknown condition {cond!r}")
            items.append(f"(.ite {B_CONDS[cond]} {emit_b(then_l, fn)} {emit_b(else_l, fn)})")
            continue
        _, text, is_tail = nd
        if text in B_RETS:
            if not is_tail:
                raise ExtractError(f"{fn}: {text!r} is not in tail position")
            items.append(f"(.ret {B_RETS[text]})")
        elif text in B_ATOMS:
            items.append(B_ATOMS[text])
        elif text.startswith("TASK_BUDGET.with(|budget| {") and text.endswith("})"):
            inner = text[len("TASK_BUDGET.with(|budget| {"):-2]
            items.append(emit_b(parse_block(inner, False), fn))
        else:
            raise ExtractError(f"{fn}: unknown statement {text!r}")
    return seq(items)


def coop_src():
    t = strip_comments(src("swimos_utilities/swimos_byte_channel/src/coop/mod.rs"))
    t = re.sub(r"#\[inline\]", "", t)
    one(r"static TASK_BUDGET: Cell<Option<usize>> = const \{ Cell::new\(None\) \};", t, "TASK_BUDGET cell")
    # consume_budget: `TASK_BUDGET.with(|budget| match budget.get() { Some(mut b) => {..} None => {..} })`
    body = norm(fn_body(t, "consume_budget", r"fn consume_budget\(context: &mut Context<'_>\) -> Poll<\(\)>",
                        "coop"))
    pre = "TASK_BUDGET.with(|budget| match budget.get() { Some(mut b) => {"
    if not body.startswith(pre):
        raise ExtractError(f"consume_budget: unexpected shape {body[:80]!r}")
    i = len(pre) - 1
    e = balanced(body, i)
    some_src = body[i + 1:e - 1]
    rest = body[e:].strip()
    if not rest.startswith("None => {"):
        raise ExtractError(f"consume_budget: unexpected second arm {rest[:40]!r}")
    j = rest.index("{")
    e2 = balanced(rest, j)
    none_src = rest[j + 1:e2 - 1]
    if norm(rest[e2:]) not in ("})", "} )"):
        raise ExtractError(f"consume_budget: trailing text {rest[e2:]!r}")
    consume = (f"(.matchGet {emit_b(parse_block(some_src, True), 'consume_budget')} "
               f"{emit_b(parse_block(none_src, True), 'consume_budget')})")
    body = fn_body(t, "track_progress", r"fn track_progress<T>\(poll: Poll<T>\) -> Poll<T>", "coop")
    track = emit_b(parse_block(body, True), "track_progress")
    one(r"fn set_budget\(n: usize\) \{\s*TASK_BUDGET\.with\(\|budget\| \{\s*budget\.set\(Some\(n\)\);\s*\}\)\s*\}", t,
        "set_budget")
    one(r"let projected = self\.project\(\);\s*set_budget\(projected\.budget\.get\(\)\);\s*projected\.fut\.poll\(cx\)", t,
        "RunWithBudget::poll")
    if len(re.findall(r"TASK_BUDGET", t)) != 4:
        raise ExtractError("TASK_BUDGET is used somewhere else than consume_budget / track_progress / set_budget")
    return "\n".join([HEADER, "import SwimVerif.Model.ConduitProg", "namespace SwimVerif.Generated.CoopSrc",
                      "open SwimVerif.ConduitProg", "",
                      "/-- `coop::consume_budget` -/", f"def consume_budget : BStmt :=\n  {consume}",
                      "/-- `coop::track_progress` -/", f"def track_progress : BStmt :=\n  {track}",
                      "end SwimVerif.Generated.CoopSrc\n"])


EXTRACTORS = {"CoopConsts": coop_consts, "ConduitSrc": conduit_src, "CoopSrc": coop_src}
