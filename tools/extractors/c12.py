from extract import src, one, HEADER, ExtractError

def coop_consts():
    t = src("swimos_utilities/swimos_byte_channel/src/coop/mod.rs")
    n = one(r"const DEFAULT_START_BUDGET: NonZeroUsize = unsafe \{ NonZeroUsize::new_unchecked\((\d+)\) \};", t,
            "DEFAULT_START_BUDGET")
    return (HEADER + "namespace SwimVerif.Generated\n"
            f"def defaultStartBudget : Nat := {int(n)}\n"
            "end SwimVerif.Generated\n")

EXTRACTORS = {"CoopConsts": coop_consts}
