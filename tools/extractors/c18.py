"""C18 tables: the percent-encode set used by `RoutePattern::apply` (URL_ENCODE, an `AsciiSet` built from the
`percent-encoding` crate's NON_ALPHANUMERIC by `.remove(..)`) and the character classes of the `RouteUri` parser."""
import glob, os, re
from extract import src, one, HEADER, ExtractError, REPO


def _byte_lit(tok, what):
    """Value of a Rust byte/char literal body such as `a`, `\\'`, `\\\\`."""
    if len(tok) == 1:
        return ord(tok)
    if tok == "\\'":
        return 0x27
    if tok == "\\\\":
        return 0x5C
    raise ExtractError(f"{what}: unsupported literal {tok!r}")


def _crate_src(name, rel):
    """Source file of the third-party crate at the version pinned by /repo/Cargo.lock (offline registry copy)."""
    lock = src("Cargo.lock")
    ver = one(r'name = "%s"\nversion = "([^"]+)"' % re.escape(name), lock, f"{name} version in Cargo.lock")
    home = os.environ.get("CARGO_HOME", os.path.expanduser("~/.cargo"))
    cands = glob.glob(os.path.join(home, "registry", "src", "*", f"{name}-{ver}", rel))
    if len(cands) != 1:
        raise ExtractError(f"{name}-{ver}/{rel}: expected exactly one registry copy, found {len(cands)}")
    return open(cands[0], encoding="utf-8").read(), ver


def _non_alphanumeric():
    t, ver = _crate_src("percent-encoding", "src/ascii_set.rs")
    # CONTROLS = C0 (0x00..0x1F) + DEL
    one(r"pub const CONTROLS: &AsciiSet = &AsciiSet \{\s*mask: \[\s*!0_u32,[^\n]*\n\s*0,\s*0,\s*1 << \(0x7F_u32 % 32\),",
        t, "CONTROLS mask")
    one(r"!byte\.is_ascii\(\) \|\| self\.contains\(byte\)", t, "should_percent_encode")
    body = one(r"pub const NON_ALPHANUMERIC: &AsciiSet = &CONTROLS((?:\s*\.add\(b'(?:\\.|[^\\'])'\))+);", t,
               "NON_ALPHANUMERIC")
    if isinstance(body, tuple):
        body = body[0]
    adds = re.findall(r"\.add\(b'((?:\\.|[^\\']))'\)", body)
    s = set(range(0x20)) | {0x7F} | {_byte_lit(a, "NON_ALPHANUMERIC") for a in adds}
    return s, ver


def _char_class(t, fn):
    body = one(r"fn %s\(c: char\) -> bool \{(.*?)\n\}" % fn, t, fn, re.S)
    chars = re.findall(r"c == '((?:\\.|[^\\']))'", body)
    rest = re.sub(r"c == '(?:\\.|[^\\'])'", "", body)
    return body, sorted(_byte_lit(c, fn) for c in chars), rest


def route_tables():
    p = src("swimos_utilities/swimos_route/src/route_pattern/mod.rs")
    one(r"use percent_encoding::\{percent_decode_str, utf8_percent_encode, AsciiSet, NON_ALPHANUMERIC\};", p,
        "percent_encoding imports")
    body = one(r"pub const URL_ENCODE: &AsciiSet = &NON_ALPHANUMERIC((?:\s*\.remove\(b'(?:\\.|[^\\'])'\))*);", p,
               "URL_ENCODE")
    if isinstance(body, tuple):
        body = body[0]
    removed = [_byte_lit(a, "URL_ENCODE") for a in re.findall(r"\.remove\(b'((?:\\.|[^\\']))'\)", body)]
    one(r"utf8_percent_encode\(param_value, URL_ENCODE\)", p, "apply encodes with URL_ENCODE")
    base, ver = _non_alphanumeric()
    enc = sorted(base - set(removed))

    u = src("swimos_utilities/swimos_route/src/route_uri/parser/mod.rs")
    sbody, schema, srest = _char_class(u, "schema_char")
    if "c.is_ascii_alphanumeric()" not in srest:
        raise ExtractError("schema_char: alphanumeric clause missing")
    pbody, pathc, prest = _char_class(u, "is_path_char")
    if "c.is_ascii_alphanumeric()" not in prest:
        raise ExtractError("is_path_char: alphanumeric clause missing")
    qbody, qf, qrest = _char_class(u, "is_query_or_fragment_char")
    if "is_path_char(c)" not in qrest:
        raise ExtractError("is_query_or_fragment_char: is_path_char clause missing")
    for body, nm in ((srest, "schema_char"), (prest, "is_path_char"), (qrest, "is_query_or_fragment_char")):
        left = re.sub(r"c\.is_ascii_alphanumeric\(\)|is_path_char\(c\)|\|\||\s", "", body)
        if left:
            raise ExtractError(f"{nm}: unrecognised clause {left!r}")

    def lst(xs):
        return "[" + ", ".join(str(x) for x in xs) + "]"
    return (HEADER + f"-- percent-encoding {ver}: NON_ALPHANUMERIC minus {lst(removed)}\n"
            "namespace SwimVerif.Generated\n"
            "/-- ASCII bytes that `utf8_percent_encode(_, URL_ENCODE)` escapes (every byte >= 128 is escaped too). -/\n"
            f"def urlEncodeAscii : List Nat := {lst(enc)}\n"
            "/-- `schema_char`, `is_path_char`, `is_query_or_fragment_char` beyond ASCII alphanumerics. -/\n"
            f"def schemaCharExtra : List Nat := {lst(schema)}\n"
            f"def pathCharExtra : List Nat := {lst(pathc)}\n"
            f"def queryCharExtra : List Nat := {lst(qf)}\n"
            "end SwimVerif.Generated\n")


def meta_routes():
    """The meta-agent route patterns (`swimos_introspection/src/route/mod.rs`), in the order in which
    `register_introspection` appends them to the server's route table."""
    r = src("server/swimos_introspection/src/route/mod.rs")
    t = src("server/swimos_introspection/src/task/mod.rs")
    texts = {}
    for nm in ("mesh", "node", "lane"):
        const = one(r"pub fn %s_pattern\(\) -> RoutePattern \{\s*RoutePattern::parse_str\((\w+)\)" % nm, r,
                    f"{nm}_pattern()")
        text = one(r'const %s: &str = "([^"\\]*)";' % const, r, const)
        if not text or any(ord(c) >= 128 for c in text):
            raise ExtractError(f"{const}: empty or non-ASCII pattern text")
        texts[nm] = text
    body = one(r"pub fn register_introspection<R>\((.*?)\n\}", t, "register_introspection", re.S)
    order = re.findall(r"registration\.register\((\w+)_pattern\(\),", body)
    if len(re.findall(r"registration\.register\(", body)) != len(order) or not order:
        raise ExtractError("register_introspection: unrecognised registration.register(..) call")
    for nm in order:
        if nm not in texts:
            raise ExtractError(f"register_introspection registers unknown pattern {nm}_pattern()")

    def lst(s):
        return "[" + ", ".join(str(b) for b in s.encode()) + "]"
    out = HEADER + "namespace SwimVerif.Generated\n"
    for nm in ("mesh", "node", "lane"):
        out += f"/-- `{nm.upper()}_PATTERN` = \"{texts[nm]}\" -/\n"
        out += f"def {nm}PatternText : List Nat := {lst(texts[nm])}\n"
    out += ("/-- Order of the `registration.register(.._pattern(), ..)` calls in `register_introspection`. -/\n"
            "def metaRegistered : List (List Nat) := [" + ", ".join(f"{nm}PatternText" for nm in order) + "]\n"
            "end SwimVerif.Generated\n")
    return out


EXTRACTORS = {"RouteTables": route_tables, "MetaRoutes": meta_routes}
