from extract import src, one, HEADER, ExtractError


def _lean_bytes(s):
    return "[" + ", ".join(str(b) for b in s.encode("utf-8")) + "]"


def store_consts():
    m = src("runtime/swimos_rocks_store/src/server/mod.rs")
    ks = src("runtime/swimos_rocks_store/src/server/keystore.rs")
    rk = src("runtime/swimos_rocks_store/src/server/rocks.rs")
    ag = src("runtime/swimos_rocks_store/src/agent/mod.rs")
    pl = src("runtime/swimos_rocks_store/src/plane/mod.rs")
    en = src("runtime/swimos_rocks_store/src/engine/mod.rs")
    ut = src("runtime/swimos_rocks_store/src/utils.rs")
    im = src("server/swimos_server_app/src/in_memory_store/mod.rs")

    id_len = int(one(r"const ID_LEN: usize = (\d+);", m, "ID_LEN"))
    size_len = int(one(r"const SIZE_LEN: usize = (\d+);", m, "SIZE_LEN"))
    tag_len = int(one(r"const TAG_LEN: usize = (\d+);", m, "TAG_LEN"))
    val_tag = int(one(r"const VAL_TAG: u8 = (\d+);", m, "VAL_TAG"))
    map_tag = int(one(r"const MAP_TAG: u8 = (\d+);", m, "MAP_TAG"))
    key = int(one(r"const KEY: u8 = (\d+);", m, "KEY"))
    ubound = int(one(r"const UBOUND: u8 = (\d+);", m, "UBOUND"))
    lane_ks = one(r'const LANE_KS: &str = "([^"]*)";', m, "LANE_KS")
    value_ks = one(r'const VALUE_LANE_KS: &str = "([^"]*)";', m, "VALUE_LANE_KS")
    map_ks = one(r'const MAP_LANE_KS: &str = "([^"]*)";', m, "MAP_LANE_KS")
    # MAP_KEY_PREFIX_SIZE is this formula over the constants above
    one(r"pub const MAP_KEY_PREFIX_SIZE: usize = ID_LEN \+ 2 \* TAG_LEN \+ SIZE_LEN;", m, "MAP_KEY_PREFIX_SIZE formula")
    prefix_size = id_len + 2 * tag_len + size_len

    # shape of write_into: [MAP_TAG][lane_id LE][KEY][len LE][key]  /  [VAL_TAG][lane_id LE]
    one(r"StoreKey::Map \{ lane_id, key \} => \{\s*"
        r"writer\.write_all\(&\[MAP_TAG\]\)\?;\s*"
        r"writer\.write_all\(&lane_id\.encode_fixed_light\(\)\)\?;\s*"
        r"if let Some\(key\) = key \{\s*"
        r"writer\.write_all\(&\[KEY\]\)\?;\s*"
        r"let len = u64::try_from\(key\.len\(\)\)\.expect\(\"Length does not fit into u64\"\);\s*"
        r"writer\.write_all\(&len\.encode_fixed_light\(\)\)\?;\s*"
        r"writer\.write_all\(key\)\?;\s*\}\s*\}", m, "StoreKey::write_into map layout")
    one(r"StoreKey::Value \{ lane_id \} => \{\s*"
        r"writer\.write_all\(&\[VAL_TAG\]\)\?;\s*"
        r"writer\.write_all\(&lane_id\.encode_fixed_light\(\)\)\?;\s*\}", m, "StoreKey::write_into value layout")
    one(r"pub fn write_map_ubound<W>\(lane_id: u64, mut writer: W\) -> Result<\(\), std::io::Error>\s*where\s*W: Write,\s*\{\s*"
        r"writer\.write_all\(&\[MAP_TAG\]\)\?;\s*"
        r"writer\.write_all\(&lane_id\.encode_fixed_light\(\)\)\?;\s*"
        r"writer\.write_all\(&\[UBOUND\]\)\?;", m, "write_map_ubound layout")
    if id_len != 8:
        raise ExtractError("ID_LEN is not the width of the u64 written by encode_fixed_light")

    # prefix extractor width and iterator mode
    w = one(r"map_opts\.set_prefix_extractor\(SliceTransform::create_fixed_prefix\(size_of::<(\w+)>\(\)\)\);", rk,
            "map keyspace prefix extractor")
    widths = {"u64": 8, "u32": 4, "u16": 2, "u8": 1, "u128": 16, "usize": 8}
    if w not in widths:
        raise ExtractError(f"prefix extractor width type {w} unknown")
    one(r"read_opts\.set_prefix_same_as_start\(true\);", en, "prefix_same_as_start(true)")
    one(r"iter\.seek\(prefix\);", en, "iterator seek(prefix)")
    one(r"delegate\.delete_range_cf\(keyspace, start, ubound\)", en, "delete_range_cf(start, ubound)")
    one(r"let start = StoreKey::Map \{ lane_id, key: None \}\.serialize_as_bytes\(\);\s*"
        r"let ubound = StoreKey::map_ubound_bytes\(lane_id\);", pl, "delete_map range")
    one(r"Ok\(Some\(\(&k\[StoreKey::MAP_KEY_PREFIX_SIZE\.\.\], v\)\)\)", pl, "prefix strip width")

    # key store
    counter = one(r'pub const COUNTER_KEY: &str = "([^"]*)";', ks, "COUNTER_KEY")
    lane_prefix = one(r'pub const LANE_PREFIX: &str = "([^"]*)";', ks, "LANE_PREFIX")
    initial = int(one(r"pub const INITIAL: u64 = (\d+);", ks, "INITIAL"))
    step = int(one(r"pub const STEP: u64 = (\d+);", ks, "STEP"))
    one(r'format!\("\{\}/\{\}", LANE_PREFIX, uri\.to_string\(\)\)', ks, "format_key")
    one(r"let id = count\.fetch_add\(STEP, Ordering::Acquire\) \+ 1;\s*"
        r"delegate\.merge_keyspace\(KeyspaceName::Lane, COUNTER_BYTES, STEP\)\?;", ks,
        "id_for: counter merged before the name is written")
    one(r'let node_id = format!\("\{\}/\{\}", self\.node_uri, lane\);', ag, "lane_id_of name format")
    one(r"pub const MAX_ID_SIZE: usize = (\d+);", ut, "MAX_ID_SIZE")

    # in-memory allocator: ids from a counter starting at Default (0), post-incremented
    one(r"let id = \*counter;\s*\*counter \+= 1;\s*id_map\.insert\(name\.to_string\(\), id\);", im, "in-memory Ids::id_for")

    return (HEADER + "namespace SwimVerif.Generated.Store\n"
            f"def idLen : Nat := {id_len}\n"
            f"def sizeLen : Nat := {size_len}\n"
            f"def tagLen : Nat := {tag_len}\n"
            f"def valTag : Nat := {val_tag}\n"
            f"def mapTag : Nat := {map_tag}\n"
            f"def keyTag : Nat := {key}\n"
            f"def uboundTag : Nat := {ubound}\n"
            f"def mapKeyPrefixSize : Nat := {prefix_size}\n"
            f"def prefixExtractorWidth : Nat := {widths[w]}\n"
            f"def counterKey : List Nat := {_lean_bytes(counter)}\n"
            f"def lanePrefix : List Nat := {_lean_bytes(lane_prefix)}\n"
            f"def counterInitial : Nat := {initial}\n"
            f"def counterStep : Nat := {step}\n"
            f"def laneKs : List Nat := {_lean_bytes(lane_ks)}\n"
            f"def valueKs : List Nat := {_lean_bytes(value_ks)}\n"
            f"def mapKs : List Nat := {_lean_bytes(map_ks)}\n"
            "end SwimVerif.Generated.Store\n")


EXTRACTORS = {"StoreConsts": store_consts}
