#!/bin/sh
# Run checks against a MUTATED private copy of /repo without touching /repo or /verif:
#   tools/sbx.sh <name> <patch.diff | revert:<commit>> <Cxx> [<Cxx> ...]
# A private mount namespace binds scratch copies over /repo and /verif, so the registered commands run unchanged.
# Output: /verif/seeded/.runs/<name>/<Cxx>.{log,json,replay}; the scratch copies are removed afterwards.
set -u
name="$1"; mut="$2"; shift 2
SRC="${VERIF_SRC:-/verif}"   # framework copy to run (a builder worktree may set VERIF_SRC=/work/Cxx)
SBX=/tmp/sbx-$name-$$
out=$SRC/seeded/.runs/$name
mkdir -p "$SBX/repo" "$SBX/verif" "$out"
rsync -a --exclude target /repo/ "$SBX/repo/"
git -C "$SBX/repo" checkout -q HEAD -- . 2>/dev/null
case "$mut" in
  revert:*) git -C "$SBX/repo" revert --no-commit "${mut#revert:}" >/dev/null 2>&1 || { echo "revert failed"; rm -rf "$SBX"; exit 2; } ;;
  none) ;;
  *) git -C "$SBX/repo" apply "$mut" || { echo "patch does not apply"; rm -rf "$SBX"; exit 2; } ;;
esac
rsync -a -q --exclude .work --exclude replays --exclude 'seeded/.runs' "$SRC"/ "$SBX/verif/" 2>/dev/null
rc_all=0
for id in "$@"; do
  unshare -m sh -c "mount --bind $SBX/repo /repo && mount --bind $SBX/verif /verif && cd /verif && ./check $id ${VERIF_TIER:+--tier $VERIF_TIER}" > "$out/$id.log" 2>&1
  rc=$?
  cp "$SBX/verif/evidence/$id.json" "$out/$id.json" 2>/dev/null
  rp=$(grep -o 'replay=[^ ]*' "$out/$id.log" | head -1 | cut -d= -f2)
  [ -n "$rp" ] && cp "$SBX/verif/${rp#/verif/}" "$out/$id.replay" 2>/dev/null
  echo "$name $id rc=$rc $(grep -c '^VIOLATION' "$out/$id.log") violation-lines: $(grep '^VIOLATION' "$out/$id.log" | head -2 | tr '\n' ' ')"
  [ $rc -ne 0 ] && rc_all=1
done
rm -rf "$SBX"
exit $rc_all
