#!/bin/sh
# tools/seedrun.sh <Cxx> [extra check ids...]: import /tmp/seedout/<Cxx> into seeded/<Cxx> and run every mutation
# against check <Cxx> (and the extra ids) in a sandboxed copy; results in seeded/<Cxx>/<mN>/result.txt
id="$1"; shift
[ -d /tmp/seedout/$id ] && { mkdir -p /verif/seeded/$id; cp -r /tmp/seedout/$id/. /verif/seeded/$id/; }
for d in /verif/seeded/$id/m*; do
  m=$(basename $d)
  /verif/tools/sbx.sh $id-$m $d/patch.diff $id "$@" > $d/result.txt 2>&1
  cat $d/result.txt
done
