#!/bin/sh
# tools/seedrun.sh <Cxx> [round]: import the seeded mutations of <Cxx> (round 1: /tmp/seedout/<Cxx>/mN -> seeded/<Cxx>/mN;
# round 2: /tmp/seedout2/<Cxx>/mN -> seeded/<Cxx>/r2mN) and run each against check <Cxx> in a sandboxed copy
# (tools/sbx.sh); results in seeded/<Cxx>/<name>/result.txt
id="$1"; round="${2:-1}"
mkdir -p /verif/seeded/$id
if [ "$round" = 1 ]; then
  [ -d /tmp/seedout/$id ] && cp -r /tmp/seedout/$id/. /verif/seeded/$id/
  pat='m[0-9]*'
else
  for d in /tmp/seedout$round/$id/m*; do [ -d "$d" ] && { rm -rf /verif/seeded/$id/r${round}$(basename $d); cp -r $d /verif/seeded/$id/r${round}$(basename $d); }; done
  pat="r${round}m[0-9]*"
fi
for d in /verif/seeded/$id/$pat; do
  [ -f $d/patch.diff ] || continue
  m=$(basename $d)
  /verif/tools/sbx.sh $id-$m $d/patch.diff $id > $d/result.txt 2>&1
  grep "rc=" $d/result.txt
done
