#!/usr/bin/env python3
"""./check <Cxx> [--tier quick|thorough] [--replay file]

Pipeline (identical for every property; DESIGN.md §0):
  1. translator: regenerate lean/SwimVerif/Generated/*.lean from /repo
  2. proofs: `lake build` the property module + driver; axiom audit of every property theorem
  3. correspondence: build the Rust harness against /repo's working tree, run the real component and the
     compiled Lean model on the same op lines, diff
  4. monitor: run the decidable property predicate (compiled Lean) over the implementation's traces
  5. verdict (+ search for a failing input when a proof/correspondence broke), evidence/<id>.json
"""
import os, sys, json, re, subprocess, time, hashlib, fcntl, shutil, glob

ROOT = os.path.dirname(os.path.dirname(os.path.abspath(__file__)))
LEAN = os.path.join(ROOT, "lean")
DRIVER = os.path.join(LEAN, ".lake", "build", "bin", "svdriver")
REPO = os.environ.get("VERIF_REPO", "/repo")
ALLOWED_AXIOMS = {"propext", "Classical.choice", "Quot.sound"}
NCPU = os.cpu_count() or 4

sys.path.insert(0, os.path.join(ROOT, "tools"))
from props import PROPS  # noqa: E402


def sh(cmd, cwd=None, timeout=None, env=None, stdin=None):
    e = dict(os.environ)
    e.update({"CARGO_NET_OFFLINE": "true"})
    if env:
        e.update(env)
    p = subprocess.run(cmd, cwd=cwd, shell=isinstance(cmd, str), stdout=subprocess.PIPE, stderr=subprocess.STDOUT,
                       timeout=timeout, env=e, stdin=stdin)
    return p.returncode, p.stdout.decode("utf-8", "replace")


class Lock:
    def __init__(self, name):
        self.path = os.path.join(ROOT, ".work", name + ".lock")

    def __enter__(self):
        os.makedirs(os.path.dirname(self.path), exist_ok=True)
        self.f = open(self.path, "w")
        fcntl.flock(self.f, fcntl.LOCK_EX)
        return self

    def __exit__(self, *a):
        fcntl.flock(self.f, fcntl.LOCK_UN)
        self.f.close()


# ----------------------------------------------------------------------------------------------- proofs

def strip_comments(text):
    text = re.sub(r"/-.*?-/", "", text, flags=re.S)
    return re.sub(r"--.*", "", text)


def theorem_names(pid):
    """Property theorems = every `theorem <pid>_...` in Props/<pid>.lean (helper lemmas live elsewhere).
    Returns fully qualified names (the file may open several namespaces one after the other)."""
    text = open(os.path.join(LEAN, "SwimVerif", "Props", pid + ".lean"), encoding="utf-8").read()
    text = strip_comments(text)
    ns_stack, names, opens = [], [], []
    for line in text.splitlines():
        m = re.match(r"^namespace\s+([\w.]+)", line)
        if m:
            ns_stack.append(m.group(1)); continue
        m = re.match(r"^end\s+([\w.]+)", line)
        if m and ns_stack and ns_stack[-1] == m.group(1):
            ns_stack.pop(); continue
        m = re.match(r"^theorem\s+(" + pid + r"_\w+)", line)
        if m:
            names.append(".".join(ns_stack + [m.group(1)])); continue
        m = re.match(r"^def\s+(" + pid + r"_\w+_open)\b", line)
        if m:
            opens.append(m.group(1))
    return None, names, opens


FORBIDDEN = re.compile(r"\bsorry\b|\badmit\b|^\s*axiom\s|native_decide|bv_decide|implemented_by|\bunsafe\s|maxHeartbeats\s+0",
                       re.M)


def lean_sources_for(pid, cfg):
    files = [os.path.join(LEAN, "SwimVerif", "Props", pid + ".lean")]
    for m in cfg.get("lean_modules", []):
        files.append(os.path.join(LEAN, *m.split(".")) + ".lean")
    return files


def run_proofs(pid, cfg, log):
    res = {"built": False, "obligations": 0, "discharged": 0, "theorems": [], "open_statements": [],
           "axioms_seen": [], "problems": []}
    with Lock("lean"):
        sh([sys.executable, os.path.join(ROOT, "tools", "genreg.py")])
        # every table is regenerated (the driver links all machines); only a failure of one of THIS property's
        # tables breaks this property (another property's extractor failing is that property's alarm)
        rc, out = sh([sys.executable, os.path.join(ROOT, "tools", "extract.py")])
        log("extract: " + out.strip())
        own = set(cfg.get("generated", []))
        try:
            ej = json.loads(out.strip().splitlines()[-1])
            own_failed = {k: v for k, v in ej.get("failed", {}).items() if k in own}
            res["translator"] = json.dumps({"extracted": [n for n in ej.get("extracted", []) if n in own],
                                            "failed": own_failed})
        except Exception:
            own_failed = {"extract.py": out.strip()[-400:]} if rc != 0 else {}
            res["translator"] = out.strip()
        if own_failed:
            res["problems"].append("translator failed: " + json.dumps(own_failed))
        targets = ["SwimVerif.Props." + pid, "svdriver"]
        rc, out = sh(["lake", "build"] + targets, cwd=LEAN, timeout=3000)
        if rc != 0:
            errs = [l for l in out.splitlines() if "error" in l][:8]
            res["problems"].append("lake build failed: " + " | ".join(errs))
            log(out[-4000:])
            # the driver may still be buildable on its own (needed for the search)
            sh(["lake", "build", "svdriver"], cwd=LEAN, timeout=3000)
            ns, names, opens = theorem_names(pid)
            res["obligations"] = len(names)
            res["theorems"] = names
            return res
        res["built"] = True
        ns, names, opens = theorem_names(pid)
        res["obligations"] = len(names)
        res["theorems"] = names
        res["open_statements"] = opens
        # forbidden constructs in the sources this property depends on
        for f in lean_sources_for(pid, cfg):
            if os.path.exists(f):
                m = FORBIDDEN.search(strip_comments(open(f, encoding="utf-8").read()))
                if m:
                    res["problems"].append(f"forbidden construct {m.group(0).strip()!r} in {os.path.relpath(f, ROOT)}")
        # axiom audit
        audit_dir = os.path.join(ROOT, ".work", "audit")
        os.makedirs(audit_dir, exist_ok=True)
        audit = os.path.join(audit_dir, pid + ".lean")
        with open(audit, "w") as f:
            f.write(f"import SwimVerif.Props.{pid}\n")
            for n in names:
                f.write(f"#print axioms {ns + '.' if ns else ''}{n}\n")
        rc, out = sh(["lake", "env", "lean", audit], cwd=LEAN, timeout=1200)
        seen = set()
        ok = 0
        # output: "'X' depends on axioms: [a, b]" or "'X' does not depend on any axioms"
        for m in re.finditer(r"'([^']+)' (does not depend on any axioms|depends on axioms: \[([^\]]*)\])", out, re.S):
            axs = set(a.strip() for a in (m.group(3) or "").replace("\n", " ").split(",") if a.strip())
            seen |= axs
            if axs <= ALLOWED_AXIOMS:
                ok += 1
            else:
                res["problems"].append(f"theorem {m.group(1)} depends on disallowed axioms {sorted(axs - ALLOWED_AXIOMS)}")
        if rc != 0:
            res["problems"].append("axiom audit failed to run: " + out[-500:])
        res["discharged"] = ok
        res["axioms_seen"] = sorted(seen)
        if ok != len(names):
            res["problems"].append(f"only {ok} of {len(names)} property theorems audited clean")
    return res


def leanchecker(pid, log):
    with Lock("lean"):
        rc, out = sh(["lake", "env", "leanchecker", "SwimVerif.Props." + pid], cwd=LEAN, timeout=3000)
    log("leanchecker rc=%d %s" % (rc, out[-300:]))
    return rc == 0, out[-300:]


# ----------------------------------------------------------------------------------------------- harness

def harness_build(crate, bins, features, log):
    cdir = os.path.join(ROOT, "harness", crate)
    with Lock("cargo-" + crate):
        cmd = ["cargo", "build", "--offline", "--quiet"]
        for b in bins:
            cmd += ["--bin", b]
        if features:
            cmd += ["--features", ",".join(features)]
        rc, out = sh(cmd, cwd=cdir, timeout=6000)
    if rc != 0:
        log(out[-6000:])
    return rc == 0, out


def split_cases(path):
    """Yield (case_header, [lines]) from a trace file."""
    cur, lines = None, []
    with open(path, encoding="utf-8", errors="replace") as f:
        for line in f:
            line = line.rstrip("\n")
            if line.startswith("#") or not line.strip():
                continue
            if line.startswith("case"):
                if cur is not None:
                    yield cur, lines
                cur, lines = line, []
            else:
                if cur is None:
                    cur = "case ?"
                lines.append(line)
    if cur is not None:
        yield cur, lines


def run_driver(machine, mode, trace_path, out_path):
    with open(trace_path, "rb") as fin, open(out_path, "wb") as fout:
        p = subprocess.run([DRIVER, machine, mode], stdin=fin, stdout=fout, stderr=subprocess.PIPE, timeout=3000)
    return p.returncode, p.stderr.decode("utf-8", "replace")


def first_disagreement(trace_path, model_path):
    """Compare impl trace with model output line by line. Returns None or dict describing the first difference."""
    case, idx, ops = None, 0, []
    with open(trace_path, encoding="utf-8", errors="replace") as a, open(model_path, encoding="utf-8",
                                                                         errors="replace") as b:
        blines = (l.rstrip("\n") for l in b if not l.startswith("#"))
        for la in a:
            la = la.rstrip("\n")
            if la.startswith("#") or not la.strip():
                continue
            lb = next(blines, None)
            if la.startswith("case"):
                case, idx, ops = la, 0, []
            else:
                ops.append(la)
            if lb is None or la.strip() != lb.strip():
                return {"case": case, "line": idx, "impl": la, "model": lb, "ops_so_far": list(ops)}
            idx += 1
    return None


def case_ops(trace_path, case_header):
    for hdr, lines in split_cases(trace_path):
        if hdr == case_header:
            return lines
    return []


class Engine:
    """One correspondence / monitor engine of a property (see props.py)."""

    def __init__(self, pid, cfg, work, log):
        self.pid, self.cfg, self.work, self.log = pid, cfg, work, log
        self.bin = os.path.join(ROOT, "harness", cfg["crate"], "target", "debug", cfg["bin"])
        self.machine = cfg["machine"]
        self.modes = cfg.get("modes", ["model", "monitor"])
        self.stats = {"cases": 0, "ops": 0, "distinct_nontrivial": 0, "tally": {}, "samples": []}
        self.disagreements = []   # model vs impl
        self.violations = []      # monitor on impl traces
        self._seen = set()

    def gen(self, seed, cases, tag):
        out = os.path.join(self.work, f"{self.cfg['name']}-{tag}.trace")
        extra = self.cfg.get("gen_args", [])
        if isinstance(extra, dict):
            extra = extra[os.environ.get("VERIF_TIER_EFFECTIVE", "quick")]
        p = subprocess.run([self.bin, "gen", str(seed), str(cases), out] + extra, stdout=subprocess.PIPE,
                           stderr=subprocess.STDOUT, timeout=self.cfg.get("timeout", 3000))
        if p.returncode != 0:
            self.log(f"harness {self.cfg['bin']} gen failed rc={p.returncode}: {p.stdout.decode()[-2000:]}")
            return None
        return out

    def replay(self, ops_path, tag):
        out = os.path.join(self.work, f"{self.cfg['name']}-{tag}.trace")
        p = subprocess.run([self.bin, "replay", ops_path, out], stdout=subprocess.PIPE, stderr=subprocess.STDOUT,
                           timeout=self.cfg.get("timeout", 3000))
        if p.returncode != 0:
            self.log(f"harness {self.cfg['bin']} replay failed rc={p.returncode}: {p.stdout.decode()[-2000:]}")
            return None
        return out

    def account(self, trace):
        for hdr, lines in split_cases(trace):
            self.stats["cases"] += 1
            self.stats["ops"] += len(lines)
            h = hashlib.sha1("\n".join(l.split(" ;; ")[0] for l in lines).encode()).hexdigest()
            if h not in self._seen and len(lines) >= self.cfg.get("nontrivial_min_ops", 3):
                self._seen.add(h)
                self.stats["distinct_nontrivial"] += 1
                if len(self.stats["samples"]) < 2 and len(lines) <= 40:
                    self.stats["samples"].append({"engine": self.cfg["name"], "case": hdr, "trace": lines[:40]})

    def check_trace(self, trace, tag, want_monitor=True):
        """Run model diff + monitor on one trace file."""
        self.account(trace)
        if "model" in self.modes:
            mo = trace + ".model"
            rc, err = run_driver(self.machine, "model", trace, mo)
            if rc != 0:
                self.disagreements.append({"case": None, "error": "driver failed: " + err[-300:], "trace": trace})
            else:
                with open(mo, encoding="utf-8", errors="replace") as f:
                    for l in f:
                        if l.startswith("# "):
                            for kv in l[2:].split():
                                if "=" in kv:
                                    k, v = kv.rsplit("=", 1)
                                    if v.isdigit():
                                        self.stats["tally"][k] = self.stats["tally"].get(k, 0) + int(v)
                d = first_disagreement(trace, mo)
                if d:
                    d["trace"] = trace
                    self.disagreements.append(d)
        if "monitor" in self.modes and want_monitor:
            vo = trace + ".viol"
            rc, err = run_driver(self.machine, "monitor", trace, vo)
            if rc != 0:
                self.violations.append({"case": None, "reason": "monitor-driver-failed", "detail": err[-300:],
                                        "trace": trace})
            else:
                with open(vo, encoding="utf-8", errors="replace") as f:
                    for l in f:
                        m = re.match(r"viol (case .*?) line=(\d+) reason=(\S+) at: (.*)", l.rstrip("\n"))
                        if m and self.cfg.get("reasons") and not re.fullmatch(self.cfg["reasons"], m.group(3)):
                            # belongs to another property served by the same engine
                            self.stats["other_property_violations"] = self.stats.get("other_property_violations", 0) + 1
                            continue
                        if m:
                            self.violations.append({"case": m.group(1), "line": int(m.group(2)),
                                                    "reason": m.group(3), "at": m.group(4), "trace": trace})


# ----------------------------------------------------------------------------------------------- verdict helpers

def load_known():
    p = os.path.join(ROOT, "KNOWN_FINDINGS.json")
    out = json.load(open(p)) if os.path.exists(p) else []
    for q in sorted(glob.glob(os.path.join(ROOT, "known_findings.d", "*.json"))):
        out += json.load(open(q))
    return out


def match_known(pid, engine, viol, known):
    for k in known:
        if k.get("status") != "known" or k.get("property") != pid:
            continue
        m = k.get("match", {})
        if m.get("engine") and m["engine"] != engine:
            continue
        if m.get("reason") and not re.fullmatch(m["reason"], viol.get("reason", "")):
            continue
        if m.get("at") and not re.search(m["at"], viol.get("at", "")):
            continue
        return k
    return None


_REPLAY_N = 0


def write_replay(pid, kind, engine_cfg, header, ops, detail):
    os.makedirs(os.path.join(ROOT, "replays"), exist_ok=True)
    stamp = time.strftime("%Y%m%d-%H%M%S")
    global _REPLAY_N
    _REPLAY_N += 1
    path = os.path.join(ROOT, "replays",
                        f"{pid}-{engine_cfg['name'] if engine_cfg else 'proof'}-{stamp}-{os.getpid()}-{_REPLAY_N}.ops")
    with open(path, "w") as f:
        f.write(f"# property={pid} kind={kind} engine={(engine_cfg or {}).get('name')}\n")
        for k, v in detail.items():
            for line in str(v).splitlines() or [""]:
                f.write(f"# {k}: {line}\n")
        if header:
            f.write(header + "\n")
        for l in ops:
            f.write(l + "\n")
    return path


def shrink(engine, ops_lines, still_fails, budget=150):
    """Greedy delta-debugging over op lines (the first line, usually `new ...`, is kept)."""
    ops = [l.split(" ;; ")[0] for l in ops_lines]
    if len(ops) <= 2:
        return ops
    n = 2
    tries = 0
    while len(ops) > 2 and tries < budget:
        chunk = max(1, (len(ops) - 1) // n)
        removed = False
        i = 1
        while i < len(ops) and tries < budget:
            cand = ops[:i] + ops[i + chunk:]
            tries += 1
            if len(cand) >= 1 and still_fails(cand):
                ops = cand
                removed = True
            else:
                i += chunk
        if not removed:
            if chunk == 1:
                break
            n = min(len(ops), n * 2)
    return ops


# ----------------------------------------------------------------------------------------------- main

def main():
    args = sys.argv[1:]
    if not args:
        print(__doc__)
        return 2
    pid = args[0]
    tier = os.environ.get("VERIF_TIER", "quick")
    replay_file = None
    i = 1
    while i < len(args):
        if args[i] == "--tier":
            tier = args[i + 1]; i += 2
        elif args[i] == "--replay":
            replay_file = args[i + 1]; i += 2
        else:
            i += 1
    if tier not in ("quick", "thorough"):
        tier = "quick"
    os.environ["VERIF_TIER_EFFECTIVE"] = tier
    seed = int(os.environ.get("VERIF_SEED", "0") or 0)
    if pid not in PROPS:
        print(f"unknown property {pid}")
        return 2
    cfg = PROPS[pid]
    t0 = time.time()
    work = os.path.join(ROOT, ".work", f"{pid}-{os.getpid()}")
    os.makedirs(work, exist_ok=True)
    logf = open(os.path.join(ROOT, ".work", f"{pid}.log"), "w")

    def log(msg):
        logf.write(msg + "\n"); logf.flush()

    known = load_known()
    out_lines = []
    violations_out = []   # (replay_path, suffix)
    try:
        # ---- 2. proofs
        proofs = run_proofs(pid, cfg, log)
        proof_ok = proofs["built"] and not proofs["problems"]
        lc = None
        if tier == "thorough" and proofs["built"]:
            lc = leanchecker(pid, log)
            if not lc[0]:
                proof_ok = False
                proofs["problems"].append("leanchecker rejected the property module: " + lc[1])

        # ---- 3/4. engines
        engines = []
        build_problems = []
        by_crate = {}
        for ecfg in cfg.get("engines", []):
            by_crate.setdefault((ecfg["crate"], tuple(ecfg.get("features", []))), []).append(ecfg["bin"])
        for (crate, feats), bins in by_crate.items():
            ok, out = harness_build(crate, sorted(set(bins)), list(feats), log)
            if not ok:
                errs = [l for l in out.splitlines() if l.startswith("error")][:5]
                build_problems.append(f"harness {crate} [{','.join(bins)}] does not build against the current tree: "
                                      + " | ".join(errs))
        for ecfg in cfg.get("engines", []):
            if build_problems:
                break
            e = Engine(pid, ecfg, work, log)
            engines.append(e)
            if replay_file:
                tr = e.replay(replay_file, "replay")
                if tr:
                    e.check_trace(tr, "replay")
                continue
            # corpus first
            for cf in sorted(glob.glob(os.path.join(ROOT, "corpus", pid, ecfg["name"] + "*.ops"))):
                tr = e.replay(cf, "corpus-" + os.path.basename(cf))
                if tr:
                    e.check_trace(tr, "corpus")
                else:
                    e.disagreements.append({"case": None, "error": "corpus replay failed: " + cf, "trace": cf})
            ncases = ecfg["cases"][tier]
            gargs = ecfg.get("gen_args", [])
            if isinstance(gargs, dict):
                gargs = gargs[tier]
            shards = ecfg.get("shards") or min(NCPU, max(1, ncases // ecfg.get("min_shard", 500)))
            per = (ncases + shards - 1) // shards
            procs = []
            for s in range(shards):
                tag = f"s{s}"
                out = os.path.join(work, f"{ecfg['name']}-{tag}.trace")
                procs.append((out, subprocess.Popen([e.bin, "gen", str(seed * 1000 + s), str(per), out]
                                                    + list(gargs),
                                                    stdout=subprocess.PIPE, stderr=subprocess.STDOUT)))
            for out, p in procs:
                try:
                    so, _ = p.communicate(timeout=ecfg.get("timeout", 3000))
                except subprocess.TimeoutExpired:
                    p.kill()
                    so = b"timeout"
                if p.returncode != 0:
                    log(f"harness gen failed: {so.decode('utf-8', 'replace')[-3000:]}")
                    e.disagreements.append({"case": None, "error": f"harness {ecfg['bin']} crashed or timed out "
                                            f"(rc={p.returncode}): " + so.decode('utf-8', 'replace')[-400:],
                                            "trace": out})
                    if os.path.exists(out):
                        e.check_trace(out, "gen")
                else:
                    e.check_trace(out, "gen")

        # ---- 5. verdict
        new_viol = []
        known_hits = {}
        for e in engines:
            for v in e.violations:
                k = match_known(pid, e.cfg["name"], v, known)
                if k:
                    known_hits.setdefault(k["id"], (k, 0))
                    known_hits[k["id"]] = (k, known_hits[k["id"]][1] + 1)
                else:
                    new_viol.append((e, v))
        for kid, (k, n) in sorted(known_hits.items()):
            out_lines.append(f"KNOWN-FINDING: property={pid} {k['what']} [{kid}; {n} traces]")

        if new_viol:
            # report the first (per engine+reason), shrunk
            seen_r = set()
            for e, v in new_viol:
                key = (e.cfg["name"], v.get("reason"))
                if key in seen_r:
                    continue
                seen_r.add(key)
                ops = case_ops(v["trace"], v["case"]) if v.get("case") else []

                def still(cand, e=e, v=v):
                    p = os.path.join(work, "shrink.ops")
                    open(p, "w").write("case shrink\n" + "\n".join(cand) + "\n")
                    tr = e.replay(p, "shrink")
                    if not tr:
                        return False
                    vo = tr + ".viol"
                    rc, _ = run_driver(e.machine, "monitor", tr, vo)
                    if rc != 0:
                        return False
                    return any(f"reason={v['reason']} " in l for l in open(vo, encoding="utf-8", errors="replace"))

                small = ops
                if ops and e.cfg.get("shrink", True) and os.path.exists(e.bin):
                    try:
                        small = shrink(e, ops, still)
                    except Exception as ex:  # shrinking is best-effort
                        log(f"shrink failed: {ex}")
                path = write_replay(pid, "property-violation-on-implementation", e.cfg, v.get("case") or "case ?",
                                    small, {"reason": v.get("reason"), "at": v.get("at"),
                                            "original_length": len(ops), "seed": seed, "tier": tier})
                violations_out.append((path, ""))
                if len(violations_out) >= 3:
                    break
        broken = []
        if not proof_ok:
            broken.append(("proof", "; ".join(proofs["problems"]) or "property module did not build"))
        for bp in build_problems:
            broken.append(("harness-build", bp))
        for e in engines:
            for d in e.disagreements[:1]:
                broken.append(("correspondence:" + e.cfg["name"], d))
        if broken and not violations_out:
            # ---- search for a failing input: more monitor-only exploration on the implementation
            found = None
            if not build_problems and not replay_file:
                for e in engines:
                    if "monitor" not in e.modes:
                        continue
                    for extra in range(3):
                        tr = e.gen(seed * 1000 + 500 + extra, e.cfg["cases"][tier], f"search{extra}")
                        if not tr:
                            continue
                        before = len(e.violations)
                        e.check_trace(tr, "search", want_monitor=True)
                        for v in e.violations[before:]:
                            if not match_known(pid, e.cfg["name"], v, known):
                                found = (e, v)
                                break
                        if found:
                            break
                    if found:
                        break
            if found:
                e, v = found
                ops = case_ops(v["trace"], v["case"])
                path = write_replay(pid, "property-violation-on-implementation", e.cfg, v["case"], ops,
                                    {"reason": v.get("reason"), "at": v.get("at"), "found_by": "search after broken "
                                     + broken[0][0], "seed": seed, "tier": tier})
                violations_out.append((path, ""))
            else:
                kind, what = broken[0]
                detail = {"broken": kind, "seed": seed, "tier": tier}
                hdr, ops = None, []
                if isinstance(what, dict):
                    detail.update({"first_difference_line": what.get("line"), "impl_said": what.get("impl"),
                                   "model_said": what.get("model"), "error": what.get("error")})
                    hdr, ops = what.get("case"), what.get("ops_so_far", [])
                    detail["names"] = f"correspondence {kind} (model machine {engines[0].machine if engines else '?'})"
                else:
                    detail["what"] = what
                    detail["names"] = ("theorems " + ", ".join(proofs["theorems"][:12])) if kind == "proof" else kind
                ecfg = None
                for e in engines:
                    if kind.endswith(e.cfg["name"]):
                        ecfg = e.cfg
                path = write_replay(pid, "no-longer-shown-to-hold", ecfg, hdr, ops, detail)
                violations_out.append((path, " no-failing-input-found"))

        # ---- evidence
        wall = time.time() - t0
        cov = {
            "obligations": proofs["obligations"],
            "discharged": proofs["discharged"],
            "checker_cmd": f"cd lean && lake build SwimVerif.Props.{pid} && lake env lean <#print axioms of every {pid}_* theorem>"
                           + (" && lake env leanchecker SwimVerif.Props." + pid if tier == "thorough" else ""),
            "trusted_base": cfg["trusted_base"],
            "theorems": proofs["theorems"],
            "open_statements": proofs["open_statements"],
            "axioms_seen": proofs["axioms_seen"],
            "proof_problems": proofs["problems"],
            "translator": proofs.get("translator"),
            "leanchecker": (lc[0] if lc else None),
            "evaluations": sum(e.stats["cases"] for e in engines),
            "ops_executed_on_impl": sum(e.stats["ops"] for e in engines),
            "distinct_nontrivial": sum(e.stats["distinct_nontrivial"] for e in engines),
            "rule": cfg.get("rule", "cases are op sequences generated from one SplitMix64 seed; distinct = distinct op "
                                    "sequence (sha1), non-trivial = at least 3 ops"),
            "traces_validated_against_impl": sum(e.stats["cases"] for e in engines if "model" in e.modes),
            "model_output_kinds": {e.cfg["name"]: e.stats["tally"] for e in engines},
            "engines": [{"name": e.cfg["name"], "cases": e.stats["cases"], "ops": e.stats["ops"],
                         "model_disagreements": len(e.disagreements), "monitor_violations": len(e.violations),
                         "modes": e.modes} for e in engines],
            "samples": [s for e in engines for s in e.stats["samples"]] or [{"theorems": proofs["theorems"][:5]}],
            "known_findings_hit": sorted(known_hits),
            "exhaustive": False,
        }
        ev = {"property_id": pid, "tier": tier, "seed": seed, "level": "proof", "coverage": cov,
              "assumptions": cfg.get("assumptions", []), "wall_s": round(wall, 2),
              "violations": len(violations_out)}
        os.makedirs(os.path.join(ROOT, "evidence"), exist_ok=True)
        with open(os.path.join(ROOT, "evidence", pid + ".json"), "w") as f:
            json.dump(ev, f, indent=1)
        for l in out_lines:
            print(l)
        print(f"{pid} tier={tier} seed={seed}: theorems {proofs['discharged']}/{proofs['obligations']} "
              f"cases={cov['evaluations']} ops={cov['ops_executed_on_impl']} "
              f"disagreements={sum(len(e.disagreements) for e in engines)} "
              f"violations={sum(len(e.violations) for e in engines)} wall={wall:.1f}s")
        for path, suffix in violations_out:
            print(f"VIOLATION property={pid} replay={path}{suffix}")
        return 1 if violations_out else 0
    finally:
        logf.close()
        shutil.rmtree(work, ignore_errors=True)


if __name__ == "__main__":
    sys.exit(main())
