//! SIGKILL exploration (support only; thorough tier): a child process applies a deterministic op sequence to a
//! RocksDB store and prints the result of every completed op; the parent kills it at a random point, opens the
//! directory again and reads everything back. The emitted case is `acked ops [+ the op in flight if its effect
//! is visible]; reopen; read-back`, which the Lean model must reproduce (reopened DB = fold of acknowledged ops,
//! optionally plus the one in flight).
use std::collections::BTreeMap;
use std::io::{BufRead, BufReader, Write};
use std::path::PathBuf;
use std::process::{Command, Stdio};

use crate::svh::{hex, unhex, Rng, Trace};
use crate::{rocks_sys_at, scratch_dir, Exec};

const URI_HEX: &str = "2f61";
const NAMES: &[&str] = &["76", "6d", "7632", "6d32"]; // v, m, v2, m2 -> ids 1..4

/// The op sequence of a crash case (same in parent and child).
pub fn crash_ops(seed: u64, n: usize) -> Vec<String> {
    let mut rng = Rng::new(seed ^ 0xC2A5_1357);
    let mut ops: Vec<String> = NAMES.iter().map(|nm| format!("id 0 {}", nm)).collect();
    for i in 0..n {
        let id = rng.range(1, 4);
        let tag = [(i >> 8) as u8, i as u8]; // unique per op
        let key: Vec<u8> = match rng.below(6) {
            0 => vec![],
            1 => vec![0],
            2 => vec![0xff],
            3 => vec![0, 0],
            4 => vec![1],
            _ => vec![rng.below(4) as u8, rng.below(4) as u8],
        };
        let op = if id % 2 == 1 {
            match rng.below(6) {
                0 => format!("del 0 {}", id),
                _ => format!("put 0 {} {}", id, hex(&tag)),
            }
        } else {
            match rng.below(12) {
                0 => format!("clr 0 {}", id),
                1..=3 => format!("rem 0 {} {}", id, hex(&key)),
                _ => format!("upd 0 {} {} {}", id, hex(&key), hex(&tag)),
            }
        };
        ops.push(op);
    }
    ops
}

/// `sv-c13 crash-child <dir> <seed> <n>`
pub fn child() {
    let a: Vec<String> = std::env::args().collect();
    let dir = PathBuf::from(&a[2]);
    let seed: u64 = a[3].parse().unwrap();
    let n: usize = a[4].parse().unwrap();
    let mut sys = rocks_sys_at(dir);
    let out = std::io::stdout();
    let mut out = out.lock();
    let r = sys.run(&format!("open 0 0 {}", URI_HEX));
    writeln!(out, "{}", r).unwrap();
    out.flush().unwrap();
    for op in crash_ops(seed, n) {
        let r = sys.run(&op);
        writeln!(out, "{}", r).unwrap();
        out.flush().unwrap();
    }
    // keep the process alive so that the parent's kill is what ends it
    loop {
        std::thread::sleep(std::time::Duration::from_millis(50));
    }
}

#[derive(Default, Clone, PartialEq)]
struct Fold {
    vals: BTreeMap<u64, Vec<u8>>,
    maps: BTreeMap<(u64, Vec<u8>), Vec<u8>>,
}

impl Fold {
    fn apply(&mut self, op: &str) {
        let p: Vec<&str> = op.split_whitespace().collect();
        match p.as_slice() {
            ["put", _, id, v] => {
                self.vals.insert(id.parse().unwrap(), unhex(v).unwrap());
            }
            ["del", _, id] => {
                self.vals.remove(&id.parse().unwrap());
            }
            ["upd", _, id, k, v] => {
                self.maps.insert((id.parse().unwrap(), unhex(k).unwrap()), unhex(v).unwrap());
            }
            ["rem", _, id, k] => {
                self.maps.remove(&(id.parse().unwrap(), unhex(k).unwrap()));
            }
            ["clr", _, id] => {
                let id: u64 = id.parse().unwrap();
                self.maps.retain(|(i, _), _| *i != id);
            }
            _ => {}
        }
    }
}

fn read_back(sys: &mut dyn Exec, names_acked: usize) -> (Vec<(String, String)>, Fold) {
    let mut lines = vec![];
    let mut f = Fold::default();
    let o = sys.run(&format!("open 0 0 {}", URI_HEX));
    lines.push((format!("open 0 0 {}", URI_HEX), o));
    for nm in NAMES.iter().take(names_acked) {
        let op = format!("id 0 {}", nm);
        let o = sys.run(&op);
        lines.push((op, o));
    }
    for id in 1..=(NAMES.len() as u64) {
        let op = format!("get 0 {}", id);
        let o = sys.run(&op);
        if let Some(v) = o.strip_prefix("some ") {
            f.vals.insert(id, unhex(v).unwrap_or_default());
        }
        lines.push((op, o));
        let op = format!("read 0 {}", id);
        let o = sys.run(&op);
        if let Some(es) = o.strip_prefix("map ") {
            if es != "." {
                for e in es.split(',') {
                    let mut kv = e.split('=');
                    let k = unhex(kv.next().unwrap_or("")).unwrap_or_default();
                    let v = unhex(kv.next().unwrap_or("")).unwrap_or_default();
                    f.maps.insert((id, k), v);
                }
            }
        }
        lines.push((op, o));
    }
    (lines, f)
}

pub fn explore(t: &mut Trace, seed: u64, cases: u64) {
    let exe = std::env::current_exe().expect("current_exe");
    let mut rng = Rng::new(seed ^ 0x51C4_111);
    for c in 0..cases {
        let n = rng.range(20, 300) as usize;
        let case_seed = rng.next();
        let ops = crash_ops(case_seed, n);
        let dir = scratch_dir(&format!("crash{}-{}", seed, c));
        let mut child = Command::new(&exe)
            .arg("crash-child")
            .arg(&dir)
            .arg(case_seed.to_string())
            .arg(n.to_string())
            .stdout(Stdio::piped())
            .stderr(Stdio::null())
            .spawn()
            .expect("spawn child");
        let stdout = child.stdout.take().unwrap();
        let mut rd = BufReader::new(stdout);
        let kill_after = rng.below(ops.len() as u64 + 2) as usize; // lines (incl. the `open`) to read before the kill
        let delay_us = rng.below(400);
        let mut outs: Vec<String> = vec![];
        let mut line = String::new();
        while outs.len() < kill_after {
            line.clear();
            if rd.read_line(&mut line).unwrap_or(0) == 0 {
                break;
            }
            outs.push(line.trim_end().to_string());
        }
        if delay_us > 0 {
            std::thread::sleep(std::time::Duration::from_micros(delay_us));
        }
        let _ = child.kill(); // SIGKILL
        loop {
            line.clear();
            if rd.read_line(&mut line).unwrap_or(0) == 0 {
                break;
            }
            // a line cut short by the kill is not an acknowledgement
            if line.ends_with('\n') {
                outs.push(line.trim_end().to_string());
            }
        }
        let _ = child.wait();

        // outs[0] answers `open`; outs[1..] answer ops[0..]
        let acked = outs.len().saturating_sub(1).min(ops.len());
        let mut expect = Fold::default();
        for op in &ops[..acked] {
            expect.apply(op);
        }
        let names_acked = acked.min(NAMES.len());
        let (lines, got) = {
            let mut sys = rocks_sys_at(dir.clone());
            read_back(&mut sys, names_acked)
        };
        let mut inflight = false;
        if got != expect && acked < ops.len() {
            let mut e2 = expect.clone();
            e2.apply(&ops[acked]);
            if got == e2 {
                inflight = true;
            }
        }
        t.case(format!(
            "crash {} seed={} ops={} acked={} inflight-visible={}",
            c, seed, ops.len(), acked, inflight as u8
        ));
        if outs.is_empty() {
            // killed before the store was even opened: nothing acknowledged
            t.op(format!("open 0 0 {}", URI_HEX), "ready");
        } else {
            t.op(format!("open 0 0 {}", URI_HEX), &outs[0]);
        }
        for i in 0..acked {
            t.op(&ops[i], &outs[i + 1]);
        }
        if inflight {
            t.op(&ops[acked], "ok");
        }
        t.op("reopen", "ok"); // stands for: SIGKILL, then the directory is opened again
        for (op, o) in lines {
            t.op(op, o);
        }
        let _ = std::fs::remove_dir_all(&dir);
    }
}

/// `sv-c13 burn-child <dir> <n>`: `id_for` of `n` fresh names, each acknowledged on stdout.
pub fn burn_child() {
    let a: Vec<String> = std::env::args().collect();
    let dir = PathBuf::from(&a[2]);
    let n: usize = a[3].parse().unwrap();
    let mut sys = rocks_sys_at(dir);
    let out = std::io::stdout();
    let mut out = out.lock();
    let r = sys.run(&format!("open 0 0 {}", URI_HEX));
    writeln!(out, "{}", r).unwrap();
    out.flush().unwrap();
    for i in 0..n {
        let r = sys.run(&format!("id 0 {}", hex(format!("n{}", i).as_bytes())));
        writeln!(out, "{}", r).unwrap();
        out.flush().unwrap();
    }
    loop {
        std::thread::sleep(std::time::Duration::from_millis(50));
    }
}

/// `sv-c13 burn-probe <seed> <tries>` (experiment, not part of `./check`): is the cut *between* the two writes of
/// `KeyStore::id_for` (`merge_keyspace(counter)`, `put_keyspace(name)`) reachable in the real store? A child allocates
/// ids for fresh names `n0, n1, …`; it is SIGKILLed at a random moment; the parent reopens the directory and asks
/// for `n0 … n(k-1)` (k = acknowledged), then for `n(k)` (the one in flight) and for one more fresh name.
/// `id(n(k)) = k+1` : cut before the merge or after the put (the two-way reading);
/// `id(n(k)) = k+2` : the counter was merged and the name not stored — id `k+1` is burnt (third shape of
/// `C13_crash_acknowledged_prefix_partial`). Prints one line per try and a summary.
pub fn burn_probe() {
    let a: Vec<String> = std::env::args().collect();
    let seed: u64 = a[2].parse().unwrap();
    let tries: u64 = a[3].parse().unwrap();
    let exe = std::env::current_exe().expect("current_exe");
    let mut rng = Rng::new(seed ^ 0xB0_2411);
    let (mut burnt, mut clean, mut other) = (0u64, 0u64, 0u64);
    for c in 0..tries {
        let n = 4000usize;
        let dir = scratch_dir(&format!("burn{}-{}", seed, c));
        let mut child = Command::new(&exe)
            .arg("burn-child")
            .arg(&dir)
            .arg(n.to_string())
            .stdout(Stdio::piped())
            .stderr(Stdio::null())
            .spawn()
            .expect("spawn child");
        let stdout = child.stdout.take().unwrap();
        let mut rd = BufReader::new(stdout);
        let kill_after = 1 + rng.below(200) as usize;
        let delay_us = rng.below(300);
        let mut outs: Vec<String> = vec![];
        let mut line = String::new();
        while outs.len() < kill_after {
            line.clear();
            if rd.read_line(&mut line).unwrap_or(0) == 0 {
                break;
            }
            outs.push(line.trim_end().to_string());
        }
        if delay_us > 0 {
            std::thread::sleep(std::time::Duration::from_micros(delay_us));
        }
        let _ = child.kill();
        loop {
            line.clear();
            if rd.read_line(&mut line).unwrap_or(0) == 0 {
                break;
            }
            if line.ends_with('\n') {
                outs.push(line.trim_end().to_string());
            }
        }
        let _ = child.wait();
        let k = outs.len().saturating_sub(1).min(n); // acknowledged id_for calls
        let mut sys = rocks_sys_at(dir.clone());
        let _ = sys.run(&format!("open 0 0 {}", URI_HEX));
        let mut stable = true;
        for i in 0..k {
            let r = sys.run(&format!("id 0 {}", hex(format!("n{}", i).as_bytes())));
            if r != format!("ok {}", i + 1) {
                stable = false;
            }
        }
        let r = sys.run(&format!("id 0 {}", hex(format!("n{}", k).as_bytes())));
        let verdict = if !stable {
            other += 1;
            "ACKED-ID-CHANGED"
        } else if r == format!("ok {}", k + 1) {
            clean += 1;
            "acked-or-inflight"
        } else if r == format!("ok {}", k + 2) {
            burnt += 1;
            "id-burnt"
        } else {
            other += 1;
            "OTHER"
        };
        println!("try {} acked={} id(inflight)={} {}", c, k, r, verdict);
        drop(sys);
        let _ = std::fs::remove_dir_all(&dir);
    }
    println!("summary tries={} acked-or-inflight={} id-burnt={} other={}", tries, clean, burnt, other);
}
