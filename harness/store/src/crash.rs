use crate::svh::Trace;
pub fn child() {}
pub fn explore(_t: &mut Trace, _seed: u64, _cases: u64) {}
