//! C13 correspondence: the real stores behind `swimos_api::persistence` driven op by op.
//!   sv-c13  (RocksDB)   gen <seed> <cases> <out> [rawid|crash]  |  replay <ops> <out>
//!   sv-c13m (in-memory) gen <seed> <cases> <out>                |  replay <ops> <out>
//! `rawid`: fabricated lane ids (model correspondence of the prefix extractor only); `crash`: SIGKILL exploration
//! (support only, see NOTES-C13.md).
//! RocksDB: `open_rocks_store(Some(dir), default_db_opts()).open_plane(p).node_store(uri)` (public API only);
//! in-memory: `swimos_server_app::verif::InMemoryPersistence` (hook re-export).
#[path = "../../core/src/lib.rs"]
#[allow(dead_code)]
mod svh;

use std::panic::{catch_unwind, AssertUnwindSafe};
use std::path::PathBuf;
use std::sync::Arc;
use std::task::{Context, Poll, Wake, Waker};

use bytes::BytesMut;
use futures::future::BoxFuture;
use svh::{hex, parse_args, unhex, Mode, Rng, Trace};
use swimos_api::error::StoreError;
use swimos_api::persistence::{NodePersistence, PlanePersistence, RangeConsumer, ServerPersistence};

struct Noop;
impl Wake for Noop {
    fn wake(self: Arc<Self>) {}
}

const SLOTS: usize = 8;
const PLANES: usize = 2;
const MARK: &[u8] = &[0xAA, 0x55];

fn err_kind(e: &StoreError) -> String {
    match e {
        StoreError::InvalidOperation => "err invalid-op".into(),
        StoreError::InitialisationFailure(_) => "err init".into(),
        StoreError::InvalidKey => "err invalid-key".into(),
        StoreError::KeyNotFound => "err key-not-found".into(),
        StoreError::KeyspaceNotFound => "err keyspace-not-found".into(),
        StoreError::Delegate(_) | StoreError::DelegateMessage(_) => "err delegate".into(),
        StoreError::Io(_) => "err io".into(),
        _ => "err other".into(),
    }
}

type NodeOf<S> = <<S as ServerPersistence>::PlaneStore as PlanePersistence>::Node;

enum Slot<N> {
    Empty,
    Live(N),
    Waiting(BoxFuture<'static, Result<N, StoreError>>),
}

struct Sys<S: ServerPersistence> {
    make: Box<dyn Fn() -> Option<S>>,
    can_reopen: bool,
    server: Option<S>,
    planes: Vec<Option<S::PlaneStore>>,
    slots: Vec<Slot<NodeOf<S>>>,
}

fn ascii(s: &str) -> Option<String> {
    let b = unhex(s)?;
    if b.iter().all(|c| *c < 128) {
        String::from_utf8(b).ok()
    } else {
        None
    }
}

fn slot_no(s: &str) -> Option<usize> {
    if !s.bytes().all(|c| c.is_ascii_digit()) {
        return None;
    }
    s.parse::<usize>().ok().filter(|n| *n < SLOTS)
}

fn id_no(s: &str) -> Option<u64> {
    if !s.bytes().all(|c| c.is_ascii_digit()) {
        return None;
    }
    s.parse::<u64>().ok()
}

/// `LaneId` is opaque behind `open_rocks_store`'s `impl ServerPersistence`; both stores use `u64`.
fn lane_id<L: Copy + 'static>(n: u64) -> L {
    *(&n as &dyn std::any::Any).downcast_ref::<L>().expect("LaneId is not u64")
}

fn lane_no<L: std::fmt::Debug>(l: L) -> String {
    format!("{:?}", l)
}

impl<S: ServerPersistence> Sys<S> {
    fn new(make: Box<dyn Fn() -> Option<S>>, can_reopen: bool) -> Self {
        let server = make();
        Sys {
            make,
            can_reopen,
            server,
            planes: (0..PLANES).map(|_| None).collect(),
            slots: (0..SLOTS).map(|_| Slot::Empty).collect(),
        }
    }

    fn poll_fut(
        fut: &mut BoxFuture<'static, Result<NodeOf<S>, StoreError>>,
    ) -> Poll<Result<NodeOf<S>, StoreError>> {
        let w = Waker::from(Arc::new(Noop));
        let mut cx = Context::from_waker(&w);
        fut.as_mut().poll(&mut cx)
    }

    fn live(&mut self, s: usize) -> Option<&mut NodeOf<S>> {
        match &mut self.slots[s] {
            Slot::Live(n) => Some(n),
            _ => None,
        }
    }

    fn unit(r: Result<(), StoreError>) -> String {
        match r {
            Ok(()) => "ok".into(),
            Err(e) => err_kind(&e),
        }
    }

    fn exec(&mut self, op: &str) -> String {
        let parts: Vec<&str> = op.split_whitespace().collect();
        match parts.as_slice() {
            ["open", s, p, uri] => {
                let (Some(s), Some(p), Some(uri)) = (slot_no(s), id_no(p), ascii(uri)) else {
                    return "bad-op".into();
                };
                if p as usize >= PLANES || !matches!(self.slots[s], Slot::Empty) {
                    return "bad-op".into();
                }
                let p = p as usize;
                if self.planes[p].is_none() {
                    let Some(server) = self.server.as_ref() else {
                        return "err no-server".into();
                    };
                    match server.open_plane(&format!("p{}", p)) {
                        Ok(pl) => self.planes[p] = Some(pl),
                        Err(e) => return err_kind(&e),
                    }
                }
                let mut fut = self.planes[p].as_ref().unwrap().node_store(&uri);
                match Self::poll_fut(&mut fut) {
                    Poll::Ready(Ok(n)) => {
                        self.slots[s] = Slot::Live(n);
                        "ready".into()
                    }
                    Poll::Ready(Err(e)) => err_kind(&e),
                    Poll::Pending => {
                        self.slots[s] = Slot::Waiting(fut);
                        "pending".into()
                    }
                }
            }
            ["poll", s] => {
                let Some(s) = slot_no(s) else { return "bad-op".into() };
                let r = match &mut self.slots[s] {
                    Slot::Waiting(fut) => Self::poll_fut(fut),
                    _ => return "bad-op".into(),
                };
                match r {
                    Poll::Ready(Ok(n)) => {
                        self.slots[s] = Slot::Live(n);
                        "ready".into()
                    }
                    Poll::Ready(Err(e)) => {
                        self.slots[s] = Slot::Empty;
                        err_kind(&e)
                    }
                    Poll::Pending => "pending".into(),
                }
            }
            ["drop", s] => {
                let Some(s) = slot_no(s) else { return "bad-op".into() };
                if matches!(self.slots[s], Slot::Empty) {
                    return "bad-op".into();
                }
                self.slots[s] = Slot::Empty;
                "ok".into()
            }
            ["reopen"] => {
                if !self.can_reopen {
                    return "bad-op".into();
                }
                for s in self.slots.iter_mut() {
                    *s = Slot::Empty;
                }
                for p in self.planes.iter_mut() {
                    *p = None;
                }
                self.server = None;
                self.server = (self.make)();
                if self.server.is_some() {
                    "ok".into()
                } else {
                    "err reopen-failed".into()
                }
            }
            ["id", s, name] => {
                let (Some(s), Some(name)) = (slot_no(s), ascii(name)) else { return "bad-op".into() };
                let Some(n) = self.live(s) else { return "bad-op".into() };
                match n.id_for(&name) {
                    Ok(id) => format!("ok {}", lane_no(id)),
                    Err(e) => err_kind(&e),
                }
            }
            ["get", s, id] => {
                let (Some(s), Some(id)) = (slot_no(s), id_no(id)) else { return "bad-op".into() };
                let Some(n) = self.live(s) else { return "bad-op".into() };
                let mut buf = BytesMut::new();
                buf.extend_from_slice(MARK);
                match n.get_value(lane_id(id), &mut buf) {
                    Ok(Some(k)) => {
                        if buf.len() == MARK.len() + k && &buf[..MARK.len()] == MARK {
                            format!("some {}", hex(&buf[MARK.len()..]))
                        } else {
                            format!("some-inconsistent n={} buf={}", k, hex(&buf))
                        }
                    }
                    Ok(None) => {
                        if &buf[..] == MARK {
                            "none".into()
                        } else {
                            format!("none-but-buffer-changed {}", hex(&buf))
                        }
                    }
                    Err(e) => err_kind(&e),
                }
            }
            ["put", s, id, v] => {
                let (Some(s), Some(id), Some(v)) = (slot_no(s), id_no(id), unhex(v)) else { return "bad-op".into() };
                let Some(n) = self.live(s) else { return "bad-op".into() };
                Self::unit(n.put_value(lane_id(id), &v))
            }
            ["del", s, id] => {
                let (Some(s), Some(id)) = (slot_no(s), id_no(id)) else { return "bad-op".into() };
                let Some(n) = self.live(s) else { return "bad-op".into() };
                Self::unit(n.delete_value(lane_id(id)))
            }
            ["upd", s, id, k, v] => {
                let (Some(s), Some(id), Some(k), Some(v)) = (slot_no(s), id_no(id), unhex(k), unhex(v)) else {
                    return "bad-op".into();
                };
                let Some(n) = self.live(s) else { return "bad-op".into() };
                Self::unit(n.update_map(lane_id(id), &k, &v))
            }
            ["rem", s, id, k] => {
                let (Some(s), Some(id), Some(k)) = (slot_no(s), id_no(id), unhex(k)) else { return "bad-op".into() };
                let Some(n) = self.live(s) else { return "bad-op".into() };
                Self::unit(n.remove_map(lane_id(id), &k))
            }
            ["clr", s, id] => {
                let (Some(s), Some(id)) = (slot_no(s), id_no(id)) else { return "bad-op".into() };
                let Some(n) = self.live(s) else { return "bad-op".into() };
                Self::unit(n.clear_map(lane_id(id)))
            }
            ["read", s, id] => {
                let (Some(s), Some(id)) = (slot_no(s), id_no(id)) else { return "bad-op".into() };
                let Some(n) = self.live(s) else { return "bad-op".into() };
                let mut con = match n.read_map(lane_id(id)) {
                    Ok(c) => c,
                    Err(e) => return err_kind(&e),
                };
                let mut es: Vec<String> = vec![];
                loop {
                    match con.consume_next() {
                        Ok(Some((k, v))) => es.push(format!("{}={}", hex(k), hex(v))),
                        Ok(None) => break,
                        Err(e) => return err_kind(&e),
                    }
                }
                if es.is_empty() {
                    "map .".into()
                } else {
                    format!("map {}", es.join(","))
                }
            }
            _ => "bad-op".into(),
        }
    }

    fn exec_guarded(&mut self, op: &str) -> String {
        match catch_unwind(AssertUnwindSafe(|| self.exec(op))) {
            Ok(s) => s,
            Err(_) => "panic".into(),
        }
    }
}

// ------------------------------------------------------------------------------------------------ engines

#[derive(Clone, Copy, PartialEq, Eq, Debug)]
pub enum Engine {
    Rocks,
    InMem,
    RawId,
}

pub(crate) fn scratch_dir(tag: &str) -> PathBuf {
    let base = std::env::var("SV_C13_TMP").unwrap_or_else(|_| "/tmp/C13".to_string());
    let d = PathBuf::from(base).join(format!("{}-{}", std::process::id(), tag));
    let _ = std::fs::remove_dir_all(&d);
    std::fs::create_dir_all(&d).expect("scratch dir");
    d
}

pub trait Exec {
    fn run(&mut self, op: &str) -> String;
}
impl<S: ServerPersistence> Exec for Sys<S> {
    fn run(&mut self, op: &str) -> String {
        self.exec_guarded(op)
    }
}

pub fn open_rocks(dir: PathBuf) -> Option<impl ServerPersistence> {
    swimos_rocks_store::open_rocks_store(Some(dir), swimos_rocks_store::default_db_opts()).ok()
}

pub(crate) fn rocks_sys_at(dir: PathBuf) -> impl Exec {
    rocks_sys(dir)
}

fn rocks_sys(dir: PathBuf) -> impl Exec {
    Sys::new(Box::new(move || open_rocks(dir.clone())), true)
}

fn inmem_sys() -> impl Exec {
    Sys::new(
        Box::new(|| Some(swimos_server_app::verif::InMemoryPersistence::default())),
        false,
    )
}

fn with_sys<R>(engine: Engine, tag: &str, f: impl FnOnce(&mut dyn Exec) -> R) -> R {
    match engine {
        Engine::InMem => {
            let mut s = inmem_sys();
            f(&mut s)
        }
        Engine::Rocks | Engine::RawId => {
            let dir = scratch_dir(tag);
            let r = {
                let mut s = rocks_sys(dir.clone());
                f(&mut s)
            };
            let _ = std::fs::remove_dir_all(&dir);
            r
        }
    }
}

// ------------------------------------------------------------------------------------------------ generator

const URIS: &[&str] = &["/a", "/a/b", "/a/", "", "/", "a", "/b", "/a//", "/a\0", "/a/b/c"];
const LANES_SLASH: &[&str] = &["b/c", "c", "/b/c", "", "/", "b", "/c", "b/", "/b", "a/b/c"];
const LANES_PLAIN: &[&str] = &["c", "", "b", "x", "counter", "\0", "lane", "c ", "\x7f"];

fn gen_key(rng: &mut Rng, id_hint: u64) -> Vec<u8> {
    match rng.below(14) {
        0 => vec![],
        1 => vec![0x00],
        2 => vec![0xff],
        3 => vec![0x00, 0x00],
        4 => vec![0x01],
        5 => vec![0x01, 0x00],
        6 => vec![0x01, 0x00, 0x00],
        7 => vec![0x02],
        8 => {
            // looks like an encoded map-key prefix of some lane
            let mut k = vec![1u8];
            k.extend_from_slice(&id_hint.to_le_bytes());
            k.push(*rng.pick(&[1u8, 2u8]));
            k
        }
        9 => {
            // lengths around the key prefix size / extractor width
            let n = *rng.pick(&[7usize, 8, 9, 10, 17, 18, 19, 255, 256, 257]);
            let b = *rng.pick(&[0x00u8, 0xff, 0x01, 0x61]);
            vec![b; n]
        }
        10 => vec![0xff, 0xff],
        11 => vec![0x00, 0xff],
        _ => {
            let n = rng.below(4) as usize + 1;
            (0..n).map(|_| *rng.pick(&[0u8, 1, 2, 0x61, 0x62, 0xfe, 0xff])).collect()
        }
    }
}

fn gen_val(rng: &mut Rng) -> Vec<u8> {
    match rng.below(6) {
        0 => vec![],
        1 => vec![0],
        _ => {
            let n = rng.below(5) as usize + 1;
            (0..n).map(|_| rng.below(256) as u8).collect()
        }
    }
}

#[derive(Clone, PartialEq)]
enum GSlot {
    Empty,
    Live(u64, String),
    Waiting(u64, String),
}

struct Gen {
    engine: Engine,
    slots: Vec<GSlot>,
    ids: Vec<u64>,       // ids seen so far (any scope)
    prone: bool,         // names with `/` in the item name (F10 class reachable)
    allow_lost: bool,    // may cancel a pending open that already owns the state
    nslots: u64,
}

impl Gen {
    fn pick_id(&self, rng: &mut Rng) -> u64 {
        let base = if !self.ids.is_empty() && rng.chance(9, 10) {
            *rng.pick(&self.ids)
        } else {
            rng.below(5)
        };
        if self.engine == Engine::RawId && rng.chance(1, 2) {
            match rng.below(8) {
                0 => base | (1 << 56),
                1 => base | (2 << 56),
                2 => base | (1 << 63),
                3 => u64::MAX,
                4 => base << 8,
                5 => base | (1 << 55),
                6 => (base << 56) | 1,
                _ => base | (0xff << 56),
            }
        } else {
            base
        }
    }

    fn live_slots(&self) -> Vec<usize> {
        (0..self.slots.len()).filter(|i| matches!(self.slots[*i], GSlot::Live(..))).collect()
    }

    fn next_op(&mut self, rng: &mut Rng) -> String {
        let live = self.live_slots();
        let r = rng.below(100);
        // malformed / disabled ops
        if r < 3 {
            return match rng.below(8) {
                0 => "put 9 1 00".into(),
                1 => "get 0 xyz".into(),
                2 => "upd 0 1 0g 00".into(),
                3 => "open 0 7 2f61".into(),
                4 => format!("poll {}", rng.below(self.nslots)),
                5 => "id 0 c3a9".into(),
                6 => "read 0 18446744073709551616".into(),
                _ => format!("get {} 1", rng.below(self.nslots)),
            };
        }
        if live.is_empty() || r < 10 {
            // open
            let s = rng.below(self.nslots);
            let p = if rng.chance(1, 6) { 1 } else { 0 };
            let pool = if rng.chance(3, 4) { &URIS[..4] } else { URIS };
            let uri = *rng.pick(pool);
            return format!("open {} {} {}", s, p, hex(uri.as_bytes()));
        }
        if r < 16 {
            // drop / poll
            let s = rng.below(self.nslots) as usize;
            match &self.slots[s] {
                GSlot::Waiting(p, u) => {
                    let held = self.slots.iter().any(|x| *x == GSlot::Live(*p, u.clone()));
                    if rng.chance(2, 3) || !(held || self.allow_lost) {
                        return format!("poll {}", s);
                    }
                    return format!("drop {}", s);
                }
                _ => return format!("drop {}", s),
            }
        }
        if self.engine != Engine::InMem && r < 20 {
            return "reopen".into();
        }
        if self.engine == Engine::InMem && r < 19 {
            let waiting: Vec<usize> =
                (0..self.slots.len()).filter(|i| matches!(self.slots[*i], GSlot::Waiting(..))).collect();
            if !waiting.is_empty() {
                return format!("poll {}", rng.pick(&waiting));
            }
        }
        let s = *rng.pick(&live);
        let id = self.pick_id(rng);
        if r < 32 {
            let lanes = if self.prone { LANES_SLASH } else { LANES_PLAIN };
            return format!("id {} {}", s, hex(rng.pick(lanes).as_bytes()));
        }
        // value-ish or map-ish use of an id, mostly consistent per id (odd ids: values), sometimes mixed
        let as_value = if rng.chance(1, 8) { rng.chance(1, 2) } else { id % 2 == 1 };
        if as_value {
            match rng.below(10) {
                0..=3 => format!("put {} {} {}", s, id, hex(&gen_val(rng))),
                4..=7 => format!("get {} {}", s, id),
                _ => format!("del {} {}", s, id),
            }
        } else {
            match rng.below(20) {
                0..=8 => format!("upd {} {} {} {}", s, id, hex(&gen_key(rng, id)), hex(&gen_val(rng))),
                9..=11 => format!("rem {} {} {}", s, id, hex(&gen_key(rng, id))),
                12 => format!("clr {} {}", s, id),
                _ => format!("read {} {}", s, id),
            }
        }
    }

    fn observe(&mut self, op: &str, out: &str) {
        let parts: Vec<&str> = op.split_whitespace().collect();
        match (parts.as_slice(), out) {
            (["open", s, p, uri], "ready") => {
                self.slots[s.parse::<usize>().unwrap()] =
                    GSlot::Live(p.parse().unwrap(), String::from_utf8(unhex(uri).unwrap()).unwrap())
            }
            (["open", s, p, uri], "pending") => {
                self.slots[s.parse::<usize>().unwrap()] =
                    GSlot::Waiting(p.parse().unwrap(), String::from_utf8(unhex(uri).unwrap()).unwrap())
            }
            (["poll", s], "ready") => {
                if let Some(i) = slot_no(s) {
                    if let GSlot::Waiting(p, u) = self.slots[i].clone() {
                        self.slots[i] = GSlot::Live(p, u);
                    }
                }
            }
            (["poll", s], o) if o.starts_with("err") => {
                if let Some(i) = slot_no(s) {
                    self.slots[i] = GSlot::Empty;
                }
            }
            (["drop", s], "ok") => self.slots[s.parse::<usize>().unwrap()] = GSlot::Empty,
            (["reopen"], "ok") => {
                for s in self.slots.iter_mut() {
                    *s = GSlot::Empty;
                }
            }
            (["id", _, _], o) => {
                if let Some(n) = o.strip_prefix("ok ").and_then(|n| n.parse::<u64>().ok()) {
                    if !self.ids.contains(&n) {
                        self.ids.push(n);
                    }
                }
            }
            _ => {}
        }
    }
}

fn gen_case(t: &mut Trace, engine: Engine, rng: &mut Rng, tag: &str) {
    let len = rng.range(8, 70);
    let mut g = Gen {
        engine,
        slots: vec![GSlot::Empty; SLOTS],
        ids: vec![],
        prone: rng.chance(1, 6),
        allow_lost: rng.chance(1, 12),
        nslots: rng.range(2, 4),
    };
    with_sys(engine, tag, |sys| {
        for _ in 0..len {
            let op = g.next_op(rng);
            let out = sys.run(&op);
            g.observe(&op, &out);
            t.op(&op, &out);
        }
    });
}

fn replay_case(t: &mut Trace, engine: Engine, ops: &[String], tag: &str) {
    with_sys(engine, tag, |sys| {
        for op in ops {
            let out = sys.run(op);
            t.op(op, out);
        }
    });
}

/// All sequences over {open s, poll s, drop s | s in 0..3} of length `depth` on one URI, after
/// `open 0; id; put` and followed by a read of the value through every slot (small-scope exhaustive).
fn exhaustive_handover(t: &mut Trace, engine: Engine, depth: usize, shard: u64, nshards: u64) {
    let uri = "2f61";
    let mut alphabet: Vec<String> = vec![];
    for s in 0..3 {
        alphabet.push(format!("open {} 0 {}", s, uri));
        alphabet.push(format!("poll {}", s));
        alphabet.push(format!("drop {}", s));
    }
    let k = alphabet.len();
    let mut idx = vec![0usize; depth];
    let mut count = 0u64;
    loop {
        if count % nshards == shard {
            let mut ops: Vec<String> = vec![format!("open 0 0 {}", uri), "id 0 63".into(), "put 0 0 aa".into()];
            ops.extend(idx.iter().map(|&j| alphabet[j].clone()));
            for s in 0..3 {
                ops.push(format!("poll {}", s));
            }
            for s in 0..3 {
                ops.push(format!("get {} 0", s));
            }
            t.case(format!("exh depth={} #{}", depth, count));
            replay_case(t, engine, &ops, &format!("x{}-{}", shard, count));
        }
        count += 1;
        let mut p = depth;
        loop {
            if p == 0 {
                return;
            }
            p -= 1;
            idx[p] += 1;
            if idx[p] < k {
                break;
            }
            idx[p] = 0;
        }
    }
}

fn engine_of(s: &str) -> Option<Engine> {
    match s {
        "rocks" => Some(Engine::Rocks),
        "inmem" => Some(Engine::InMem),
        "rawid" => Some(Engine::RawId),
        _ => None,
    }
}

pub mod crash;

pub fn main_for(default_engine: Engine) {
    let extra: Vec<String> = std::env::args().skip(5).collect();
    if std::env::args().nth(1).as_deref() == Some("crash-child") {
        crash::child();
        return;
    }
    if std::env::args().nth(1).as_deref() == Some("burn-child") {
        crash::burn_child();
        return;
    }
    if std::env::args().nth(1).as_deref() == Some("burn-probe") {
        crash::burn_probe();
        return;
    }
    match parse_args() {
        Mode::Gen { seed, cases, out } => {
            let mut t = Trace::create(&out);
            if extra.first().map(|s| s.as_str()) == Some("crash") {
                crash::explore(&mut t, seed, cases);
                t.finish();
                return;
            }
            if extra.first().map(|s| s.as_str()) == Some("exhaustive") {
                // exhaustive <depth> <nshards>: every hand-over choreography of 3 slots on one URI up to <depth>
                let depth: usize = extra[1].parse().unwrap();
                let nshards: u64 = extra.get(2).map(|s| s.parse().unwrap()).unwrap_or(1);
                exhaustive_handover(&mut t, default_engine, depth, seed % 1000, nshards);
                t.finish();
                return;
            }
            let engine = extra.first().and_then(|s| engine_of(s)).unwrap_or(default_engine);
            let mut rng = Rng::new(seed);
            for c in 0..cases {
                t.case(format!("{} seed={} engine={:?}", c, seed, engine));
                gen_case(&mut t, engine, &mut rng, &format!("g{}-{}", seed, c));
            }
            t.finish();
        }
        Mode::Replay { ops, out } => {
            let mut t = Trace::create(&out);
            for (i, case) in ops.iter().enumerate() {
                t.case(format!("{} engine={:?}", i, default_engine));
                replay_case(&mut t, default_engine, case, &format!("r{}", i));
            }
            t.finish();
        }
    }
}
