fn main() {
    svh_store::main_for(svh_store::Engine::InMem)
}
