//! C18 (plane level): the real `PlaneBuilder` / `PlaneModel::check_meta_collisions` / `ServerBuilder::build` and the
//! route table of a running server (`Routes::from_iter` + `register_introspection` + `Routes::find_route`, through the
//! `verif_hooks` re-export `swimos_server_app::verif::RouteTable`).
//!   sv-c18p gen <seed> <cases> <out> | replay <ops> <out>
//! Every string travels as the hex of its UTF-8 bytes; a table `T` is `.` or `hex,hex,...` (pattern texts in
//! registration order). See `lean/SwimVerif/Model/RoutePlane.lean` for the ops.
#[path = "../../../core/src/lib.rs"]
#[allow(dead_code)]
mod svh;

use std::collections::HashMap;
use std::panic::{catch_unwind, AssertUnwindSafe};

use futures::future::BoxFuture;
use svh::{hex, parse_args, unhex, Mode, Rng, Trace};
use swimos_api::agent::{Agent, AgentConfig, AgentContext, AgentInitResult};
use swimos_route::{RoutePattern, RouteUri};
use swimos_server_app::verif::{PlaneBuilder, PlaneModel, RouteTable};
use swimos_server_app::{AmbiguousRoutes, IntrospectionConfig, ServerBuilder, ServerBuilderError};

struct DummyAgent;

impl Agent for DummyAgent {
    fn run(
        &self,
        _route: RouteUri,
        _route_params: HashMap<String, String>,
        _config: AgentConfig,
        _context: Box<dyn AgentContext + Send>,
    ) -> BoxFuture<'static, AgentInitResult> {
        panic!("Not runnable.");
    }
}

fn arg(s: &str) -> Option<String> {
    String::from_utf8(unhex(s)?).ok()
}

fn table_arg(s: &str) -> Option<Vec<String>> {
    if s == "." {
        return Some(vec![]);
    }
    s.split(',').map(arg).collect()
}

fn parse_all(texts: &[String]) -> Option<Vec<RoutePattern>> {
    texts.iter().map(|t| RoutePattern::parse_str(t).ok()).collect()
}

fn render_pats(ps: &[RoutePattern]) -> String {
    if ps.is_empty() {
        return ".".into();
    }
    ps.iter().map(|p| hex(p.to_string().as_bytes())).collect::<Vec<_>>().join(",")
}

fn render_kv(m: &HashMap<String, String>) -> String {
    if m.is_empty() {
        return ".".into();
    }
    let mut es: Vec<(&String, &String)> = m.iter().collect();
    es.sort();
    es.iter()
        .map(|(k, v)| format!("{}={}", hex(k.as_bytes()), hex(v.as_bytes())))
        .collect::<Vec<_>>()
        .join(",")
}

fn render_amb(e: &AmbiguousRoutes) -> String {
    match e {
        AmbiguousRoutes::Overlapping { routes } => format!("overlap {}", render_pats(routes)),
        AmbiguousRoutes::MetaCollision { meta_routes, routes } => {
            format!("coll {} {}", render_pats(meta_routes), render_pats(routes))
        }
    }
}

fn plane_builder(pats: &[RoutePattern]) -> PlaneBuilder {
    let mut b = PlaneBuilder::with_name("plane");
    for p in pats {
        b.add_route(p.clone(), DummyAgent);
    }
    b
}

/// What `ServerBuilder::build` does with the routes: `plane.build()?` and, with introspection,
/// `routes.check_meta_collisions()?`.
fn accept(pats: &[RoutePattern], introspection: bool) -> Result<PlaneModel, String> {
    let model = plane_builder(pats).build().map_err(|e| render_amb(&e))?;
    if introspection {
        model.check_meta_collisions().map_err(|e| render_amb(&e))?;
    }
    Ok(model)
}

fn flag(s: &str) -> Option<bool> {
    match s {
        "0" => Some(false),
        "1" => Some(true),
        _ => None,
    }
}

fn exec_inner(op: &str) -> String {
    let parts: Vec<&str> = op.split_whitespace().collect();
    match parts.as_slice() {
        ["build", t] => {
            let Some(texts) = table_arg(t) else { return "bad-op".into() };
            let Some(pats) = parse_all(&texts) else { return "badpat".into() };
            match accept(&pats, false) {
                Ok(_) => "ok".into(),
                Err(e) => e,
            }
        }
        ["meta", t] => {
            let Some(texts) = table_arg(t) else { return "bad-op".into() };
            let Some(pats) = parse_all(&texts) else { return "badpat".into() };
            match accept(&pats, true) {
                Ok(_) => "ok".into(),
                Err(e) => e,
            }
        }
        ["srv", i, t] => {
            let (Some(intro), Some(texts)) = (flag(i), table_arg(t)) else { return "bad-op".into() };
            let Some(pats) = parse_all(&texts) else { return "badpat".into() };
            let mut b = ServerBuilder::with_plane_name("plane");
            for p in &pats {
                b = b.add_route(p.clone(), DummyAgent);
            }
            if intro {
                b = b.enable_introspection();
            }
            // everything after the route checks (resolver, TLS provider, store) is irrelevant here: any outcome
            // other than `BadRoutes` means the routes were accepted
            match futures::executor::block_on(b.build()) {
                Err(ServerBuilderError::BadRoutes(e)) => render_amb(&e),
                _ => "ok".into(),
            }
        }
        ["find", i, t, u] => {
            let (Some(intro), Some(texts), Some(u)) = (flag(i), table_arg(t), arg(u)) else {
                return "bad-op".into();
            };
            let Some(pats) = parse_all(&texts) else { return "badpat".into() };
            let model = match accept(&pats, intro) {
                Ok(m) => m,
                Err(e) => return e,
            };
            let table = RouteTable::new(model, if intro { Some(IntrospectionConfig::default()) } else { None });
            let Ok(uri) = u.parse::<RouteUri>() else { return "baduri".into() };
            let rows = table.patterns();
            let all: Vec<String> = rows
                .iter()
                .enumerate()
                .filter(|(_, p)| p.unapply_route_uri(&uri).is_ok())
                .map(|(i, p)| format!("{}:{}", i, hex(p.to_string().as_bytes())))
                .collect();
            let all = if all.is_empty() { ".".to_string() } else { all.join(",") };
            match table.find_route(&uri) {
                Some((i, kv)) => format!("hit {} {} all {} of {}", i, render_kv(&kv), all, rows.len()),
                None => format!("none all {} of {}", all, rows.len()),
            }
        }
        _ => "bad-op".into(),
    }
}

fn exec(op: &str) -> String {
    catch_unwind(AssertUnwindSafe(|| exec_inner(op))).unwrap_or_else(|_| "panic".into())
}

fn run_case(t: &mut Trace, ops: &[String]) {
    for op in ops {
        let o = exec(op);
        t.op(op, o);
    }
}

// ------------------------------------------------------------------------------------------- generator

/// Small alphabets, so that overlaps between the rows (and with the meta-agent routes) are frequent.
const LITS: &[&str] = &[
    "a", "b", "unit", "lane", "node", "meta:node", "meta:mesh", "meta:lane", "meta%3Anode", "met%61:node", "l%61ne",
    "%6Cane", "a%62", "ab", "x:y", "é", "%C3%A9", "meta:host", "pulse", "uplink", "1",
];
const NAMES: &[&str] = &["id", "x", "y", "z", "node_uri", "lane_name", "a", "b", "c", "é"];
const SCHEMES: &[&str] = &["swimos", "swim", "warp", "a"];
const VALUES: &[&str] = &[
    "x", "1", "unit/foo", "unit%2Ffoo", "pulse", "lane", "meta:node", "meta:mesh", "a b", "é", "a/b/lane/c", "ab",
    "a%62", "node", "%", "~",
];
const META: &[&str] = &["swimos:meta:mesh", "swimos:meta:node/:node_uri", "swimos:meta:node/:node_uri/lane/:lane_name"];
const BAD_PATTERNS: &[&str] = &["", "/", "//", "/a/", "/:", "/:x/:x", "a:/b//", ":x:"];

#[derive(Clone, Debug)]
enum S {
    Lit(String),
    Par(String),
}

#[derive(Clone, Debug)]
struct P {
    scheme: Option<String>,
    absolute: bool,
    segs: Vec<S>,
}

impl P {
    fn text(&self) -> String {
        let mut s = String::new();
        if let Some(sc) = &self.scheme {
            s.push_str(sc);
            s.push(':');
        }
        for (i, seg) in self.segs.iter().enumerate() {
            if i > 0 || self.absolute {
                s.push('/');
            }
            match seg {
                S::Lit(l) => s.push_str(l),
                S::Par(n) => {
                    s.push(':');
                    s.push_str(n);
                }
            }
        }
        s
    }
}

fn fresh_name(rng: &mut Rng, used: &mut Vec<String>) -> String {
    let mut n = rng.pick(NAMES).to_string();
    while used.contains(&n) {
        n.push(char::from(b'0' + rng.below(10) as u8));
    }
    used.push(n.clone());
    n
}

fn gen_pattern(rng: &mut Rng) -> P {
    let nseg = match rng.below(10) {
        0..=2 => 1,
        3..=5 => 2,
        6 => 3,
        _ => 4,
    };
    let mut used = vec![];
    let mut segs = vec![];
    for _ in 0..nseg {
        if rng.chance(1, 2) {
            segs.push(S::Par(fresh_name(rng, &mut used)));
        } else {
            segs.push(S::Lit(rng.pick(LITS).to_string()));
        }
    }
    let scheme = if rng.chance(1, 3) { Some(rng.pick(SCHEMES).to_string()) } else { None };
    let mut p = P { scheme, absolute: rng.chance(1, 2), segs };
    fix_first(&mut p);
    p
}

/// A relative pattern without scheme whose first literal contains ':' after a letter would read as `scheme:`.
fn fix_first(p: &mut P) {
    if p.scheme.is_none() && !p.absolute {
        if let Some(S::Lit(l)) = p.segs.first() {
            if l.contains(':') {
                p.scheme = Some("swimos".into());
            }
        }
    }
}

fn parse_p(text: &str) -> P {
    // only used on the three meta patterns (`scheme:seg/seg/...`, relative)
    let (scheme, rest) = text.split_once(':').unwrap();
    let segs = rest
        .split('/')
        .map(|s| if let Some(n) = s.strip_prefix(':') { S::Par(n.to_string()) } else { S::Lit(s.to_string()) })
        .collect();
    P { scheme: Some(scheme.to_string()), absolute: false, segs }
}

/// A user route derived from a meta-agent route: parameters renamed, literals turned into parameters or re-spelled,
/// scheme / absoluteness changed, one segment more or less.
fn near_meta(rng: &mut Rng) -> P {
    let mut p = parse_p(*rng.pick(META));
    let mut used = vec![];
    for _ in 0..rng.range(1, 3) {
        let n = p.segs.len();
        let i = rng.below(n as u64) as usize;
        match rng.below(8) {
            0 | 1 => p.segs[i] = S::Par(fresh_name(rng, &mut used)),
            2 => {
                if let S::Lit(l) = &p.segs[i] {
                    p.segs[i] = S::Lit(pct_variant(rng, l));
                }
            }
            3 => p.segs[i] = S::Lit(rng.pick(LITS).to_string()),
            4 => p.scheme = if rng.chance(1, 2) { None } else { Some(rng.pick(SCHEMES).to_string()) },
            5 => p.absolute = !p.absolute,
            6 => {
                if n > 1 && rng.chance(1, 2) {
                    p.segs.pop();
                } else {
                    p.segs.push(S::Lit(rng.pick(LITS).to_string()));
                }
            }
            _ => {
                for s in p.segs.iter_mut() {
                    if matches!(s, S::Lit(_)) && rng.chance(1, 2) {
                        *s = S::Par(fresh_name(rng, &mut used));
                    }
                }
            }
        }
    }
    // renaming keeps names distinct
    let mut seen: Vec<String> = vec![];
    for s in p.segs.iter_mut() {
        if let S::Par(n) = s {
            while seen.contains(n) {
                n.push('2');
            }
            seen.push(n.clone());
        }
    }
    fix_first(&mut p);
    p
}

fn pct_variant(rng: &mut Rng, s: &str) -> String {
    let bs = s.as_bytes();
    if bs.is_empty() {
        return s.to_string();
    }
    let i = rng.below(bs.len() as u64) as usize;
    let mut out: Vec<u8> = bs[..i].to_vec();
    let h = if rng.chance(1, 2) { format!("%{:02X}", bs[i]) } else { format!("%{:02x}", bs[i]) };
    out.extend_from_slice(h.as_bytes());
    out.extend_from_slice(&bs[i + 1..]);
    String::from_utf8(out).unwrap_or_else(|_| s.to_string())
}

/// A URI that the pattern is meant to match: through the real `apply` with values from the small alphabet, sometimes
/// with the scheme dropped / replaced or a literal re-spelled by hand.
fn synth_uri(rng: &mut Rng, text: &str) -> Option<String> {
    let pat = RoutePattern::parse_str(text).ok()?;
    let m: HashMap<String, String> =
        pat.parameters().map(|n| (n.to_string(), rng.pick(VALUES).to_string())).collect();
    let mut route = pat.apply(&m).ok()?;
    match rng.below(12) {
        0 => {
            if let Some((_, rest)) = route.clone().split_once(':') {
                route = rest.to_string();
            }
        }
        1 => route = format!("swimos:{}", route),
        2 => route.push_str("/lane/pulse"),
        3 => route.push_str("?q"),
        4 => route = pct_variant(rng, &route),
        _ => {}
    }
    Some(route)
}

fn h(s: &str) -> String {
    hex(s.as_bytes())
}

fn table_text(ts: &[String]) -> String {
    if ts.is_empty() {
        ".".into()
    } else {
        ts.iter().map(|t| h(t)).collect::<Vec<_>>().join(",")
    }
}

fn gen_case(rng: &mut Rng) -> Vec<String> {
    let mut ops = vec![];
    let n = match rng.below(12) {
        0 => 0,
        1..=4 => 1,
        5..=8 => 2,
        9..=10 => 3,
        _ => 4,
    };
    let mut texts: Vec<String> = vec![];
    for _ in 0..n {
        let t = match rng.below(20) {
            0..=7 => near_meta(rng).text(),
            8 => rng.pick(META).to_string(),
            9 if !texts.is_empty() => rng.pick(&texts).clone(),
            10 if rng.chance(1, 4) => rng.pick(BAD_PATTERNS).to_string(),
            _ => gen_pattern(rng).text(),
        };
        texts.push(t);
    }
    let tt = table_text(&texts);
    ops.push(format!("build {}", tt));
    ops.push(format!("meta {}", tt));
    if rng.chance(1, 3) {
        ops.push(format!("srv {} {}", rng.below(2), tt));
    }
    let mut uris: Vec<String> = vec![];
    for t in texts.iter().map(|s| s.as_str()).chain(META.iter().copied()) {
        if rng.chance(2, 3) {
            if let Some(u) = synth_uri(rng, t) {
                uris.push(u);
            }
        }
    }
    if rng.chance(1, 6) {
        uris.push(rng.pick(&["swimos:meta:mesh", "meta:mesh", "swimos:meta:node/unit%2Ffoo/lane/pulse", "", "/", "a b"]).to_string());
    }
    for u in &uris {
        let i = if rng.chance(2, 3) { 1 } else { 0 };
        ops.push(format!("find {} {} {}", i, tt, h(u)));
        if rng.chance(1, 5) {
            ops.push(format!("find {} {} {}", 1 - i, tt, h(u)));
        }
    }
    ops
}

fn main() {
    // the panics of `catch_unwind`-wrapped calls are outcomes, not noise
    std::panic::set_hook(Box::new(|_| {}));
    match parse_args() {
        Mode::Gen { seed, cases, out } => {
            let mut t = Trace::create(&out);
            let mut rng = Rng::new(seed);
            for c in 0..cases {
                let ops = gen_case(&mut rng);
                t.case(format!("{} seed={}", c, seed));
                run_case(&mut t, &ops);
            }
            t.finish();
        }
        Mode::Replay { ops, out } => {
            let mut t = Trace::create(&out);
            for (i, case) in ops.iter().enumerate() {
                t.case(i);
                run_case(&mut t, case);
            }
            t.finish();
        }
    }
}
