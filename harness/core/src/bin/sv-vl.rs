//! C01/C03 agent side: the REAL `ValueLane<i32>` (set / sync / write_to_buffer), frames decoded with the real
//! lane response decoder.
use bytes::BytesMut;
use svh::{parse_args, Mode, Rng, Trace};
use swimos_agent::agent_model::WriteResult;
use swimos_agent::lanes::{LaneItem, ValueLane};
use swimos_agent::verif::lanes::{value_set, value_sync};
use swimos_agent_protocol::encoding::lane::RawValueLaneResponseDecoder;
use swimos_agent_protocol::LaneResponse;
use tokio_util::codec::Decoder;
use uuid::Uuid;

fn exec(lane: &ValueLane<i32>, op: &str) -> String {
    let p: Vec<&str> = op.split_whitespace().collect();
    match p.as_slice() {
        ["set", v] => {
            value_set(lane, v.parse().unwrap());
            "ok".into()
        }
        ["sync", r] => {
            value_sync(lane, Uuid::from_u128(r.parse::<u128>().unwrap()));
            "ok".into()
        }
        ["write"] => {
            let mut buf = BytesMut::new();
            let res = match lane.write_to_buffer(&mut buf) {
                WriteResult::Done => "done",
                WriteResult::DataStillAvailable => "more",
                WriteResult::NoData => "nodata",
                WriteResult::RequiresEvent => "requires-event",
            };
            let mut dec = RawValueLaneResponseDecoder::default();
            let mut frames = vec![];
            loop {
                match dec.decode(&mut buf) {
                    Ok(Some(LaneResponse::StandardEvent(b))) => {
                        frames.push(format!("ev:{}", String::from_utf8_lossy(b.as_ref())))
                    }
                    Ok(Some(LaneResponse::SyncEvent(id, b))) => {
                        frames.push(format!("sync:{}:{}", id.as_u128(), String::from_utf8_lossy(b.as_ref())))
                    }
                    Ok(Some(LaneResponse::Synced(id))) => frames.push(format!("synced:{}", id.as_u128())),
                    Ok(Some(LaneResponse::Initialized)) => frames.push("initialized".into()),
                    Ok(None) => break,
                    Err(_) => {
                        frames.push("decode-error".into());
                        break;
                    }
                }
            }
            if !buf.is_empty() {
                frames.push("trailing-bytes".into());
            }
            format!("{} {}", res, if frames.is_empty() { "-".to_string() } else { frames.join(",") })
        }
        _ => "bad-op".into(),
    }
}

fn run_case(t: &mut Trace, ops: &[String]) {
    let mut lane: Option<ValueLane<i32>> = None;
    for op in ops {
        if op == "new" {
            lane = Some(ValueLane::new(0, 0));
            t.op(op, "ok");
        } else if let Some(l) = lane.as_ref() {
            t.op(op, exec(l, op));
        } else {
            t.op(op, "bad-op");
        }
    }
}

fn main() {
    match parse_args() {
        Mode::Gen { seed, cases, out } => {
            let mut t = Trace::create(&out);
            let mut rng = Rng::new(seed);
            for c in 0..cases {
                let mut ops = vec!["new".to_string()];
                let len = rng.range(1, 30);
                let mut v = 0;
                for _ in 0..len {
                    let r = rng.below(100);
                    if r < 35 {
                        v += 1;
                        ops.push(format!("set {}", v));
                    } else if r < 50 {
                        ops.push(format!("sync {}", rng.range(1, 4)));
                    } else {
                        ops.push("write".into());
                    }
                }
                t.case(format!("{} seed={}", c, seed));
                run_case(&mut t, &ops);
            }
            t.finish();
        }
        Mode::Replay { ops, out } => {
            let mut t = Trace::create(&out);
            for (i, case) in ops.iter().enumerate() {
                t.case(i);
                run_case(&mut t, case);
            }
            t.finish();
        }
    }
}
