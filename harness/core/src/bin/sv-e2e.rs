//! End-to-end rig (C01–C04, C14): a REAL agent (value, map, supply and command lanes with a logging lifecycle)
//! run by the REAL `AgentRouteTask::run_agent` on a current-thread tokio runtime with paused time; remotes are
//! attached over byte channels of configurable (small) capacity and read only when the script says so.
//! Task interleaving is tokio's (with `select!` randomness and hash-map orders), so the output is not compared with a
//! model: the trace is judged by the Lean monitor (`e2e`).
//!
//!
//! The value and map lanes are RENAMED: their fields are `val_state` / `map_state`, their external names stay `val` /
//! `map` (`#[item(name = ..)]`); the HTTP lane field `web_api` is exposed as `webApi` (camel convention). Requests are
//! addressed by external name, the lifecycle is labelled by field name.
//!
//! ops:  cfg <lane-out-buf> | attach <r> <cap> | link|sync|unlink <r> <lane> | cmd <r> <lane> <body-hex>
//!       | read <r> <n> | drain | drop <r> | stop
//!       | http <get|post|put|delete|head> <n>    a real HTTP lane request through the runtime's HTTP channel; the
//!                                                response is awaited (`st=<code> b=<body>`)
//!       | httpd <method> <n>                     the same, but the response receiver is dropped BEFORE the request is
//!                                                sent (a client that went away): `st=dropped`; always settles
//! out:  f=<frames> h=<agent-side history since the previous op> [st=<status> b=<body>]
//!       frame = r<r>:<lane>:<kind>[:<body>]
//!
//! HTTP handlers (n%3 chooses the lane: 0 value lane := n, 1 map entry MAP_KEYS[n%4] := n, 2 push n to the supply lane):
//! `on_post` makes the change in a NON-final step (`change.followed_by(value(response))`), `on_put` in its FINAL step
//! (`change.map(|_| response)`); `on_get` answers with the value lane's content. The handlers log `http:<m>:<n>`; the
//! changes themselves are logged where they happen (`on_event` / `on_update` of the lanes, `sup:n` before the push).
use std::collections::{BTreeMap, HashMap};
use std::num::NonZeroUsize;
use std::sync::{Arc, Mutex};
use std::time::Duration;

use bytes::Bytes;
use futures::{SinkExt, StreamExt};
use svh::{hex, parse_args, unhex, Mode, Rng, Trace};
use swimos::agent::agent_model::AgentModel;
use swimos::agent::{
    agent_lifecycle::HandlerContext,
    event_handler::{EventHandler, HandlerAction, HandlerActionExt},
    lanes::{
        http::{HttpRequestContext, Response, UnitResponse},
        CommandLane, MapLane, SimpleHttpLane, SupplyLane, ValueLane,
    },
    lifecycle, projections, AgentLaneModel,
};
use swimos_api::address::RelativeAddress;
use swimos_api::agent::{AgentConfig, HttpLaneRequest, LaneConfig};
use swimos_api::http::{HttpRequest, Method, Version};
use swimos_messages::protocol::{
    Notification, RawRequestMessageEncoder, RawResponseMessageDecoder, RequestMessage,
};
use swimos_runtime::agent::{
    AgentAttachmentRequest, AgentRouteChannels, AgentRouteDescriptor, AgentRouteTask, AgentRuntimeConfig,
    CombinedAgentConfig, DisconnectionReason,
};
use swimos_utilities::byte_channel::{byte_channel, ByteReader, ByteWriter};
use swimos_utilities::trigger::{self, promise};
use tokio::sync::mpsc;
use tokio_util::codec::{FramedRead, FramedWrite};
use uuid::Uuid;

#[projections]
#[derive(AgentLaneModel)]
pub struct TestAgent {
    #[item(name = "val")]
    val_state: ValueLane<i32>,
    #[item(name = "map")]
    map_state: MapLane<i32, i32>,
    sup: SupplyLane<i32>,
    cmd: CommandLane<i32>,
    /// external name `webApi`
    #[item(convention = "camel")]
    web_api: SimpleHttpLane<i32>,
}

type Log = Arc<Mutex<Vec<String>>>;

#[derive(Clone)]
pub struct TestLifecycle {
    log: Log,
}

#[lifecycle(TestAgent)]
impl TestLifecycle {
    /// One method registered for BOTH agent events, with the stop attribute first (the derive macro has to merge the
    /// two registrations whatever their order): logged as `life` when the agent starts and when it stops.
    #[on_stop]
    #[on_start]
    pub fn start_or_stop(&self, context: HandlerContext<TestAgent>) -> impl EventHandler<TestAgent> {
        let log = self.log.clone();
        context.effect(move || log.lock().unwrap().push("life".to_string()))
    }

    #[on_event(val_state)]
    pub fn on_val(&self, context: HandlerContext<TestAgent>, value: &i32) -> impl EventHandler<TestAgent> {
        let log = self.log.clone();
        let v = *value;
        context.effect(move || log.lock().unwrap().push(format!("val:{}", v)))
    }

    #[on_update(map_state)]
    pub fn on_update(
        &self,
        context: HandlerContext<TestAgent>,
        _map: &HashMap<i32, i32>,
        key: i32,
        _prev: Option<i32>,
        new_value: &i32,
    ) -> impl EventHandler<TestAgent> {
        let log = self.log.clone();
        let v = *new_value;
        context.effect(move || log.lock().unwrap().push(format!("map:upd:{}:{}", key, v)))
    }

    #[on_remove(map_state)]
    pub fn on_remove(
        &self,
        context: HandlerContext<TestAgent>,
        _map: &HashMap<i32, i32>,
        key: i32,
        _prev: i32,
    ) -> impl EventHandler<TestAgent> {
        let log = self.log.clone();
        context.effect(move || log.lock().unwrap().push(format!("map:rem:{}", key)))
    }

    #[on_clear(map_state)]
    pub fn on_clear(
        &self,
        context: HandlerContext<TestAgent>,
        _prev: HashMap<i32, i32>,
    ) -> impl EventHandler<TestAgent> {
        let log = self.log.clone();
        context.effect(move || log.lock().unwrap().push("map:clr".to_string()))
    }

    /// A command `n` makes the agent's own handler act (n%6): 0, 3 push `n` to the supply lane, 1 sets the value lane,
    /// 2 updates the map entry MAP_KEYS[n%4] to `n`, 4 does the same through `transform_entry`, 5 removes that entry.
    #[on_command(cmd)]
    pub fn on_command(&self, context: HandlerContext<TestAgent>, value: &i32) -> impl EventHandler<TestAgent> {
        let log = self.log.clone();
        let n = *value;
        let note = context.effect(move || log.lock().unwrap().push(format!("cmd:{}", n)));
        let log2 = self.log.clone();
        let key = MAP_KEYS[n.rem_euclid(4) as usize];
        let act = match n.rem_euclid(6) {
            0 | 3 => context
                .effect(move || log2.lock().unwrap().push(format!("sup:{}", n)))
                .followed_by(context.supply(TestAgent::SUP, n))
                .boxed_local(),
            1 => context.set_value(TestAgent::VAL_STATE, n).boxed_local(),
            2 => context.update(TestAgent::MAP_STATE, key, n).boxed_local(),
            // insert-or-replace through `transform_entry` (the entry may be absent)
            4 => context.transform_entry(TestAgent::MAP_STATE, key, move |_| Some(n)).boxed_local(),
            _ => context.remove(TestAgent::MAP_STATE, key).boxed_local(),
        };
        note.followed_by(act)
    }

    /// GET: the content of the value lane.
    #[on_get(web_api)]
    pub fn on_get(
        &self,
        context: HandlerContext<TestAgent>,
        _http: HttpRequestContext,
    ) -> impl HandlerAction<TestAgent, Completion = Response<i32>> {
        let log = self.log.clone();
        context
            .effect(move || log.lock().unwrap().push("http:get:0".to_string()))
            .followed_by(context.get_value(TestAgent::VAL_STATE))
            .map(Response::from)
    }

    /// POST n: the lane change is a NON-final step of the handler (the response value follows it).
    #[on_post(web_api)]
    pub fn on_post(
        &self,
        context: HandlerContext<TestAgent>,
        _http: HttpRequestContext,
        n: i32,
    ) -> impl HandlerAction<TestAgent, Completion = UnitResponse> {
        let log = self.log.clone();
        let note = context.effect(move || log.lock().unwrap().push(format!("http:post:{}", n)));
        let log2 = self.log.clone();
        let key = MAP_KEYS[n.rem_euclid(4) as usize];
        let respond = context.value(UnitResponse::default());
        let act = match n.rem_euclid(3) {
            0 => context.set_value(TestAgent::VAL_STATE, n).followed_by(respond).boxed_local(),
            1 => context.update(TestAgent::MAP_STATE, key, n).followed_by(respond).boxed_local(),
            _ => context
                .effect(move || log2.lock().unwrap().push(format!("sup:{}", n)))
                .followed_by(context.supply(TestAgent::SUP, n))
                .followed_by(respond)
                .boxed_local(),
        };
        note.followed_by(act)
    }

    /// PUT n: the lane change is the FINAL step of the handler (its result is mapped to the response).
    #[on_put(web_api)]
    pub fn on_put(
        &self,
        context: HandlerContext<TestAgent>,
        _http: HttpRequestContext,
        n: i32,
    ) -> impl HandlerAction<TestAgent, Completion = UnitResponse> {
        let log = self.log.clone();
        let note = context.effect(move || log.lock().unwrap().push(format!("http:put:{}", n)));
        let log2 = self.log.clone();
        let key = MAP_KEYS[n.rem_euclid(4) as usize];
        let act = match n.rem_euclid(3) {
            0 => context.set_value(TestAgent::VAL_STATE, n).map(|_| UnitResponse::default()).boxed_local(),
            1 => context.update(TestAgent::MAP_STATE, key, n).map(|_| UnitResponse::default()).boxed_local(),
            _ => context
                .effect(move || log2.lock().unwrap().push(format!("sup:{}", n)))
                .followed_by(context.supply(TestAgent::SUP, n))
                .map(|_| UnitResponse::default())
                .boxed_local(),
        };
        note.followed_by(act)
    }
}

/// External name of the HTTP lane (field `web_api`, camel convention).
const HTTP_LANE_URI: &str = "http://example:8080/node?lane=webApi";

/// Map keys used by the scripts: their decimal text order differs from their numeric order.
const MAP_KEYS: [i32; 4] = [2, 10, 33, 7];

struct RemoteCtx {
    id: Uuid,
    tx: Option<FramedWrite<ByteWriter, RawRequestMessageEncoder>>,
    rx: Option<FramedRead<ByteReader, RawResponseMessageDecoder>>,
    completion: promise::Receiver<DisconnectionReason>,
    ended: bool,
}

fn render_body(lane: &str, body: &[u8]) -> String {
    let s = String::from_utf8_lossy(body);
    if lane == "map" {
        if s == "@clear" {
            return "clr".into();
        }
        if let Some(rest) = s.strip_prefix("@update(key:") {
            if let Some((k, v)) = rest.split_once(") ") {
                return format!("upd:{}:{}", k.trim(), v.trim());
            }
        }
        if let Some(rest) = s.strip_prefix("@remove(key:") {
            if let Some(k) = rest.strip_suffix(')') {
                return format!("rem:{}", k.trim());
            }
        }
        return format!("raw:{}", hex(body));
    }
    if s.chars().all(|c| c.is_ascii_digit() || c == '-') && !s.is_empty() {
        format!("{}", s)
    } else {
        format!("raw:{}", hex(body))
    }
}

struct Rig {
    att_tx: mpsc::Sender<AgentAttachmentRequest>,
    http_tx: mpsc::Sender<HttpLaneRequest>,
    remotes: BTreeMap<u64, RemoteCtx>,
    log: Log,
    stop: Option<trigger::Sender>,
}

impl Rig {
    async fn settle(&self) {
        tokio::time::sleep(Duration::from_millis(40)).await;
    }

    async fn read_some(&mut self, r: u64, max: usize) -> Vec<String> {
        let mut out = vec![];
        if let Some(ctx) = self.remotes.get_mut(&r) {
            if let Some(rx) = ctx.rx.as_mut() {
                for _ in 0..max {
                    match tokio::time::timeout(Duration::from_millis(2), rx.next()).await {
                        Ok(Some(Ok(msg))) => {
                            let lane = msg.path.lane.as_str().to_string();
                            let f = match &msg.envelope {
                                Notification::Linked => format!("r{}:{}:linked", r, lane),
                                Notification::Synced => format!("r{}:{}:synced", r, lane),
                                Notification::Unlinked(b) => {
                                    let m = match b.as_ref().map(|b| b.as_ref()) {
                                        None | Some(b"") => "none".to_string(),
                                        Some(b"\"Link closed.\"") => "closed".to_string(),
                                        Some(b"@laneNotFound") => "nf".to_string(),
                                        Some(o) => format!("raw{}", hex(o)),
                                    };
                                    format!("r{}:{}:unl:{}", r, lane, m)
                                }
                                Notification::Event(b) => {
                                    format!("r{}:{}:ev:{}", r, lane, render_body(&lane, b.as_ref()))
                                }
                            };
                            out.push(f);
                        }
                        Ok(Some(Err(_))) => {
                            out.push(format!("r{}:decode-error", r));
                            ctx.rx = None;
                            break;
                        }
                        Ok(None) => {
                            if !ctx.ended {
                                ctx.ended = true;
                                out.push(format!("r{}:end", r));
                            }
                            break;
                        }
                        Err(_) => break,
                    }
                }
            }
        }
        out
    }

    async fn exec(&mut self, op: &str) -> String {
        // a leading `!` = do not let the runtime settle after this request (the next one races with it)
        let (op, nosettle) = match op.strip_prefix('!') {
            Some(rest) => (rest, true),
            None => (op, false),
        };
        let p: Vec<&str> = op.split_whitespace().collect();
        let mut frames: Vec<String> = vec![];
        let mut extra = String::new();
        let mut force_settle = false;
        match p.as_slice() {
            ["attach", r, cap] => {
                let r: u64 = r.parse().unwrap();
                let cap: usize = cap.parse().unwrap();
                let id = Uuid::from_u128(0x2000 + r as u128);
                let (to_agent_tx, to_agent_rx) = byte_channel(NonZeroUsize::new(4096).unwrap());
                let (from_agent_tx, from_agent_rx) = byte_channel(NonZeroUsize::new(cap.max(1)).unwrap());
                let (ctx_tx, ctx_rx) = promise::promise();
                let (on_tx, on_rx) = trigger::trigger();
                let req = AgentAttachmentRequest::with_confirmation(id, (from_agent_tx, to_agent_rx), ctx_tx, on_tx);
                if self.att_tx.send(req).await.is_err() {
                    return "f=- h=- err=agent-gone".into();
                }
                let _ = tokio::time::timeout(Duration::from_secs(5), on_rx).await;
                self.remotes.insert(
                    r,
                    RemoteCtx {
                        id,
                        tx: Some(FramedWrite::new(to_agent_tx, Default::default())),
                        rx: Some(FramedRead::new(from_agent_rx, Default::default())),
                        completion: ctx_rx,
                        ended: false,
                    },
                );
            }
            [kind @ ("link" | "sync" | "unlink"), r, lane] => {
                let r: u64 = r.parse().unwrap();
                if let Some(ctx) = self.remotes.get_mut(&r) {
                    let path = RelativeAddress::new("/node", *lane);
                    let msg: RequestMessage<&str, Bytes> = match *kind {
                        "link" => RequestMessage::link(ctx.id, path),
                        "sync" => RequestMessage::sync(ctx.id, path),
                        _ => RequestMessage::unlink(ctx.id, path),
                    };
                    if let Some(tx) = ctx.tx.as_mut() {
                        let _ = tokio::time::timeout(Duration::from_secs(5), tx.send(msg)).await;
                    }
                }
            }
            ["cmd", r, lane, body] => {
                let r: u64 = r.parse().unwrap();
                if let Some(ctx) = self.remotes.get_mut(&r) {
                    let path = RelativeAddress::new("/node", *lane);
                    let b = Bytes::from(unhex(body).unwrap());
                    let msg: RequestMessage<&str, Bytes> = RequestMessage::command(ctx.id, path, b);
                    if let Some(tx) = ctx.tx.as_mut() {
                        let _ = tokio::time::timeout(Duration::from_secs(5), tx.send(msg)).await;
                    }
                }
            }
            [kind @ ("http" | "httpd"), method, n] => {
                let n: i32 = n.parse().unwrap_or(0);
                let (method, payload) = match *method {
                    "get" => (Method::GET, Bytes::new()),
                    "head" => (Method::HEAD, Bytes::new()),
                    "delete" => (Method::DELETE, Bytes::new()),
                    "post" => (Method::POST, Bytes::from(n.to_string())),
                    "put" => (Method::PUT, Bytes::from(n.to_string())),
                    _ => return "bad-op".into(),
                };
                let (req, rx) = HttpLaneRequest::new(HttpRequest {
                    method,
                    version: Version::HTTP_1_1,
                    uri: http::Uri::from_static(HTTP_LANE_URI),
                    headers: vec![],
                    payload,
                });
                if *kind == "httpd" {
                    // the client went away before the request reached the agent
                    drop(rx);
                    force_settle = true;
                    extra = match tokio::time::timeout(Duration::from_secs(5), self.http_tx.send(req)).await {
                        Ok(Ok(())) => " st=dropped".to_string(),
                        _ => " st=gone".to_string(),
                    };
                } else {
                    extra = match tokio::time::timeout(Duration::from_secs(5), self.http_tx.send(req)).await {
                        Ok(Ok(())) => match tokio::time::timeout(Duration::from_secs(5), rx).await {
                            Ok(Ok(resp)) => {
                                let body = String::from_utf8_lossy(resp.payload.as_ref()).to_string();
                                let b = if body.is_empty() {
                                    "-".to_string()
                                } else if body.chars().all(|c| c.is_ascii_digit() || c == '-') {
                                    body
                                } else {
                                    format!("raw:{}", hex(resp.payload.as_ref()))
                                };
                                format!(" st={} b={}", resp.status_code.as_u16(), b)
                            }
                            Ok(Err(_)) => " st=lost".to_string(),
                            Err(_) => " st=timeout".to_string(),
                        },
                        _ => " st=gone".to_string(),
                    };
                }
            }
            ["read", r, n] => {
                self.settle().await;
                frames = self.read_some(r.parse().unwrap(), n.parse().unwrap()).await;
            }
            ["drain"] => {
                for _ in 0..400 {
                    self.settle().await;
                    let ids: Vec<u64> = self.remotes.keys().copied().collect();
                    let mut got = false;
                    for r in ids {
                        let f = self.read_some(r, 64).await;
                        got |= !f.is_empty();
                        frames.extend(f);
                    }
                    if !got {
                        break;
                    }
                }
            }
            ["drop", r] => {
                let r: u64 = r.parse().unwrap();
                if let Some(ctx) = self.remotes.get_mut(&r) {
                    ctx.tx = None;
                    ctx.rx = None;
                }
            }
            ["stop"] => {
                if let Some(s) = self.stop.take() {
                    s.trigger();
                }
                for _ in 0..400 {
                    self.settle().await;
                    let ids: Vec<u64> = self.remotes.keys().copied().collect();
                    let mut got = false;
                    for r in ids {
                        let f = self.read_some(r, 64).await;
                        got |= !f.is_empty();
                        frames.extend(f);
                    }
                    if !got {
                        break;
                    }
                }
            }
            _ => return "bad-op".into(),
        }
        if (!nosettle || force_settle) && !matches!(p.as_slice(), ["read", ..] | ["drain"] | ["stop"]) {
            self.settle().await;
        }
        let hist: Vec<String> = std::mem::take(&mut *self.log.lock().unwrap());
        let _ = &self.remotes.values().map(|c| &c.completion).count();
        format!(
            "f={} h={}{}",
            if frames.is_empty() { "-".to_string() } else { frames.join(",") },
            if hist.is_empty() { "-".to_string() } else { hist.join(",") },
            extra
        )
    }
}

async fn run_case_async(ops: Vec<String>) -> Vec<(String, String)> {
    let mut lane_buf = 4096usize;
    let mut start = 0;
    let mut results = vec![];
    if let Some(first) = ops.first() {
        if let Some(n) = first.strip_prefix("cfg ") {
            lane_buf = n.trim().parse().unwrap_or(4096);
            results.push((first.clone(), "ok".to_string()));
            start = 1;
        }
    }
    let log: Log = Arc::new(Mutex::new(vec![]));
    let lc = TestLifecycle { log: log.clone() };
    let agent = AgentModel::new(TestAgent::default, lc.into_lifecycle());
    let (att_tx, att_rx) = mpsc::channel(16);
    let (http_tx, http_rx) = mpsc::channel(16);
    let (link_tx, mut link_rx) = mpsc::channel(16);
    let (stop_tx, stop_rx) = trigger::trigger();
    let long = Duration::from_secs(3600 * 24);
    let config = CombinedAgentConfig {
        agent_config: AgentConfig {
            default_lane_config: Some(LaneConfig {
                input_buffer_size: NonZeroUsize::new(4096).unwrap(),
                output_buffer_size: NonZeroUsize::new(lane_buf.max(1)).unwrap(),
                transient: true,
            }),
            ..AgentConfig::DEFAULT
        },
        runtime_config: AgentRuntimeConfig {
            inactive_timeout: long,
            prune_remote_delay: long,
            shutdown_timeout: Duration::from_secs(600),
            ..Default::default()
        },
    };
    let task = AgentRouteTask::new(
        &agent,
        AgentRouteDescriptor {
            identity: Uuid::from_u128(1),
            route: "/node".parse().unwrap(),
            route_params: HashMap::new(),
        },
        AgentRouteChannels::new(att_rx, http_rx, link_tx),
        stop_rx,
        config,
        None,
    );
    let agent_err: Arc<Mutex<Option<String>>> = Arc::new(Mutex::new(None));
    let agent_err2 = agent_err.clone();
    let agent_fut = async move {
        let r = task.run_agent().await;
        match &r {
            Err(e) => *agent_err2.lock().unwrap() = Some(format!("{:?}", e).replace(' ', "_")),
            Ok(()) => *agent_err2.lock().unwrap() = Some("agent-returned-ok-early".to_string()),
        }
        r.is_ok()
    };
    let links = async move { while link_rx.recv().await.is_some() {} };
    let driver = async {
        let mut rig = Rig { att_tx, http_tx, remotes: BTreeMap::new(), log, stop: Some(stop_tx) };
        let mut out = vec![];
        for op in ops.iter().skip(start) {
            let o = rig.exec(op).await;
            out.push((op.clone(), o));
        }
        // make sure the agent stops
        if let Some(s) = rig.stop.take() {
            s.trigger();
        }
        drop(rig);
        out
    };
    let (agent_ok, out, _) = futures::future::join3(agent_fut, driver, links).await;
    results.extend(out);
    if !agent_ok {
        let why = agent_err.lock().unwrap().clone().unwrap_or_else(|| "links-channel-closed".to_string());
        results.push(("end".to_string(), format!("agent-failed {}", why)));
    }
    results
}

fn run_case(t: &mut Trace, ops: &[String]) {
    let rt = tokio::runtime::Builder::new_current_thread()
        .enable_time()
        .start_paused(true)
        .build()
        .unwrap();
    let ops_v = ops.to_vec();
    let res = std::panic::catch_unwind(std::panic::AssertUnwindSafe(|| {
        rt.block_on(async move {
            tokio::time::timeout(Duration::from_secs(3600 * 48), run_case_async(ops_v)).await
        })
    }));
    match res {
        Ok(Ok(lines)) => {
            for (op, o) in lines {
                t.op(op, o);
            }
        }
        Ok(Err(_)) => t.op("end", "hang"),
        Err(_) => t.op("end", "panic"),
    }
}

fn gen_case(rng: &mut Rng) -> Vec<String> {
    let lane_buf = *rng.pick(&[8usize, 16, 64, 4096]);
    let mut ops = vec![format!("cfg {}", lane_buf)];
    let nr = rng.range(1, 3);
    for r in 1..=nr {
        ops.push(format!("attach {} {}", r, rng.pick(&[24usize, 48, 128, 4096])));
    }
    let lanes = ["val", "map", "sup", "cmd"];
    let len = rng.range(4, 40);
    let mut n = 0i32;
    let mut key_counter = 0;
    // a remote has at most one sync outstanding per lane: it syncs again only after a `drain`
    let mut syncing: Vec<(u64, &str)> = vec![];
    for _ in 0..len {
        let r = rng.range(1, nr);
        let c = rng.below(100);
        if c < 14 {
            ops.push(format!("link {} {}", r, rng.pick(&lanes[..3])));
        } else if c < 24 {
            let lane = *rng.pick(&lanes[..2]);
            if syncing.contains(&(r, lane)) {
                continue;
            }
            syncing.push((r, lane));
            ops.push(format!("sync {} {}", r, lane));
        } else if c < 28 {
            ops.push(format!("unlink {} {}", r, rng.pick(&lanes[..3])));
        } else if c < 30 {
            ops.push(format!("{} {} nolane", if rng.chance(1, 2) { "link" } else { "sync" }, r));
        } else if c < 38 {
            // HTTP lane requests (about 8% of the ops): the handlers change the lanes from inside the agent
            match rng.below(20) {
                0..=4 => ops.push("http get 0".into()),
                5..=10 => {
                    n += 1;
                    ops.push(format!("http post {}", n));
                }
                11..=16 => {
                    n += 1;
                    ops.push(format!("http put {}", n));
                }
                17 => {
                    // the client goes away before the request is handled; the change is a non-final step
                    n += 1;
                    ops.push(format!("httpd post {}", n));
                }
                18 => ops.push(format!("http {} 0", if rng.chance(1, 2) { "head" } else { "delete" })),
                _ => ops.push("httpd get 0".into()),
            }
        } else if c < 75 {
            n += 1;
            match rng.below(10) {
                0..=2 => ops.push(format!("cmd {} val {}", r, hex(n.to_string().as_bytes()))),
                3..=5 => {
                    key_counter += 1;
                    let _ = key_counter;
                    let body = match rng.below(12) {
                        0 => "@clear".to_string(),
                        1 | 2 => format!("@remove(key:{})", MAP_KEYS[rng.below(4) as usize]),
                        3 => format!("@take({})", rng.below(3)),
                        4 => format!("@drop({})", rng.below(3)),
                        _ => format!("@update(key:{}) {}", MAP_KEYS[rng.below(4) as usize], n),
                    };
                    ops.push(format!("cmd {} map {}", r, hex(body.as_bytes())));
                }
                _ => ops.push(format!("cmd {} cmd {}", r, hex(n.to_string().as_bytes()))),
            }
        } else if c < 95 {
            ops.push(format!("read {} {}", r, rng.range(1, 4)));
        } else {
            syncing.clear();
            ops.push("drain".into());
        }
    }
    ops.push("drain".into());
    // after everything has been judged: a PUT (lane change = FINAL step of the handler) whose client went away
    // before the request was handled. Value and map lanes only: for the supply lane the loss is not visible on the
    // line of the request itself.
    if rng.chance(1, 6) {
        n += 1;
        while n % 3 == 2 {
            n += 1;
        }
        ops.push(format!("httpd put {}", n));
        ops.push("drain".into());
    }
    if rng.chance(1, 2) {
        ops.push("stop".into());
    }
    // bursts: about half of the requests are not followed by a settle
    let burst = rng.below(3);
    ops.into_iter()
        .map(|o| {
            let is_req = o.starts_with("link")
                || o.starts_with("sync")
                || o.starts_with("unlink")
                || o.starts_with("cmd")
                || o.starts_with("http ");
            if is_req && burst > 0 && rng.chance(burst, 3) {
                format!("!{}", o)
            } else {
                o
            }
        })
        .collect()
}

fn main() {
    std::panic::set_hook(Box::new(|_| {}));
    match parse_args() {
        Mode::Gen { seed, cases, out } => {
            let mut t = Trace::create(&out);
            let mut rng = Rng::new(seed);
            for c in 0..cases {
                let ops = gen_case(&mut rng);
                t.case(format!("{} seed={}", c, seed));
                run_case(&mut t, &ops);
            }
            t.finish();
        }
        Mode::Replay { ops, out } => {
            let mut t = Trace::create(&out);
            for (i, case) in ops.iter().enumerate() {
                t.case(i);
                run_case(&mut t, case);
            }
            t.finish();
        }
    }
}
