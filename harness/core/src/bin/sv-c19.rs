//! C19 correspondence: the real `swimos_model::Value` (`PartialEq`, `Ord`, `Hash`) on pairs and triples of a
//! boundary-heavy pool and of randomly generated / mutated values.
//!
//! Value encoding (prefix code, ASCII, no spaces):
//!   E | b0 | b1 | i<dec>; (Int32) | l<dec>; (Int64) | u<dec>; (UInt32) | w<dec>; (UInt64) | f<16 hex>; (f64 bits)
//!   n<dec>; (BigInt) | m<dec>; (BigUint) | t<hex utf8>; | d<hex>; | r<elem>*.   elem := a<hex name>;<val> | v<val> | s<val><val>
//! Ops: `cmp a b` -> lt|eq|gt ; `eq a b` -> true|false ; `heq a b` -> true|false (std DefaultHasher outputs equal);
//!      `sort v1 .. vn` -> the stable `sort_by(Value::cmp)` permutation (indices) or `panic`.
use std::cmp::Ordering;
use std::collections::hash_map::DefaultHasher;
use std::hash::{Hash, Hasher};
use std::panic::{catch_unwind, AssertUnwindSafe};
use std::str::FromStr;

use num_bigint::{BigInt, BigUint};
use svh::{hex, parse_args, unhex, Mode, Rng, Trace};
use swimos_model::{Attr, Blob, Item, Text, Value};

// ------------------------------------------------------------------------------------------- encoding

fn enc(v: &Value, out: &mut String) {
    match v {
        Value::Extant => out.push('E'),
        Value::BooleanValue(b) => out.push_str(if *b { "b1" } else { "b0" }),
        Value::Int32Value(n) => out.push_str(&format!("i{};", n)),
        Value::Int64Value(n) => out.push_str(&format!("l{};", n)),
        Value::UInt32Value(n) => out.push_str(&format!("u{};", n)),
        Value::UInt64Value(n) => out.push_str(&format!("w{};", n)),
        Value::Float64Value(x) => out.push_str(&format!("f{:016x};", x.to_bits())),
        Value::BigInt(n) => out.push_str(&format!("n{};", n)),
        Value::BigUint(n) => out.push_str(&format!("m{};", n)),
        Value::Text(t) => {
            out.push('t');
            if !t.as_str().is_empty() {
                out.push_str(&hex(t.as_str().as_bytes()));
            }
            out.push(';');
        }
        Value::Data(b) => {
            out.push('d');
            let bs: &[u8] = b.as_ref();
            if !bs.is_empty() {
                out.push_str(&hex(bs));
            }
            out.push(';');
        }
        Value::Record(attrs, items) => {
            out.push('r');
            for a in attrs {
                out.push('a');
                if !a.name.as_str().is_empty() {
                    out.push_str(&hex(a.name.as_str().as_bytes()));
                }
                out.push(';');
                enc(&a.value, out);
            }
            for it in items {
                match it {
                    Item::ValueItem(v) => {
                        out.push('v');
                        enc(v, out);
                    }
                    Item::Slot(k, v) => {
                        out.push('s');
                        enc(k, out);
                        enc(v, out);
                    }
                }
            }
            out.push('.');
        }
    }
}

fn es(v: &Value) -> String {
    let mut s = String::new();
    enc(v, &mut s);
    s
}

struct P<'a> {
    s: &'a [u8],
    i: usize,
}

impl<'a> P<'a> {
    fn until_semi(&mut self) -> Option<&'a str> {
        let st = self.i;
        while self.i < self.s.len() && self.s[self.i] != b';' {
            self.i += 1;
        }
        if self.i >= self.s.len() {
            return None;
        }
        let r = std::str::from_utf8(&self.s[st..self.i]).ok()?;
        self.i += 1;
        Some(r)
    }
    fn hexfield(&mut self) -> Option<Vec<u8>> {
        let f = self.until_semi()?;
        if f.is_empty() {
            Some(vec![])
        } else if f.len() % 2 != 0 || !f.bytes().all(|b| b.is_ascii_digit() || (b'a'..=b'f').contains(&b)) {
            None
        } else {
            unhex(f)
        }
    }
    fn val(&mut self, depth: usize) -> Option<Value> {
        if depth > 64 || self.i >= self.s.len() {
            return None;
        }
        let c = self.s[self.i];
        self.i += 1;
        Some(match c {
            b'E' => Value::Extant,
            b'b' => {
                let d = *self.s.get(self.i)?;
                self.i += 1;
                match d {
                    b'0' => Value::BooleanValue(false),
                    b'1' => Value::BooleanValue(true),
                    _ => return None,
                }
            }
            b'i' => Value::Int32Value(dec_canon(self.until_semi()?)?.parse().ok()?),
            b'l' => Value::Int64Value(dec_canon(self.until_semi()?)?.parse().ok()?),
            b'u' => Value::UInt32Value(dec_canon(self.until_semi()?)?.parse().ok()?),
            b'w' => Value::UInt64Value(dec_canon(self.until_semi()?)?.parse().ok()?),
            b'f' => {
                let f = self.until_semi()?;
                if f.len() != 16 || !f.bytes().all(|b| b.is_ascii_digit() || (b'a'..=b'f').contains(&b)) {
                    return None;
                }
                Value::Float64Value(f64::from_bits(u64::from_str_radix(f, 16).ok()?))
            }
            b'n' => Value::BigInt(BigInt::from_str(dec_canon(self.until_semi()?)?).ok()?),
            b'm' => Value::BigUint(BigUint::from_str(dec_canon(self.until_semi()?)?).ok()?),
            b't' => Value::Text(Text::new(std::str::from_utf8(&self.hexfield()?).ok()?)),
            b'd' => Value::Data(Blob::from_vec(self.hexfield()?)),
            b'r' => {
                let mut attrs = vec![];
                let mut items = vec![];
                loop {
                    let k = *self.s.get(self.i)?;
                    self.i += 1;
                    match k {
                        b'.' => break,
                        b'a' => {
                            // attributes precede items in `Value::Record(attrs, items)`
                            if !items.is_empty() {
                                return None;
                            }
                            let name = self.hexfield()?;
                            let v = self.val(depth + 1)?;
                            attrs.push(Attr { name: Text::new(std::str::from_utf8(&name).ok()?), value: v });
                        }
                        b'v' => items.push(Item::ValueItem(self.val(depth + 1)?)),
                        b's' => {
                            let k = self.val(depth + 1)?;
                            let v = self.val(depth + 1)?;
                            items.push(Item::Slot(k, v));
                        }
                        _ => return None,
                    }
                }
                Value::Record(attrs, items)
            }
            _ => return None,
        })
    }
}

/// Canonical decimals only (`0`, `-5`, `17`; no `+`, no leading zeros, no `-0`) so that one value has one spelling.
fn dec_canon(s: &str) -> Option<&str> {
    let digits = s.strip_prefix('-').unwrap_or(s);
    if digits.is_empty() || !digits.bytes().all(|b| b.is_ascii_digit()) {
        return None;
    }
    if digits.len() > 1 && digits.starts_with('0') {
        return None;
    }
    if s.starts_with('-') && digits == "0" {
        return None;
    }
    Some(s)
}

fn dec(s: &str) -> Option<Value> {
    let mut p = P { s: s.as_bytes(), i: 0 };
    let v = p.val(0)?;
    if p.i == s.len() {
        Some(v)
    } else {
        None
    }
}

// ------------------------------------------------------------------------------------------- the observed operations

fn h(v: &Value) -> u64 {
    let mut s = DefaultHasher::new();
    v.hash(&mut s);
    s.finish()
}

static QUIET: std::sync::atomic::AtomicBool = std::sync::atomic::AtomicBool::new(false);

fn exec(op: &str) -> String {
    QUIET.store(true, std::sync::atomic::Ordering::SeqCst);
    let r = exec_inner(op);
    QUIET.store(false, std::sync::atomic::Ordering::SeqCst);
    r
}

fn exec_inner(op: &str) -> String {
    let parts: Vec<&str> = op.split_whitespace().collect();
    if parts.is_empty() {
        return "bad-op".into();
    }
    let vals: Option<Vec<Value>> = parts[1..].iter().map(|s| dec(s)).collect();
    let vals = match vals {
        Some(v) => v,
        None => return "bad-op".into(),
    };
    match (parts[0], vals.as_slice()) {
        // `partial_cmp` (and hence `<`, `<=`, …) must be the total order: anything else is reported instead of the
        // order itself
        ("cmp", [a, b]) => match catch_unwind(AssertUnwindSafe(|| (a.cmp(b), a.partial_cmp(b)))) {
            Ok((o, p)) if p != Some(o) => "partial-cmp-differs".into(),
            Ok((Ordering::Less, _)) => "lt".into(),
            Ok((Ordering::Equal, _)) => "eq".into(),
            Ok((Ordering::Greater, _)) => "gt".into(),
            Err(_) => "panic".into(),
        },
        ("eq", [a, b]) => match catch_unwind(AssertUnwindSafe(|| a == b)) {
            Ok(true) => "true".into(),
            Ok(false) => "false".into(),
            Err(_) => "panic".into(),
        },
        ("heq", [a, b]) => match catch_unwind(AssertUnwindSafe(|| h(a) == h(b))) {
            Ok(true) => "true".into(),
            Ok(false) => "false".into(),
            Err(_) => "panic".into(),
        },
        ("sort", vs) if !vs.is_empty() => {
            // what `drop_or_take` does with the keys of an unordered map: `sort_by(|a, b| a.cmp(b))` (stable)
            let mut idx: Vec<usize> = (0..vs.len()).collect();
            match catch_unwind(AssertUnwindSafe(|| {
                idx.sort_by(|&i, &j| vs[i].cmp(&vs[j]));
                idx
            })) {
                Ok(idx) => idx.iter().map(|i| i.to_string()).collect::<Vec<_>>().join(","),
                Err(_) => "panic".into(),
            }
        }
        _ => "bad-op".into(),
    }
}

fn run_case(t: &mut Trace, ops: &[String]) {
    for op in ops {
        let o = exec(op);
        t.op(op, o);
    }
}

// ------------------------------------------------------------------------------------------- the pool

fn big(s: &str) -> BigInt {
    BigInt::from_str(s).unwrap()
}

fn pow2(k: u32) -> BigInt {
    BigInt::from(1) << k
}

/// The same integer in every kind that can hold it (+ the f64 nearest to it).
fn all_kinds_of(n: &BigInt, out: &mut Vec<Value>) {
    if let Ok(x) = i32::try_from(n) {
        out.push(Value::Int32Value(x));
    }
    if let Ok(x) = i64::try_from(n) {
        out.push(Value::Int64Value(x));
    }
    if let Ok(x) = u32::try_from(n) {
        out.push(Value::UInt32Value(x));
    }
    if let Ok(x) = u64::try_from(n) {
        out.push(Value::UInt64Value(x));
    }
    out.push(Value::BigInt(n.clone()));
    if let Some(x) = n.to_biguint() {
        out.push(Value::BigUint(x));
    }
    out.push(Value::Float64Value(big_to_f64(n)));
}

/// Nearest f64 (decimal parsing in std is correctly rounded; overflows to +-inf).
fn big_to_f64(n: &BigInt) -> f64 {
    n.to_string().parse::<f64>().unwrap()
}

/// Pool levels: 0 = small (exhaustive triples in `quick`), 1 = core (exhaustive triples in `thorough`), 2 = full.
fn integers(level: u8) -> Vec<BigInt> {
    let mut v: Vec<BigInt> = vec![];
    let i = |x: i128| BigInt::from(x);
    for x in [0i128, 1, 1i128 << 53, (1i128 << 53) + 1, i64::MAX as i128] {
        v.push(i(x));
    }
    v.push(pow2(64));
    if level >= 1 {
        // the limits of every fixed-width kind
        for x in [
            -1i128,
            2,
            i32::MIN as i128,
            i32::MAX as i128,
            u32::MAX as i128,
            i64::MIN as i128,
            u64::MAX as i128,
            (1i128 << 53) - 1,
            i64::MAX as i128 + 1,
            i128::MAX,
        ] {
            v.push(i(x));
        }
        v.push(pow2(127));
        v.push(pow2(1024));
    }
    if level >= 2 {
        // ... and their neighbours, integers that round in an interesting way, very big ones
        for x in [
            i32::MIN as i128 - 1,
            i32::MAX as i128 + 1,
            u32::MAX as i128 + 1,
            i64::MIN as i128 - 1,
            -((1i128 << 53) + 1),
            (1i128 << 63) - 512,
            (1i128 << 63) - 513,
            (1i128 << 64) - 1024,
            (1i128 << 64) - 1025,
            i128::MIN,
        ] {
            v.push(i(x));
        }
        v.push(-pow2(127) - 1);
        v.push(pow2(128));
        v.push(big("1000000000000000000000000000000"));
        v.push(pow2(1023));
        v.push(pow2(1024) - pow2(970)); // rounds to +inf as f64 (tie to even)
        v.push(pow2(1024) - pow2(970) - 1); // rounds to f64::MAX
        v.push(-pow2(1024));
        v.push(pow2(1100));
    }
    v
}

fn floats(level: u8) -> Vec<f64> {
    let mut v = vec![-0.0, f64::NAN, f64::INFINITY, 1.5, 1.5e-16, 3e-16];
    if level >= 1 {
        v.extend_from_slice(&[
            0.0,
            f64::NEG_INFINITY,
            1.0,
            0.5,
            1.0 + f64::EPSILON,
            9007199254740992.0,    // 2^53
            9223372036854775808.0, // 2^63
        ]);
    }
    if level >= 2 {
        v.extend_from_slice(&[
            f64::from_bits(0xfff8_0000_0000_0001), // another NaN
            -1.5,
            -1.0,
            2.5,
            f64::EPSILON,
            f64::EPSILON * (1.0 - f64::EPSILON / 2.0), // predecessor of EPSILON
            1.0 - f64::EPSILON / 2.0,
            1.0e-300,
            f64::MIN_POSITIVE,
            f64::from_bits(1), // smallest subnormal
            -f64::from_bits(1),
            f64::MAX,
            f64::MIN,
            0.1,
            9007199254740994.0, // 2^53 + 2
            -9007199254740992.0,
            2147483647.5,
            -2147483648.5,
            4294967295.5,
            4294967296.5,
            9223372036854774784.0, // largest f64 below 2^63
            -9223372036854775808.0,
            -9223372036854777856.0, // next below -2^63
            18446744073709551616.0, // 2^64
            18446744073709549568.0, // largest f64 below 2^64
            1.0e30,
            1.0e300,
            -1.0e300,
            170141183460469231731687303715884105728.0, // 2^127
        ]);
    }
    v
}

fn txt(s: &str) -> Value {
    Value::Text(Text::new(s))
}

fn rec(attrs: Vec<(&str, Value)>, items: Vec<Item>) -> Value {
    Value::Record(
        attrs.into_iter().map(|(n, v)| Attr { name: Text::new(n), value: v }).collect(),
        items,
    )
}

fn vi(v: Value) -> Item {
    Item::ValueItem(v)
}

fn pool(level: u8) -> Vec<Value> {
    let mut out = vec![Value::Extant, Value::BooleanValue(false), Value::BooleanValue(true)];
    for n in integers(level) {
        all_kinds_of(&n, &mut out);
    }
    for x in floats(level) {
        out.push(Value::Float64Value(x));
    }
    if level >= 2 {
        // big integers next to fractions
        out.push(Value::BigInt(big("-2")));
        out.push(Value::BigUint(BigUint::from(3u8)));
    }
    let texts: &[&str] = match level {
        0 => &["", "a"],
        1 => &["", "a", "ab", "b"],
        _ => &["", "a", "ab", "b", "A", "\u{e9}", "\u{10000}", "true", "0", "1"],
    };
    for t in texts {
        out.push(txt(t));
    }
    let blobs: &[&[u8]] = match level {
        0 | 1 => &[&[], &[0x61]],
        _ => &[&[], &[0x61], &[0x61, 0x62], &[0], &[0, 1], &[255], b"YQ=="],
    };
    for b in blobs {
        out.push(Value::Data(Blob::from_vec(b.to_vec())));
    }
    // records
    let one32 = Value::Int32Value(1);
    out.push(rec(vec![], vec![]));
    out.push(rec(vec![], vec![vi(one32.clone())]));
    out.push(rec(vec![], vec![vi(Value::Float64Value(1.0))]));
    out.push(rec(vec![("a", Value::Extant)], vec![]));
    out.push(rec(vec![], vec![vi(Value::Float64Value(0.0))]));
    out.push(rec(vec![], vec![vi(Value::Float64Value(-0.0))]));
    out.push(rec(vec![], vec![vi(Value::Data(Blob::from_vec(vec![0x61])))]));
    if level >= 1 {
        out.push(rec(vec![], vec![vi(Value::Int64Value(1))]));
        out.push(rec(vec![], vec![Item::Slot(txt("a"), one32.clone())]));
        out.push(rec(vec![], vec![vi(rec(vec![], vec![]))]));
    }
    if level >= 2 {
        out.push(rec(vec![], vec![vi(Value::BigUint(BigUint::from(1u8)))]));
        out.push(rec(vec![("a", one32.clone())], vec![]));
        out.push(rec(vec![("a", Value::UInt64Value(1))], vec![]));
        out.push(rec(vec![("a", rec(vec![], vec![vi(one32.clone())]))], vec![]));
        out.push(rec(vec![("b", Value::Extant)], vec![]));
        out.push(rec(vec![("a", Value::Extant), ("b", Value::Extant)], vec![]));
        out.push(rec(vec![("a", Value::Extant)], vec![vi(one32.clone())]));
        out.push(rec(vec![("a", Value::Extant)], vec![vi(one32.clone()), Item::Slot(txt("k"), txt("v"))]));
        out.push(rec(vec![], vec![Item::Slot(txt("a"), Value::Int32Value(2))]));
        out.push(rec(vec![], vec![Item::Slot(txt("a"), Value::Extant)]));
        out.push(rec(vec![], vec![Item::Slot(one32.clone(), Value::Int32Value(2))]));
        out.push(rec(vec![], vec![vi(one32.clone()), vi(Value::Int32Value(2))]));
        out.push(rec(vec![], vec![vi(Value::Int32Value(2))]));
        out.push(rec(vec![], vec![vi(txt("a"))]));
        out.push(rec(vec![], vec![vi(Value::Extant)]));
        out.push(rec(vec![], vec![vi(Value::Float64Value(f64::NAN))]));
        out.push(rec(vec![], vec![vi(Value::Float64Value(f64::INFINITY))]));
        out.push(rec(vec![], vec![vi(Value::Float64Value(1.5e-16))]));
        out.push(rec(vec![], vec![vi(Value::Float64Value(3e-16))]));
        out.push(rec(vec![], vec![vi(Value::Float64Value(1.5))]));
        out.push(rec(vec![], vec![vi(Value::BigInt(BigInt::from(1)))]));
        out.push(rec(vec![], vec![vi(rec(vec![], vec![vi(one32.clone())]))]));
        out.push(rec(vec![], vec![vi(rec(vec![("a", Value::Extant)], vec![]))]));
        out.push(rec(vec![], vec![vi(Value::Data(Blob::from_vec(vec![])))]));
        out.push(rec(vec![], vec![vi(rec(vec![], vec![])), vi(Value::Extant)]));
    }
    // de-duplicate by encoding (e.g. the same f64 reached twice)
    let mut seen = std::collections::HashSet::new();
    out.retain(|v| seen.insert(es(v)));
    out
}

// ------------------------------------------------------------------------------------------- cases

fn case_refl(t: &mut Trace, id: &str, a: &str) {
    t.case(format!("refl {}", id));
    run_case(t, &[format!("cmp {} {}", a, a), format!("eq {} {}", a, a), format!("heq {} {}", a, a)]);
}

/// One case per law so that a violation of one law never hides another one on the same pair.
fn cases_pair(t: &mut Trace, id: &str, a: &str, b: &str) {
    t.case(format!("antisym {}", id));
    run_case(t, &[format!("cmp {} {}", a, b), format!("cmp {} {}", b, a)]);
    t.case(format!("cmpeq {}", id));
    run_case(t, &[format!("cmp {} {}", a, b), format!("eq {} {}", a, b)]);
    t.case(format!("cmpeq' {}", id));
    run_case(t, &[format!("cmp {} {}", b, a), format!("eq {} {}", b, a)]);
    t.case(format!("eqsym {}", id));
    run_case(t, &[format!("eq {} {}", a, b), format!("eq {} {}", b, a)]);
    t.case(format!("eqhash {}", id));
    run_case(t, &[format!("eq {} {}", a, b), format!("heq {} {}", a, b)]);
}

fn cases_triple(t: &mut Trace, id: &str, a: &str, b: &str, c: &str) {
    t.case(format!("trans {}", id));
    run_case(t, &[format!("cmp {} {}", a, b), format!("cmp {} {}", b, c), format!("cmp {} {}", a, c)]);
    t.case(format!("eqtrans {}", id));
    run_case(t, &[format!("eq {} {}", a, b), format!("eq {} {}", b, c), format!("eq {} {}", a, c)]);
}

// ------------------------------------------------------------------------------------------- random values

const BOUNDS: [i128; 16] = [
    0,
    1,
    -1,
    i32::MIN as i128,
    i32::MAX as i128,
    u32::MAX as i128,
    i64::MIN as i128,
    i64::MAX as i128,
    u64::MAX as i128,
    1i128 << 53,
    -(1i128 << 53),
    1i128 << 24,
    1i128 << 62,
    1i128 << 63,
    1i128 << 64,
    1000,
];

fn int_in_kind(rng: &mut Rng, n: &BigInt) -> Value {
    let mut c = vec![];
    all_kinds_of(n, &mut c);
    // drop the float rendering most of the time (it is not the same number unless exact)
    let k = c.len();
    if rng.chance(1, 6) {
        c[k - 1].clone()
    } else {
        c[rng.below((k - 1) as u64) as usize].clone()
    }
}

fn gen_int(rng: &mut Rng) -> BigInt {
    let r = rng.below(100);
    if r < 70 {
        let b = *rng.pick(&BOUNDS);
        BigInt::from(b) + BigInt::from(rng.range(0, 6) as i64 - 3)
    } else if r < 80 {
        BigInt::from(rng.next() as i64)
    } else if r < 88 {
        BigInt::from(rng.next())
    } else if r < 94 {
        let sh = *rng.pick(&[100u32, 126, 127, 128, 200, 1023, 1024, 1030]);
        let s = if rng.chance(1, 2) { BigInt::from(1) } else { BigInt::from(-1) };
        s * (pow2(sh) + BigInt::from(rng.range(0, 4) as i64 - 2))
    } else {
        BigInt::from(rng.range(0, 40) as i64 - 20)
    }
}

fn gen_float(rng: &mut Rng) -> f64 {
    let r = rng.below(100);
    if r < 10 {
        *rng.pick(&[0.0, -0.0, f64::NAN, f64::INFINITY, f64::NEG_INFINITY, f64::MAX, f64::MIN, f64::MIN_POSITIVE, f64::EPSILON])
    } else if r < 35 {
        // an integer boundary, a few ulps around it
        let b = *rng.pick(&BOUNDS) as f64;
        let k = rng.range(0, 6) as i64 - 3;
        f64::from_bits((b.to_bits() as i64).wrapping_add(k) as u64)
    } else if r < 55 {
        // small integers and halves
        (rng.range(0, 40) as f64 - 20.0) / 2.0
    } else if r < 75 {
        // within a few EPSILONs of a small number
        let base = *rng.pick(&[0.0, 1.0, -1.0, 0.5, 2.0, 1e-15]);
        base + (rng.range(0, 12) as f64 - 6.0) * (f64::EPSILON / 4.0)
    } else if r < 80 {
        f64::from_bits(rng.range(0, 8)) * if rng.chance(1, 2) { 1.0 } else { -1.0 }
    } else {
        f64::from_bits(rng.next())
    }
}

const NAMES: [&str; 5] = ["", "a", "b", "ab", "\u{e9}"];

fn pick_name(rng: &mut Rng) -> &'static str {
    NAMES[rng.below(NAMES.len() as u64) as usize]
}

fn gen_value(rng: &mut Rng, depth: u32) -> Value {
    let r = rng.below(100);
    if r < 4 {
        Value::Extant
    } else if r < 9 {
        Value::BooleanValue(rng.chance(1, 2))
    } else if r < 40 {
        let n = gen_int(rng);
        int_in_kind(rng, &n)
    } else if r < 62 {
        Value::Float64Value(gen_float(rng))
    } else if r < 72 {
        txt(pick_name(rng))
    } else if r < 79 {
        let n = rng.below(3) as usize;
        Value::Data(Blob::from_vec((0..n).map(|_| *rng.pick(&[0u8, 0x61, 0x62, 255])).collect()))
    } else if depth == 0 {
        rec(vec![], vec![])
    } else {
        let na = if rng.chance(1, 2) { 0 } else { rng.range(1, 2) } as usize;
        let ni = rng.below(4) as usize;
        let attrs = (0..na).map(|_| Attr { name: Text::new(pick_name(rng)), value: if rng.chance(1, 2) { Value::Extant } else { gen_value(rng, depth - 1) } }).collect();
        let items = (0..ni)
            .map(|_| {
                if rng.chance(2, 3) {
                    Item::ValueItem(gen_value(rng, depth - 1))
                } else {
                    Item::Slot(gen_value(rng, depth - 1), gen_value(rng, depth - 1))
                }
            })
            .collect();
        Value::Record(attrs, items)
    }
}

fn as_bigint(v: &Value) -> Option<BigInt> {
    Some(match v {
        Value::Int32Value(n) => BigInt::from(*n),
        Value::Int64Value(n) => BigInt::from(*n),
        Value::UInt32Value(n) => BigInt::from(*n),
        Value::UInt64Value(n) => BigInt::from(*n),
        Value::BigInt(n) => n.clone(),
        Value::BigUint(n) => BigInt::from(n.clone()),
        _ => return None,
    })
}

/// A value related to `v`: the same number in another kind, a neighbour, a float a few ulps away, a record with one
/// element changed, ... (so that pairs and triples land in the interesting cells far more often than by chance).
fn mutate(rng: &mut Rng, v: &Value, depth: u32) -> Value {
    if let Some(n) = as_bigint(v) {
        let r = rng.below(10);
        return if r < 5 {
            int_in_kind(rng, &n)
        } else if r < 8 {
            let m = n + BigInt::from(rng.range(0, 2) as i64 - 1);
            int_in_kind(rng, &m)
        } else {
            let x = big_to_f64(&n);
            Value::Float64Value(x + *rng.pick(&[0.0, 0.5, -0.5, 1.0]))
        };
    }
    match v {
        Value::Float64Value(x) => {
            let r = rng.below(10);
            if r < 4 {
                let k = rng.range(0, 4) as i64 - 2;
                Value::Float64Value(f64::from_bits((x.to_bits() as i64).wrapping_add(k) as u64))
            } else if r < 6 {
                Value::Float64Value(x + (rng.range(0, 8) as f64 - 4.0) * (f64::EPSILON / 4.0))
            } else if r < 7 {
                Value::Float64Value(-*x)
            } else if x.is_finite() && x.abs() < 1e30 {
                // the integer part in an integer kind
                let n = BigInt::from(*x as i128);
                int_in_kind(rng, &n)
            } else {
                Value::Float64Value(gen_float(rng))
            }
        }
        Value::Text(t) => {
            if rng.chance(1, 3) {
                Value::Data(Blob::from_vec(t.as_str().as_bytes().to_vec()))
            } else {
                txt(pick_name(rng))
            }
        }
        Value::Data(b) => {
            let bs: &[u8] = b.as_ref();
            if rng.chance(1, 3) {
                rec(vec![], vec![vi(v.clone())])
            } else {
                let mut bs = bs.to_vec();
                bs.push(*rng.pick(&[0u8, 0x61, 255]));
                Value::Data(Blob::from_vec(bs))
            }
        }
        Value::Record(attrs, items) => {
            let mut attrs = attrs.clone();
            let mut items = items.clone();
            let r = rng.below(10);
            if r < 4 && !items.is_empty() {
                let i = rng.below(items.len() as u64) as usize;
                items[i] = match &items[i] {
                    Item::ValueItem(x) => {
                        if rng.chance(1, 5) {
                            Item::Slot(x.clone(), Value::Extant)
                        } else {
                            Item::ValueItem(mutate(rng, x, depth.saturating_sub(1)))
                        }
                    }
                    Item::Slot(k, x) => {
                        if rng.chance(1, 2) {
                            Item::Slot(mutate(rng, k, depth.saturating_sub(1)), x.clone())
                        } else {
                            Item::Slot(k.clone(), mutate(rng, x, depth.saturating_sub(1)))
                        }
                    }
                };
            } else if r < 6 && !attrs.is_empty() {
                let i = rng.below(attrs.len() as u64) as usize;
                if rng.chance(1, 2) {
                    attrs[i].value = mutate(rng, &attrs[i].value, depth.saturating_sub(1));
                } else {
                    attrs[i].name = Text::new(pick_name(rng));
                }
            } else if r < 7 {
                items.push(Item::ValueItem(gen_value(rng, 0)));
            } else if r < 8 {
                attrs.push(Attr { name: Text::new(pick_name(rng)), value: Value::Extant });
            } else if r < 9 && !items.is_empty() {
                items.pop();
            } else if let (true, Some(Item::ValueItem(x))) = (attrs.is_empty(), items.first()) {
                // an attribute moved to an item position and vice versa
                return Value::Record(vec![Attr { name: Text::new("a"), value: x.clone() }], items[1..].to_vec());
            }
            Value::Record(attrs, items)
        }
        _ => gen_value(rng, depth),
    }
}

fn shard_of(seed: u64) -> u64 {
    seed % 1000
}

/// No `Float64` anywhere inside (the fragment `F` of the theorems).
fn in_f(v: &Value) -> bool {
    match v {
        Value::Float64Value(_) => false,
        Value::Record(attrs, items) => {
            attrs.iter().all(|a| in_f(&a.value))
                && items.iter().all(|i| match i {
                    Item::ValueItem(v) => in_f(v),
                    Item::Slot(k, v) => in_f(k) && in_f(v),
                })
        }
        _ => true,
    }
}

fn main() {
    // `catch_unwind` reports panics as the output `panic`; keep stderr quiet
    let default_hook = std::panic::take_hook();
    std::panic::set_hook(Box::new(move |info| {
        if !QUIET.load(std::sync::atomic::Ordering::SeqCst) {
            default_hook(info);
        }
    }));
    match parse_args() {
        Mode::Gen { seed, cases, out } => {
            let mut t = Trace::create(&out);
            let extra: Vec<String> = std::env::args().skip(5).collect();
            let kind = extra.first().map(|s| s.as_str()).unwrap_or("random");
            let nshards: u64 = extra.get(1).and_then(|s| s.parse().ok()).unwrap_or(1);
            let me = shard_of(seed);
            match kind {
                // every value, every ordered pair of the full pool
                "pairs" => {
                    let p: Vec<String> = pool(2).iter().map(es).collect();
                    let mut k = 0u64;
                    for (i, a) in p.iter().enumerate() {
                        if k % nshards == me {
                            case_refl(&mut t, &format!("{}", i), a);
                        }
                        k += 1;
                        for (j, b) in p.iter().enumerate().skip(i + 1) {
                            if k % nshards == me {
                                cases_pair(&mut t, &format!("{} {}", i, j), a, b);
                            }
                            k += 1;
                        }
                    }
                }
                // every ordered triple of the level-0/1/2 pool (`triples <nshards> <level>`), then `cases` random
                // triples of the full pool
                "triples" => {
                    let level: u8 = extra.get(2).map(|s| s.parse().unwrap()).unwrap_or(0);
                    let p: Vec<String> = pool(level).iter().map(es).collect();
                    let mut k = 0u64;
                    for (i, a) in p.iter().enumerate() {
                        for (j, b) in p.iter().enumerate() {
                            for (l, c) in p.iter().enumerate() {
                                if k % nshards == me {
                                    cases_triple(&mut t, &format!("{} {} {}", i, j, l), a, b, c);
                                }
                                k += 1;
                            }
                        }
                    }
                    let p: Vec<String> = pool(2).iter().map(es).collect();
                    let mut rng = Rng::new(seed);
                    for c in 0..cases {
                        let (a, b, d) = (rng.pick(&p).clone(), rng.pick(&p).clone(), rng.pick(&p).clone());
                        cases_triple(&mut t, &format!("r{} seed={}", c, seed), &a, &b, &d);
                    }
                }
                // what `drop_or_take` does: `sort_by(Value::cmp)` on lists of keys. `sort F`: values of the fragment F
                // only (the stable sorted order is unique: compared with the model); `sort any`: everything,
                // including chains of floats closer than EPSILON (monitor only: a panic is a violation)
                "sort" => {
                    let only_f = extra.get(1).map(|s| s == "F").unwrap_or(false);
                    let mut rng = Rng::new(seed);
                    let p: Vec<Value> = pool(2).into_iter().filter(|v| !only_f || in_f(v)).collect();
                    for c in 0..cases {
                        let n = if rng.chance(2, 3) { rng.range(2, 12) } else { rng.range(21, 70) } as usize;
                        let mut vs: Vec<Value> = vec![];
                        let style = rng.below(4);
                        let base = gen_float(&mut rng);
                        let step = (rng.range(1, 6) as f64) * (f64::EPSILON / 4.0);
                        while vs.len() < n {
                            let v = if !only_f && style == 0 {
                                // a ladder of floats a fraction of EPSILON apart
                                Value::Float64Value(base + (rng.below(n as u64) as f64) * step)
                            } else if style == 1 && !vs.is_empty() && rng.chance(2, 3) {
                                let i = rng.below(vs.len() as u64) as usize;
                                mutate(&mut rng, &vs[i].clone(), 2)
                            } else if rng.chance(1, 2) {
                                rng.pick(&p).clone()
                            } else {
                                gen_value(&mut rng, 2)
                            };
                            if !only_f || in_f(&v) {
                                vs.push(v);
                            }
                        }
                        t.case(format!("sort{} seed={}", c, seed));
                        let op = format!("sort {}", vs.iter().map(es).collect::<Vec<_>>().join(" "));
                        run_case(&mut t, &[op]);
                    }
                }
                "poolsize" => {
                    println!("full={} core={} small={}", pool(2).len(), pool(1).len(), pool(0).len());
                }
                // generated values: a value, mutants of it, independent ones
                _ => {
                    let mut rng = Rng::new(seed);
                    let p = pool(2);
                    for c in 0..cases {
                        let a = if rng.chance(1, 4) { rng.pick(&p).clone() } else { gen_value(&mut rng, 2) };
                        let b = if rng.chance(3, 4) { mutate(&mut rng, &a, 2) } else { gen_value(&mut rng, 2) };
                        let d = match rng.below(4) {
                            0 => mutate(&mut rng, &a, 2),
                            1 | 2 => mutate(&mut rng, &b, 2),
                            _ => gen_value(&mut rng, 2),
                        };
                        let (sa, sb, sd) = (es(&a), es(&b), es(&d));
                        let id = format!("g{} seed={}", c, seed);
                        match rng.below(6) {
                            0 => {
                                case_refl(&mut t, &id, &sa);
                                cases_pair(&mut t, &id, &sa, &sb);
                            }
                            1 => cases_pair(&mut t, &id, &sb, &sd),
                            _ => {
                                // all six orders of the triple would be 6x the work; pick one at random
                                let mut v = [sa, sb, sd];
                                for i in (1..3).rev() {
                                    let j = rng.below(i as u64 + 1) as usize;
                                    v.swap(i, j);
                                }
                                cases_triple(&mut t, &id, &v[0], &v[1], &v[2]);
                            }
                        }
                    }
                }
            }
            t.finish();
        }
        Mode::Replay { ops, out } => {
            let mut t = Trace::create(&out);
            for (i, case) in ops.iter().enumerate() {
                t.case(i);
                run_case(&mut t, case);
            }
            t.finish();
        }
    }
}
