//! C15 correspondence: `compare_recon_values` / `recon_hash` (public API of `swimos_recon`) against parsing
//! (`parse_recognize::<Value>`) + `Value::eq`, and the consequence for the keys of the backpressure queue.
//!
//! Ops (every text is hex of its UTF-8 bytes, `-` = empty):
//!   ev <t>          ;; `evs=<tok,tok,..|-> <end|err>`   the `ReadEvent`s the real `ParseIterator` produces (observed through a
//!                                                    recording `Recognizer` passed to the public `parse_recognize`)
//!   val <t>         ;; `val=ok:<venc>` | `val=err` | `val=panic`  `parse_recognize::<Value>(t, false)`
//!   hash <t>        ;; `calls=<call,call,..>`               every `Hasher::write_*` call `recon_hash(t, _)` makes
//!   pair <a> <b>    ;; `cmp=<0|1|panic> rcmp=.. heq=<0|1|panic> va=<ok|err|panic> vb=.. veq=<0|1|->`
//!   keys <t1> .. <tn> ;; `entries=<i>:<j>,..`  push `Update(key = t_k, value = k)` for k = 0..n-1 into the real
//!                        `MapOperationQueue`, pop everything: entry = (index of the text equal to the popped key, popped value)
//! An op with a text outside the float fragment (see `in_float_fragment`) is answered `out-of-fragment`, by the model too.
//!
//! Event tokens: `X` | `T<hex>` | `Ni:<i64>` | `Nu:<u64>` | `Nb:<bigint>` | `Nc:<biguint>` | `F<+|-><digits>e<exp>` | `B0` | `B1`
//!   | `D<hex>` | `A<hex name>` | `EA` | `SB` | `SL` | `ER`.
//! Hasher calls: `i<isize>` (enum discriminant) | `u<u8>` | `w<i128>` | `z<usize>` | `q<float>` (`write_u64` of float bits,
//!   rendered as the float) | `b<hex>` (`write`).
use std::cell::RefCell;
use std::hash::{BuildHasherDefault, Hasher};
use std::panic::{catch_unwind, AssertUnwindSafe};

use bytes::BytesMut;
use num_bigint::{BigInt, BigUint};
use svh::{hex, parse_args, unhex, Mode, Rng, Trace};
use swimos_agent_protocol::MapOperation;
use swimos_form::read::{NumericValue, ReadError, ReadEvent, Recognizer, RecognizerReadable};
use swimos_model::{Attr, Blob, Item, Text, Value};
use swimos_recon::parser::parse_recognize;
use swimos_recon::{compare_recon_values, print_recon, print_recon_compact, print_recon_pretty, recon_hash};
use swimos_runtime::verif::backpressure::MapOperationQueue;

// ------------------------------------------------------------------------------------------- value encoding (as C09)

fn fenc(x: f64) -> String {
    if x.is_nan() {
        return "FN".into();
    }
    if x.is_infinite() {
        return if x > 0.0 { "F+I".into() } else { "F-I".into() };
    }
    let s = format!("{:e}", x);
    let (neg, s) = match s.strip_prefix('-') {
        Some(r) => (true, r.to_string()),
        None => (false, s),
    };
    let (mant, exp) = s.split_once('e').expect("exp");
    let exp: i64 = exp.parse().expect("exp int");
    let digits: String = mant.chars().filter(|c| *c != '.').collect();
    let frac_len = mant.split_once('.').map(|(_, f)| f.len()).unwrap_or(0) as i64;
    format!("F{}{}e{}", if neg { '-' } else { '+' }, digits, exp - frac_len)
}

fn venc_into(v: &Value, out: &mut Vec<String>) {
    match v {
        Value::Extant => out.push("X".into()),
        Value::Int32Value(n) => out.push(format!("Ia:{}", n)),
        Value::Int64Value(n) => out.push(format!("Ib:{}", n)),
        Value::UInt32Value(n) => out.push(format!("Ic:{}", n)),
        Value::UInt64Value(n) => out.push(format!("Id:{}", n)),
        Value::BigInt(n) => out.push(format!("Ie:{}", n)),
        Value::BigUint(n) => out.push(format!("If:{}", n)),
        Value::Float64Value(x) => out.push(fenc(*x)),
        Value::BooleanValue(b) => out.push(if *b { "B1".into() } else { "B0".into() }),
        Value::Text(t) => out.push(format!("T{}", hex(t.as_str().as_bytes()))),
        Value::Data(b) => out.push(format!("D{}", hex(b.as_ref()))),
        Value::Record(attrs, items) => {
            out.push(format!("R:{}:{}", attrs.len(), items.len()));
            for Attr { name, value } in attrs {
                out.push(format!("A{}", hex(name.as_str().as_bytes())));
                venc_into(value, out);
            }
            for it in items {
                match it {
                    Item::ValueItem(v) => {
                        out.push("V".into());
                        venc_into(v, out);
                    }
                    Item::Slot(k, v) => {
                        out.push("S".into());
                        venc_into(k, out);
                        venc_into(v, out);
                    }
                }
            }
        }
    }
}

fn venc(v: &Value) -> String {
    let mut out = vec![];
    venc_into(v, &mut out);
    out.join(",")
}

// ------------------------------------------------------------------------------------------- observing the events

thread_local! {
    static EVENTS: RefCell<Vec<String>> = const { RefCell::new(Vec::new()) };
}

fn ev_token(ev: &ReadEvent<'_>) -> String {
    match ev {
        ReadEvent::Extant => "X".into(),
        ReadEvent::TextValue(s) => format!("T{}", hex(s.as_bytes())),
        ReadEvent::Number(NumericValue::Int(n)) => format!("Ni:{}", n),
        ReadEvent::Number(NumericValue::UInt(n)) => format!("Nu:{}", n),
        ReadEvent::Number(NumericValue::BigInt(n)) => format!("Nb:{}", n),
        ReadEvent::Number(NumericValue::BigUint(n)) => format!("Nc:{}", n),
        ReadEvent::Number(NumericValue::Float(x)) => fenc(*x),
        ReadEvent::Boolean(b) => if *b { "B1".into() } else { "B0".into() },
        ReadEvent::Blob(b) => format!("D{}", hex(b)),
        ReadEvent::StartAttribute(n) => format!("A{}", hex(n.as_bytes())),
        ReadEvent::EndAttribute => "EA".into(),
        ReadEvent::StartBody => "SB".into(),
        ReadEvent::Slot => "SL".into(),
        ReadEvent::EndRecord => "ER".into(),
    }
}

/// A "type" whose recognizer never completes: it only records the events it is fed.
struct Dump;
struct DumpRec;

impl Recognizer for DumpRec {
    type Target = Dump;
    fn feed_event(&mut self, input: ReadEvent<'_>) -> Option<Result<Dump, ReadError>> {
        EVENTS.with(|e| e.borrow_mut().push(ev_token(&input)));
        None
    }
    fn try_flush(&mut self) -> Option<Result<Dump, ReadError>> {
        Some(Ok(Dump))
    }
    fn reset(&mut self) {}
}

impl RecognizerReadable for Dump {
    type Rec = DumpRec;
    type AttrRec = DumpRec;
    type BodyRec = DumpRec;
    fn make_recognizer() -> DumpRec {
        DumpRec
    }
    fn make_attr_recognizer() -> DumpRec {
        DumpRec
    }
    fn make_body_recognizer() -> DumpRec {
        DumpRec
    }
}

fn ev_op(text: &str) -> String {
    EVENTS.with(|e| e.borrow_mut().clear());
    let r = catch_unwind(AssertUnwindSafe(|| parse_recognize::<Dump>(text, false).is_ok()));
    let evs = EVENTS.with(|e| e.borrow().join(","));
    let evs = if evs.is_empty() { "-".to_string() } else { evs };
    match r {
        Ok(true) => format!("evs={} end", evs),
        Ok(false) => format!("evs={} err", evs),
        Err(_) => format!("evs={} panic", evs),
    }
}

// ------------------------------------------------------------------------------------------- observing the hasher

#[derive(Default)]
struct RecHasher(Vec<String>);

impl Hasher for RecHasher {
    fn finish(&self) -> u64 {
        0
    }
    fn write(&mut self, bytes: &[u8]) {
        self.0.push(format!("b{}", hex(bytes)));
    }
    fn write_u8(&mut self, i: u8) {
        self.0.push(format!("u{}", i));
    }
    fn write_u64(&mut self, i: u64) {
        self.0.push(format!("q{}", &fenc(f64::from_bits(i))[1..]));
    }
    fn write_i128(&mut self, i: i128) {
        self.0.push(format!("w{}", i));
    }
    fn write_isize(&mut self, i: isize) {
        self.0.push(format!("i{}", i));
    }
    fn write_usize(&mut self, i: usize) {
        self.0.push(format!("z{}", i));
    }
    fn write_u16(&mut self, i: u16) {
        self.0.push(format!("other16:{}", i));
    }
    fn write_u32(&mut self, i: u32) {
        self.0.push(format!("other32:{}", i));
    }
    fn write_u128(&mut self, i: u128) {
        self.0.push(format!("other128:{}", i));
    }
}

fn hash_calls(text: &str) -> Result<Vec<String>, ()> {
    catch_unwind(AssertUnwindSafe(|| {
        let mut h = RecHasher::default();
        recon_hash(text, &mut h);
        h.0
    }))
    .map_err(|_| ())
}

fn hash_op(text: &str) -> String {
    match hash_calls(text) {
        Ok(c) if c.is_empty() => "calls=-".into(),
        Ok(c) => format!("calls={}", c.join(",")),
        Err(()) => "calls=panic".into(),
    }
}

// ------------------------------------------------------------------------------------------- the property ops

fn parse_one(text: &str) -> Result<Result<Value, ()>, ()> {
    catch_unwind(AssertUnwindSafe(|| parse_recognize::<Value>(text, false).map_err(|_| ()))).map_err(|_| ())
}

fn val_op(text: &str) -> String {
    match parse_one(text) {
        Ok(Ok(v)) => format!("val=ok:{}", venc(&v)),
        Ok(Err(())) => "val=err".into(),
        Err(()) => "val=panic".into(),
    }
}

fn bit(r: Result<bool, ()>) -> &'static str {
    match r {
        Ok(true) => "1",
        Ok(false) => "0",
        Err(()) => "panic",
    }
}

fn pair_op(a: &str, b: &str) -> String {
    let cmp = catch_unwind(AssertUnwindSafe(|| compare_recon_values(a, b))).map_err(|_| ());
    let rcmp = catch_unwind(AssertUnwindSafe(|| compare_recon_values(b, a))).map_err(|_| ());
    let heq = match (hash_calls(a), hash_calls(b)) {
        (Ok(x), Ok(y)) => Ok(x == y),
        _ => Err(()),
    };
    let va = parse_one(a);
    let vb = parse_one(b);
    let st = |v: &Result<Result<Value, ()>, ()>| match v {
        Ok(Ok(_)) => "ok",
        Ok(Err(())) => "err",
        Err(()) => "panic",
    };
    let veq = match (&va, &vb) {
        (Ok(Ok(x)), Ok(Ok(y))) => match catch_unwind(AssertUnwindSafe(|| x == y)) {
            Ok(true) => "1",
            Ok(false) => "0",
            Err(_) => "panic",
        },
        _ => "-",
    };
    format!("cmp={} rcmp={} heq={} va={} vb={} veq={}", bit(cmp), bit(rcmp), bit(heq), st(&va), st(&vb), veq)
}

/// Deterministic `BuildHasher` for the queue's map (std's SipHash-1-3 with zero keys).
type FixedState = BuildHasherDefault<std::collections::hash_map::DefaultHasher>;

fn keys_op(texts: &[String]) -> String {
    let r = catch_unwind(AssertUnwindSafe(|| {
        let mut q: MapOperationQueue<FixedState> = MapOperationQueue::with_hasher(FixedState::default());
        for (k, t) in texts.iter().enumerate() {
            let key = BytesMut::from(t.as_bytes());
            let value = BytesMut::from(format!("{}", k).as_bytes());
            if q.push(MapOperation::Update { key, value }).is_err() {
                return "entries=invalid-key".to_string();
            }
        }
        let mut out = vec![];
        while let Some(op) = q.pop() {
            match op {
                MapOperation::Update { key, value } => {
                    let kt = String::from_utf8_lossy(key.as_ref()).to_string();
                    let idx = texts.iter().position(|t| *t == kt).map(|i| i.to_string()).unwrap_or_else(|| "?".into());
                    out.push(format!("{}:{}", idx, String::from_utf8_lossy(value.as_ref())));
                }
                _ => out.push("?".into()),
            }
        }
        if out.is_empty() {
            "entries=-".to_string()
        } else {
            format!("entries={}", out.join(","))
        }
    }));
    r.unwrap_or_else(|_| "entries=panic".into())
}

// ------------------------------------------------------------------------------------------- the float fragment

/// The model carries floats as exact decimals and compares them as such, which agrees with `f64` comparison only when
/// every float literal is short: at most 15 significant digits and a decimal exponent of at most two digits (then the
/// literal is the shortest representation of the `f64` it denotes, up to trailing zeros, and no overflow/underflow
/// occurs).  Conservative textual test: every maximal run of `[0-9.]` that contains a `.`, follows a `+` or is followed
/// by an exponent has at most 15 digits, and no exponent has more than 2 digits.
fn in_float_fragment(text: &str) -> bool {
    let cs: Vec<char> = text.chars().collect();
    let n = cs.len();
    let mut i = 0;
    while i < n {
        if cs[i].is_ascii_digit() || cs[i] == '.' {
            let start = i;
            let mut digits = 0;
            let mut has_dot = false;
            while i < n && (cs[i].is_ascii_digit() || cs[i] == '.') {
                if cs[i] == '.' {
                    has_dot = true;
                } else {
                    digits += 1;
                }
                i += 1;
            }
            let mut floaty = has_dot || (start > 0 && cs[start - 1] == '+');
            // exponent marker after the run
            if i < n && (cs[i] == 'e' || cs[i] == 'E') {
                let mut j = i + 1;
                if j < n && (cs[j] == '+' || cs[j] == '-') {
                    j += 1;
                }
                let es = j;
                while j < n && cs[j].is_ascii_digit() {
                    j += 1;
                }
                if j > es {
                    floaty = true;
                    if j - es > 2 {
                        return false;
                    }
                }
            }
            if floaty && digits > 15 {
                return false;
            }
        } else {
            i += 1;
        }
    }
    true
}

// ------------------------------------------------------------------------------------------- generators: values (as C09)

const ID_BOUNDARY: &[u32] = &[
    0xb7, 0xc0, 0xd6, 0xd8, 0xf6, 0xf8, 0x37d, 0x37f, 0x1fff, 0x200c, 0x200d, 0x203f, 0x2040, 0x2070, 0x218f, 0x2c00,
    0x2fef, 0x3001, 0xd7ff, 0xf900, 0xfdcf, 0xfdf0, 0xfffd, 0x10000, 0xeffff,
];
const NON_ID_BOUNDARY: &[u32] = &[
    0xb6, 0xb8, 0xbf, 0xd7, 0xf7, 0x37e, 0x2000, 0x200b, 0x200e, 0x203e, 0x2041, 0x206f, 0x2190, 0x2bff, 0x2ff0,
    0x3000, 0xe000, 0xf8ff, 0xfdd0, 0xfdef, 0xfffe, 0xffff, 0xf0000, 0x10ffff, 0x7f, 0x80, 0xa0,
];

fn id_start(rng: &mut Rng) -> char {
    match rng.below(10) {
        0..=5 => (b'a' + rng.below(26) as u8) as char,
        6 => (b'A' + rng.below(26) as u8) as char,
        7 => '_',
        _ => char::from_u32(*rng.pick(ID_BOUNDARY)).unwrap(),
    }
}

fn id_char(rng: &mut Rng) -> char {
    match rng.below(10) {
        0..=5 => id_start(rng),
        6 | 7 => (b'0' + rng.below(10) as u8) as char,
        8 => '-',
        _ => id_start(rng),
    }
}

fn gen_ident(rng: &mut Rng) -> String {
    if rng.chance(1, 2) {
        return rng.pick(&["a", "b", "name", "tag", "k", "first", "_x", "a-b", "n2", "update", "key"]).to_string();
    }
    let mut s = String::new();
    s.push(id_start(rng));
    for _ in 0..rng.below(5) {
        s.push(id_char(rng));
    }
    if s == "true" || s == "false" {
        s.push('_');
    }
    s
}

fn any_char(rng: &mut Rng) -> char {
    match rng.below(16) {
        0..=4 => (0x20 + rng.below(0x5f) as u8) as char,
        5 => char::from_u32(rng.below(0x20) as u32).unwrap(),
        6 | 12 => *rng.pick(&['"', '\\', '\n', '\r', '\t', '\u{8}', '\u{c}', ' ', '@', '{', '}', '(', ')', ':', ',', ';', '%', '#', '\'']),
        7 => char::from_u32(*rng.pick(NON_ID_BOUNDARY)).unwrap(),
        8 => char::from_u32(*rng.pick(ID_BOUNDARY)).unwrap(),
        9 => (b'0' + rng.below(10) as u8) as char,
        10 => *rng.pick(&['u', 'n', 'b', 'f', 'r', 't', '-', '+', '.', 'e', 'E', '=', '/']),
        _ => id_char(rng),
    }
}

fn gen_text(rng: &mut Rng) -> String {
    match rng.below(12) {
        0..=4 => gen_ident(rng),
        5 => rng
            .pick(&["true", "false", "", "two words", "2morrow", "-a", "a b", "\"", "\\", "NaN", "inf", "0x10", "%AAAA", "@a", "a:b",
                "{}", "1", "-1", "1.5", "\u{7f}", "\u{1f}", "\u{0}", "a,b", "(", ")", "x;y", "{", "}", "a)b", "a(b", "(,"])
            .to_string(),
        _ => (0..rng.below(7)).map(|_| any_char(rng)).collect(),
    }
}

fn gen_int(rng: &mut Rng) -> Value {
    let two63 = BigInt::from(1u64 << 63);
    let two64: BigInt = BigInt::from(u64::MAX) + 1;
    let two127: BigInt = BigInt::from(1u8) << 127;
    let cands: Vec<BigInt> = vec![
        0.into(),
        1.into(),
        (-1).into(),
        7.into(),
        10.into(),
        (-42).into(),
        i32::MAX.into(),
        (i32::MAX as i64 + 1).into(),
        i32::MIN.into(),
        (i32::MIN as i64 - 1).into(),
        u32::MAX.into(),
        (u32::MAX as i64 + 1).into(),
        i64::MAX.into(),
        two63.clone(),
        i64::MIN.into(),
        (i64::MIN + 1).into(),
        -two63.clone() - 1,
        u64::MAX.into(),
        two64.clone(),
        two64.clone() + 1,
        -two64.clone(),
        two127.clone() - 1,
        two127.clone(),
        -two127.clone(),
        -two127.clone() - 1,
        BigInt::from(1u8) << 128,
        BigInt::from(1u8) << 200,
        "1000000000000000000000000000000".parse().unwrap(),
        "-1000000000000000000000000000000".parse().unwrap(),
        BigInt::from(rng.next() as i64),
        BigInt::from(rng.next() as i32),
        BigInt::from(rng.next()),
        BigInt::from(rng.below(1000)),
        BigInt::from(rng.below(20)),
    ];
    let n = rng.pick(&cands).clone();
    let mut kinds: Vec<Value> = vec![Value::BigInt(n.clone())];
    if let Some(u) = n.to_biguint() {
        kinds.push(Value::BigUint(u));
    }
    if let Ok(x) = i32::try_from(&n) {
        kinds.push(Value::Int32Value(x));
        kinds.push(Value::Int32Value(x));
    }
    if let Ok(x) = i64::try_from(&n) {
        kinds.push(Value::Int64Value(x));
    }
    if let Ok(x) = u32::try_from(&n) {
        kinds.push(Value::UInt32Value(x));
    }
    if let Ok(x) = u64::try_from(&n) {
        kinds.push(Value::UInt64Value(x));
    }
    rng.pick(&kinds).clone()
}

/// A float whose shortest decimal has at most 15 digits and a small exponent (the fragment the model can judge).
fn gen_float(rng: &mut Rng) -> f64 {
    match rng.below(10) {
        0 => *rng.pick(&[0.0, -0.0, 1.0, -1.0, 0.5, 1e15, 1e21, 1e-5, 1e-7, 123456.789, 0.1, 0.3, 1e50, 1.5e-10, 2.0, 10.0]),
        1..=5 => {
            let m = rng.below(2_000_000) as f64 - 1_000_000.0;
            m / *rng.pick(&[1.0, 2.0, 4.0, 8.0, 10.0, 1000.0])
        }
        _ => {
            let nd = 1 + rng.below(15) as u32;
            let digits = rng.below(10u64.pow(nd));
            let e = rng.below(61) as i32 - 30;
            let s = format!("{}{}e{}", if rng.chance(1, 2) { "-" } else { "" }, digits, e);
            s.parse().unwrap()
        }
    }
}

fn gen_prim(rng: &mut Rng) -> Value {
    match rng.below(14) {
        0 => Value::Extant,
        1..=4 => gen_int(rng),
        5 => Value::Float64Value(gen_float(rng)),
        6 => Value::BooleanValue(rng.chance(1, 2)),
        7..=11 => Value::Text(Text::from(gen_text(rng))),
        _ => {
            let n = *rng.pick(&[0usize, 1, 2, 3, 4, 5, 6, 7]);
            Value::Data(Blob::from_vec((0..n).map(|_| rng.next() as u8).collect()))
        }
    }
}

fn gen_attr_name(rng: &mut Rng) -> String {
    if rng.chance(1, 12) {
        gen_text(rng)
    } else {
        gen_ident(rng)
    }
}

fn gen_value(rng: &mut Rng, depth: u32) -> Value {
    if depth == 0 || rng.chance(2, 5) {
        return gen_prim(rng);
    }
    let na = *rng.pick(&[0usize, 0, 0, 1, 1, 2, 3]);
    let ni = *rng.pick(&[0usize, 1, 1, 2, 2, 3, 4]);
    let mut attrs = vec![];
    for _ in 0..na {
        let value = match rng.below(10) {
            0..=2 => Value::Extant,
            3..=5 => gen_prim(rng),
            _ => gen_value(rng, depth - 1),
        };
        attrs.push(Attr { name: Text::from(gen_attr_name(rng)), value });
    }
    let mut items = vec![];
    for _ in 0..ni {
        if rng.chance(3, 5) {
            items.push(Item::ValueItem(gen_value(rng, depth - 1)));
        } else {
            let key = if rng.chance(7, 10) { Value::Text(Text::from(gen_text(rng))) } else { gen_value(rng, depth - 1) };
            items.push(Item::Slot(key, gen_value(rng, depth - 1)));
        }
    }
    Value::Record(attrs, items)
}

/// 1..3 small changes (two structural moves can cancel in the comparator's size bookkeeping where one cannot).
fn mutate_value(rng: &mut Rng, v: &Value) -> Value {
    let n = *rng.pick(&[1u32, 1, 1, 2, 2, 3]);
    let mut w = mutate_once(rng, v);
    for _ in 1..n {
        w = mutate_once(rng, &w);
    }
    w
}

/// A near miss of `v`: one small change somewhere (possibly none that changes the value's identity).
fn mutate_once(rng: &mut Rng, v: &Value) -> Value {
    match v {
        Value::Record(attrs, items) if rng.chance(4, 5) => {
            let mut attrs = attrs.clone();
            let mut items = items.clone();
            let total = attrs.len() + items.len();
            match rng.below(15) {
                // shift a brace: [.., {a, b..}, ..] -> [.., a, {b..}, ..]  /  [.., a, {b..}, ..] -> [.., {a, b..}, ..]
                // (the number of leaves and of braces stays the same: what additive sizes cannot see)
                12 | 13 | 14 if !items.is_empty() => {
                    let i = rng.below(items.len() as u64) as usize;
                    match items[i].clone() {
                        Item::ValueItem(Value::Record(a, mut inner)) if a.is_empty() && !inner.is_empty() => {
                            if rng.chance(1, 2) {
                                let first = inner.remove(0);
                                items[i] = Item::ValueItem(Value::Record(vec![], inner));
                                items.insert(i, first);
                            } else {
                                let last = inner.pop().unwrap();
                                items[i] = Item::ValueItem(Value::Record(vec![], inner));
                                items.insert(i + 1, last);
                            }
                        }
                        x if i + 1 < items.len() => {
                            if let Item::ValueItem(Value::Record(a, inner)) = items[i + 1].clone() {
                                if a.is_empty() {
                                    let mut inner2 = vec![x];
                                    inner2.extend(inner);
                                    items[i + 1] = Item::ValueItem(Value::Record(vec![], inner2));
                                    items.remove(i);
                                }
                            }
                        }
                        _ => {}
                    }
                }
                0 if !items.is_empty() => {
                    let i = rng.below(items.len() as u64) as usize;
                    items.remove(i);
                }
                1 => {
                    let i = rng.below(items.len() as u64 + 1) as usize;
                    let x = match rng.below(4) {
                        0 => Value::Record(vec![], vec![]),
                        1 => Value::Extant,
                        _ => gen_prim(rng),
                    };
                    items.insert(i, Item::ValueItem(x));
                }
                2 if !attrs.is_empty() => {
                    let i = rng.below(attrs.len() as u64) as usize;
                    attrs.remove(i);
                }
                3 => {
                    let i = rng.below(attrs.len() as u64 + 1) as usize;
                    attrs.insert(i, Attr { name: Text::from(gen_ident(rng)), value: Value::Extant });
                }
                4 if items.len() >= 2 => {
                    let i = rng.below(items.len() as u64 - 1) as usize;
                    items.swap(i, i + 1);
                }
                // structure moves that the comparator's size bookkeeping has to tell apart
                5 if !attrs.is_empty() => {
                    // wrap the attribute's value in a record / unwrap it
                    let i = rng.below(attrs.len() as u64) as usize;
                    let old = attrs[i].value.clone();
                    attrs[i].value = match old {
                        Value::Record(a, mut it) if a.is_empty() && it.len() == 1 => match it.pop().unwrap() {
                            Item::ValueItem(x) => x,
                            s => Value::Record(vec![], vec![s, Item::ValueItem(Value::Extant)]),
                        },
                        o => Value::Record(vec![], vec![Item::ValueItem(o)]),
                    };
                }
                6 if !items.is_empty() => {
                    // wrap an item in a record / flatten a nested record into its parent
                    let i = rng.below(items.len() as u64) as usize;
                    match items[i].clone() {
                        Item::ValueItem(Value::Record(a, inner)) if a.is_empty() && rng.chance(1, 2) => {
                            items.remove(i);
                            for (k, x) in inner.into_iter().enumerate() {
                                items.insert(i + k, x);
                            }
                        }
                        Item::ValueItem(x) => items[i] = Item::ValueItem(Value::Record(vec![], vec![Item::ValueItem(x)])),
                        Item::Slot(k, x) => {
                            items[i] = if rng.chance(1, 2) {
                                Item::ValueItem(Value::Record(vec![], vec![Item::Slot(k, x)]))
                            } else {
                                Item::Slot(k, Value::Record(vec![], vec![Item::ValueItem(x)]))
                            }
                        }
                    }
                }
                7 if !items.is_empty() => {
                    // value item <-> slot
                    let i = rng.below(items.len() as u64) as usize;
                    items[i] = match items[i].clone() {
                        Item::ValueItem(x) => Item::Slot(x, Value::Extant),
                        Item::Slot(k, x) => if rng.chance(1, 2) { Item::ValueItem(k) } else { Item::Slot(x, k) },
                    };
                }
                8 if !attrs.is_empty() && !items.is_empty() => {
                    // move the last item into the last attribute's body, or the other way round
                    let a = attrs.len() - 1;
                    let moved = items.pop().unwrap();
                    attrs[a].value = match attrs[a].value.clone() {
                        Value::Extant => Value::Record(vec![], vec![moved]),
                        Value::Record(x, mut it) if x.is_empty() => {
                            it.push(moved);
                            Value::Record(x, it)
                        }
                        o => Value::Record(vec![], vec![Item::ValueItem(o), moved]),
                    };
                }
                9 if !attrs.is_empty() => {
                    // the attributes move one level down: @a @b {..}  ->  @a {@b {..}}
                    let last = attrs.pop().unwrap();
                    items = vec![Item::ValueItem(Value::Record(vec![last], items))];
                }
                _ if total > 0 => {
                    let i = rng.below(total as u64) as usize;
                    if i < attrs.len() {
                        if rng.chance(1, 3) {
                            attrs[i].name = Text::from(gen_ident(rng));
                        } else {
                            attrs[i].value = mutate_once(rng, &attrs[i].value.clone());
                        }
                    } else {
                        let j = i - attrs.len();
                        items[j] = match items[j].clone() {
                            Item::ValueItem(x) => Item::ValueItem(mutate_once(rng, &x)),
                            Item::Slot(k, x) => {
                                if rng.chance(1, 2) {
                                    Item::Slot(mutate_once(rng, &k), x)
                                } else {
                                    Item::Slot(k, mutate_once(rng, &x))
                                }
                            }
                        };
                    }
                }
                _ => {
                    items.push(Item::ValueItem(Value::Extant));
                }
            }
            Value::Record(attrs, items)
        }
        Value::Record(_, _) => gen_prim(rng),
        Value::Extant => if rng.chance(1, 2) { Value::Record(vec![], vec![]) } else { Value::Text(Text::from("")) },
        Value::Text(t) => match rng.below(4) {
            0 => Value::Text(Text::from(format!("{}x", t))),
            1 => Value::Text(Text::from(t.as_str().chars().skip(1).collect::<String>())),
            2 => match t.as_str().parse::<i64>() {
                Ok(n) => Value::Int64Value(n),
                Err(_) => Value::Record(vec![], vec![Item::ValueItem(v.clone())]),
            },
            _ => Value::Record(vec![Attr { name: t.clone(), value: Value::Extant }], vec![]),
        },
        Value::BooleanValue(b) => if rng.chance(1, 2) { Value::BooleanValue(!b) } else { Value::Text(Text::from(if *b { "True" } else { "False" })) },
        Value::Float64Value(x) => match rng.below(4) {
            0 => Value::Float64Value(-x),
            1 if x.fract() == 0.0 && x.abs() < 1e15 => Value::Int64Value(*x as i64),
            2 => Value::Float64Value(x + 1.0),
            _ => Value::Float64Value(x * 10.0),
        },
        Value::Data(b) => {
            let mut bs = b.as_ref().to_vec();
            if bs.is_empty() || rng.chance(1, 2) {
                bs.push(rng.next() as u8);
            } else {
                let i = rng.below(bs.len() as u64) as usize;
                bs[i] ^= 1 << rng.below(8);
            }
            Value::Data(Blob::from_vec(bs))
        }
        int => {
            // same number in another kind / a neighbour / the float or text with the same spelling
            let n: BigInt = match int {
                Value::Int32Value(n) => (*n).into(),
                Value::Int64Value(n) => (*n).into(),
                Value::UInt32Value(n) => (*n).into(),
                Value::UInt64Value(n) => (*n).into(),
                Value::BigInt(n) => n.clone(),
                Value::BigUint(n) => n.clone().into(),
                _ => 0.into(),
            };
            match rng.below(5) {
                0 => Value::BigInt(n + 1),
                1 => Value::BigInt(-n),
                2 => Value::Text(Text::from(n.to_string())),
                3 => match i32::try_from(&n) {
                    Ok(m) => Value::Float64Value(m as f64),
                    Err(_) => Value::BigInt(n - 1),
                },
                _ => Value::BigInt(n),
            }
        }
    }
}

/// The same structure with every primitive leaf replaced by `1` (texts that are slot keys keep a one-letter name):
/// the comparator's size bookkeeping only sees structure, equal leaves are what lets it be fooled.
fn uniform_leaves(v: &Value) -> Value {
    match v {
        Value::Record(attrs, items) => Value::Record(
            attrs.iter().map(|a| Attr { name: Text::from("a"), value: uniform_leaves(&a.value) }).collect(),
            items
                .iter()
                .map(|i| match i {
                    Item::ValueItem(x) => Item::ValueItem(uniform_leaves(x)),
                    Item::Slot(k, x) => Item::Slot(uniform_leaves(k), uniform_leaves(x)),
                })
                .collect(),
        ),
        Value::Extant => Value::Extant,
        _ => Value::Int32Value(1),
    }
}

fn print_style(style: u64, v: &Value) -> String {
    match style % 3 {
        0 => format!("{}", print_recon(v)),
        1 => format!("{}", print_recon_compact(v)),
        _ => format!("{}", print_recon_pretty(v)),
    }
}

// ------------------------------------------------------------------------------------------- generators: free-form writer

/// Writes a `Value` as Recon with random, value-preserving layout decisions: white space, separators, optional
/// braces / parentheses, numeric and string spellings.  (If a decision were not value-preserving the pair would simply be
/// an unequal one: the monitor judges with the real parser.)
struct W<'a> {
    rng: &'a mut Rng,
    out: String,
    /// 0 = printer-like; higher = wilder (new lines, escapes, radix, redundant zeros)
    wild: u64,
}

impl<'a> W<'a> {
    fn sp(&mut self) {
        if self.wild > 0 {
            match self.rng.below(6) {
                0 => self.out.push(' '),
                1 => self.out.push_str("  "),
                2 => self.out.push('\t'),
                _ => {}
            }
        }
    }
    fn ws(&mut self) {
        if self.wild > 0 {
            match self.rng.below(8) {
                0 => self.out.push(' '),
                1 => self.out.push('\n'),
                2 => self.out.push_str("\r\n"),
                3 => self.out.push_str("\n  "),
                _ => {}
            }
        }
    }
    fn string_lit(&mut self, s: &str) {
        self.out.push('"');
        for c in s.chars() {
            match c {
                '"' => self.out.push_str("\\\""),
                '\\' => self.out.push_str("\\\\"),
                '\n' => self.out.push_str("\\n"),
                '\r' => self.out.push_str("\\r"),
                '\t' => self.out.push_str("\\t"),
                '\u{8}' => self.out.push_str("\\b"),
                '\u{c}' => self.out.push_str("\\f"),
                c if (c as u32) < 0x20 => self.out.push_str(&format!("\\u{:04x}", c as u32)),
                c if self.wild > 1 && (c as u32) < 0x10000 && self.rng.chance(1, 5) => {
                    let us = if self.rng.chance(1, 5) { "uu" } else { "u" };
                    let hexs = if self.rng.chance(1, 2) { format!("{:04x}", c as u32) } else { format!("{:04X}", c as u32) };
                    self.out.push_str(&format!("\\{}{}", us, hexs));
                }
                c => self.out.push(c),
            }
        }
        self.out.push('"');
    }
    fn text(&mut self, s: &str) {
        let ident = swimos_model::identifier::is_identifier(s);
        if ident && (self.wild == 0 || self.rng.chance(4, 5)) {
            self.out.push_str(s);
        } else {
            self.string_lit(s);
        }
    }
    fn int(&mut self, n: &BigInt) {
        let neg = n.sign() == num_bigint::Sign::Minus;
        let mag = n.magnitude();
        if neg {
            self.out.push('-');
        }
        if self.wild < 2 {
            self.out.push_str(&mag.to_string());
            return;
        }
        match self.rng.below(10) {
            0 => self.out.push_str(&format!("{}{}", self.rng.pick(&["0x", "0X"]), mag.to_str_radix(16))),
            1 => self.out.push_str(&format!("{}{}", self.rng.pick(&["0x", "0X"]), mag.to_str_radix(16).to_uppercase())),
            2 => self.out.push_str(&format!("{}{}", self.rng.pick(&["0b", "0B"]), mag.to_str_radix(2))),
            3 => self.out.push_str(&format!("00{}", mag)),
            _ => self.out.push_str(&mag.to_string()),
        }
    }
    fn float(&mut self, x: f64) {
        if !x.is_finite() || self.wild < 2 {
            self.out.push_str(&print_style(1, &Value::Float64Value(x)));
            return;
        }
        // x = (-1)^s * digits * 10^e with the shortest digits; spell it in one of several ways
        let enc = fenc(x);
        let neg = enc.as_bytes()[1] == b'-';
        let (digits, e) = enc[2..].split_once('e').unwrap();
        let e: i64 = e.parse().unwrap();
        if neg {
            self.out.push('-');
        } else if self.rng.chance(1, 8) {
            self.out.push('+');
        }
        match self.rng.below(5) {
            0 => self.out.push_str(&format!("{}.0e{}", digits, e)),
            1 => self.out.push_str(&format!("{}0.0{}{}", digits, self.rng.pick(&["e", "E"]), e - 1)),
            2 if e < 0 && (-e as usize) <= digits.len() + 3 => {
                // positional
                let k = -e as usize;
                if k < digits.len() {
                    self.out.push_str(&format!("{}.{}", &digits[..digits.len() - k], &digits[digits.len() - k..]));
                } else {
                    self.out.push_str(&format!("0.{}{}", "0".repeat(k - digits.len()), digits));
                }
            }
            2 if (0..=6).contains(&e) => self.out.push_str(&format!("{}{}.0", digits, "0".repeat(e as usize))),
            3 => self.out.push_str(&format!("{}.{}", digits, if e >= 0 { format!("e+{}", e) } else { format!("e{}", e) })),
            _ => self.out.push_str(&print_style(1, &Value::Float64Value(x.abs()))),
        }
    }
    fn blob(&mut self, b: &[u8]) {
        self.out.push_str(&print_style(1, &Value::Data(Blob::from_vec(b.to_vec()))));
    }
    fn prim(&mut self, v: &Value) {
        match v {
            Value::Extant => {}
            Value::Int32Value(n) => self.int(&(*n).into()),
            Value::Int64Value(n) => self.int(&(*n).into()),
            Value::UInt32Value(n) => self.int(&(*n).into()),
            Value::UInt64Value(n) => self.int(&(*n).into()),
            Value::BigInt(n) => self.int(n),
            Value::BigUint(n) => self.int(&n.clone().into()),
            Value::Float64Value(x) => self.float(*x),
            Value::BooleanValue(b) => self.out.push_str(if *b { "true" } else { "false" }),
            Value::Text(t) => self.text(t.as_str()),
            Value::Data(b) => self.blob(b.as_ref()),
            Value::Record(_, _) => unreachable!(),
        }
    }
    fn sep(&mut self) {
        if self.wild == 0 {
            self.out.push(',');
            return;
        }
        match self.rng.below(8) {
            0 => self.out.push(';'),
            1 if self.wild > 1 => self.out.push('\n'),
            2 if self.wild > 1 => self.out.push_str("\r\n"),
            3 => self.out.push_str(",\n"),
            4 => self.out.push_str(", "),
            _ => self.out.push(','),
        }
        self.ws();
    }
    fn items(&mut self, items: &[Item]) {
        self.ws();
        for (i, it) in items.iter().enumerate() {
            if i > 0 {
                self.sep();
            }
            match it {
                Item::ValueItem(v) => self.value(v),
                Item::Slot(k, v) => {
                    self.value(k);
                    self.sp();
                    self.out.push(':');
                    self.sp();
                    self.value(v);
                }
            }
            self.sp();
        }
        if self.wild > 1 && !items.is_empty() && self.rng.chance(1, 10) {
            self.out.push('\n');
        }
    }
    fn braced(&mut self, items: &[Item]) {
        self.out.push('{');
        self.items(items);
        self.out.push('}');
    }
    fn attr(&mut self, a: &Attr) {
        self.out.push('@');
        let name = a.name.as_str();
        if swimos_model::identifier::is_identifier(name) && (self.wild < 2 || self.rng.chance(9, 10)) {
            self.out.push_str(name);
        } else if name == "true" || name == "false" {
            self.string_lit(name);
        } else {
            self.string_lit(name);
        }
        match &a.value {
            Value::Extant => {
                if self.wild > 0 && self.rng.chance(1, 4) {
                    self.out.push_str("()");
                }
            }
            Value::Record(attrs, items) if attrs.is_empty() && items.len() >= 2 => {
                // implicit or explicit record body
                self.out.push('(');
                if self.wild > 0 && self.rng.chance(1, 3) {
                    self.ws();
                    self.braced(items);
                    self.ws();
                } else {
                    self.items(items);
                }
                self.out.push(')');
            }
            Value::Record(attrs, items) if attrs.is_empty() && items.len() == 1 && matches!(items[0], Item::Slot(_, _)) => {
                self.out.push('(');
                if self.wild > 0 && self.rng.chance(1, 3) {
                    self.braced(items);
                } else {
                    self.items(items);
                }
                self.out.push(')');
            }
            v => {
                self.out.push('(');
                self.ws();
                self.value(v);
                self.ws();
                self.out.push(')');
            }
        }
    }
    fn value(&mut self, v: &Value) {
        match v {
            Value::Record(attrs, items) => {
                if attrs.is_empty() {
                    self.braced(items);
                    return;
                }
                for (i, a) in attrs.iter().enumerate() {
                    if i > 0 {
                        if self.wild == 0 {
                            self.out.push(' ');
                        } else {
                            self.sp();
                        }
                    }
                    self.attr(a);
                }
                if items.is_empty() {
                    if self.wild > 0 && self.rng.chance(1, 4) {
                        self.sp();
                        self.out.push_str("{}");
                    }
                    return;
                }
                let sole_prim = items.len() == 1
                    && matches!(&items[0], Item::ValueItem(x) if !matches!(x, Value::Record(_, _) | Value::Extant));
                if sole_prim && (self.wild == 0 || self.rng.chance(2, 3)) {
                    self.out.push(' ');
                    self.sp();
                    if let Item::ValueItem(x) = &items[0] {
                        self.prim(x);
                    }
                } else {
                    self.sp();
                    self.braced(items);
                }
            }
            p => self.prim(p),
        }
    }
}

fn wprint(rng: &mut Rng, wild: u64, v: &Value) -> String {
    let mut w = W { rng, out: String::new(), wild };
    if wild > 1 {
        w.ws();
    }
    w.value(v);
    if wild > 1 && w.rng.chance(1, 3) {
        w.ws();
    }
    w.out
}

// ------------------------------------------------------------------------------------------- generators: grammar texts (as C09)

struct G<'a> {
    rng: &'a mut Rng,
    out: String,
}

impl<'a> G<'a> {
    fn sp(&mut self) {
        match self.rng.below(6) {
            0 => self.out.push(' '),
            1 => self.out.push_str("  "),
            2 => self.out.push('\t'),
            _ => {}
        }
    }
    fn ws(&mut self) {
        match self.rng.below(8) {
            0 => self.out.push(' '),
            1 => self.out.push('\n'),
            2 => self.out.push_str("\r\n"),
            3 => self.out.push_str("\n  "),
            _ => {}
        }
    }
    fn prim(&mut self) {
        let v = loop {
            let v = gen_prim(self.rng);
            if v != Value::Extant {
                break v;
            }
        };
        let mut w = W { rng: self.rng, out: String::new(), wild: 2 };
        w.prim(&v);
        let s = w.out;
        self.out.push_str(&s);
    }
    fn attr(&mut self, depth: u32) {
        self.out.push('@');
        let name = gen_attr_name(self.rng);
        if swimos_model::identifier::is_identifier(&name) && self.rng.chance(9, 10) {
            self.out.push_str(&name);
        } else {
            let mut w = W { rng: self.rng, out: String::new(), wild: 2 };
            w.string_lit(&name);
            let s = w.out;
            self.out.push_str(&s);
        }
        if self.rng.chance(1, 2) {
            self.out.push('(');
            self.items(depth);
            self.out.push(')');
        }
    }
    fn value(&mut self, depth: u32) {
        if depth == 0 || self.rng.chance(2, 5) {
            self.prim();
            return;
        }
        let na = *self.rng.pick(&[0u64, 0, 1, 1, 2, 3]);
        for i in 0..na {
            if i > 0 {
                self.sp();
            }
            self.attr(depth - 1);
        }
        if na == 0 {
            self.out.push('{');
            self.items(depth - 1);
            self.out.push('}');
        } else {
            match self.rng.below(4) {
                0 => {}
                2 => {
                    self.out.push(' ');
                    self.sp();
                    self.prim();
                }
                _ => {
                    self.sp();
                    self.out.push('{');
                    self.items(depth - 1);
                    self.out.push('}');
                }
            }
        }
    }
    fn items(&mut self, depth: u32) {
        let n = *self.rng.pick(&[0u64, 1, 1, 2, 2, 3, 5]);
        self.ws();
        for i in 0..n {
            if i > 0 {
                match self.rng.below(6) {
                    0 => self.out.push(';'),
                    1 => self.out.push('\n'),
                    2 => self.out.push_str("\r\n"),
                    3 => self.out.push_str(",\n"),
                    _ => self.out.push(','),
                }
                self.ws();
            }
            match self.rng.below(12) {
                0 => {}
                1 => {
                    self.out.push(':');
                    self.sp();
                    self.value(depth);
                }
                2 => {
                    self.value(depth);
                    self.sp();
                    self.out.push(':');
                }
                3..=6 => {
                    self.value(depth);
                    self.sp();
                    self.out.push(':');
                    self.sp();
                    self.value(depth);
                }
                _ => self.value(depth),
            }
            self.sp();
        }
        if self.rng.chance(1, 8) {
            self.out.push('\n');
        }
    }
}

fn gen_grammar_text(rng: &mut Rng) -> String {
    let mut g = G { rng, out: String::new() };
    g.ws();
    let depth = *g.rng.pick(&[0u32, 1, 2, 2, 3, 3, 4]);
    g.value(depth);
    if g.rng.chance(1, 3) {
        g.ws();
    }
    g.out
}

/// Textual near-miss / damage: 1..3 character-level edits (the result is kept valid UTF-8).
fn mutate_text(rng: &mut Rng, base: &str) -> String {
    let mut b: Vec<char> = base.chars().collect();
    let n = 1 + rng.below(3);
    for _ in 0..n {
        let specials: &[&str] = &[
            "\"", "\\", "@", "{", "}", "(", ")", ":", ",", ";", "%", "\n", "\r", " ", "\\u", "\\ud800", "\\u0041", "0x", "-", "+", ".", "e",
            "=", "#", "é", "true", "1e", "@\"q\"", "0", "1", "a", "{}", "()", "@a",
        ];
        if b.is_empty() {
            b.extend(rng.pick(specials).chars());
            continue;
        }
        let i = rng.below(b.len() as u64) as usize;
        match rng.below(7) {
            0 => {
                b.remove(i);
            }
            1 | 2 => {
                let s: Vec<char> = rng.pick(specials).chars().collect();
                for (k, x) in s.iter().enumerate() {
                    b.insert(i + k, *x);
                }
            }
            3 => {
                let j = rng.below(b.len() as u64) as usize;
                let (lo, hi) = (i.min(j), i.max(j));
                let seg = b[lo..hi].to_vec();
                for (k, x) in seg.iter().enumerate() {
                    b.insert(hi + k, *x);
                }
            }
            4 => {
                b.truncate(i);
            }
            5 => {
                let j = rng.below(b.len() as u64) as usize;
                b.swap(i, j);
            }
            _ => {
                let s: Vec<char> = rng.pick(specials).chars().collect();
                b.splice(i..i + 1, s);
            }
        }
        if b.len() > 600 {
            b.truncate(600);
        }
    }
    b.into_iter().collect()
}


// ------------------------------------------------------------------------------------------- exhaustive small scope

/// All values with at most `budget` nodes over a tiny alphabet (one primitive `1`, `Extant`, attribute names `a`/`b`,
/// slot keys that are primitives or records): the comparator's size bookkeeping only sees structure.
fn enum_values(budget: usize, memo: &mut Vec<Option<Vec<Value>>>) -> Vec<Value> {
    if let Some(Some(v)) = memo.get(budget) {
        return v.clone();
    }
    let mut out: Vec<Value> = vec![];
    if budget >= 1 {
        out.push(Value::Int32Value(1));
        out.push(Value::Extant);
        // records: 1 node for the record itself + attrs + items
        for total in 0..budget {
            // split `total` nodes among attrs (each: 1 + value nodes, or 1 for a bare attr) and items
            for na in 0..=2usize.min(total) {
                for ni in 0..=3usize.min(total) {
                    if na + ni > total {
                        continue;
                    }
                    // distribute the remaining nodes: generate compositions lazily by recursion
                    let mut partial: Vec<(Vec<Attr>, Vec<Item>, usize)> = vec![(vec![], vec![], total)];
                    for ai in 0..na {
                        let mut next = vec![];
                        for (attrs, items, left) in &partial {
                            // reserve one node for each later attr/item
                            let later = (na - ai - 1) + ni;
                            for use_ in 1..=left.saturating_sub(later) {
                                let name = if ai == 0 { "a" } else { "b" };
                                if use_ == 1 {
                                    let mut a2 = attrs.clone();
                                    a2.push(Attr { name: Text::from(name), value: Value::Extant });
                                    next.push((a2, items.clone(), left - 1));
                                } else {
                                    for v in enum_values(use_ - 1, memo) {
                                        if v == Value::Extant {
                                            continue;
                                        }
                                        let mut a2 = attrs.clone();
                                        a2.push(Attr { name: Text::from(name), value: v });
                                        next.push((a2, items.clone(), left - use_));
                                    }
                                }
                            }
                        }
                        partial = next;
                    }
                    for ii in 0..ni {
                        let mut next = vec![];
                        for (attrs, items, left) in &partial {
                            let later = ni - ii - 1;
                            for use_ in 1..=left.saturating_sub(later) {
                                for v in enum_values(use_, memo) {
                                    let mut i2 = items.clone();
                                    i2.push(Item::ValueItem(v));
                                    next.push((attrs.clone(), i2, left - use_));
                                }
                                // slot: key + value share `use_` nodes (>= 2)
                                for ku in 1..use_ {
                                    for k in enum_values(ku, memo) {
                                        for v in enum_values(use_ - ku, memo) {
                                            let mut i2 = items.clone();
                                            i2.push(Item::Slot(k.clone(), v));
                                            next.push((attrs.clone(), i2, left - use_));
                                        }
                                    }
                                }
                            }
                        }
                        partial = next;
                    }
                    for (attrs, items, left) in partial {
                        if left == 0 {
                            out.push(Value::Record(attrs, items));
                        }
                    }
                }
            }
        }
    }
    out.sort_by(|a, b| venc(a).cmp(&venc(b)));
    out.dedup_by(|a, b| venc(a) == venc(b));
    while memo.len() <= budget {
        memo.push(None);
    }
    memo[budget] = Some(out.clone());
    out
}

/// Every value of the small scope that the parser can produce, in its compact print and (for records with an
/// attribute body that may be written either way) with explicit braces; every pair of texts is compared.
fn exhaustive(t: &mut Trace, budget: usize, shard: u64, shards: u64) {
    let mut memo = vec![];
    let mut values: Vec<Value> = vec![];
    for b in 1..=budget {
        values.extend(enum_values(b, &mut memo));
    }
    // keep what survives a print/parse cycle (the printer has known defects on some shapes; they are C09's)
    let mut texts: Vec<(String, Value)> = vec![];
    for v in &values {
        for style in 0..2u64 {
            let s = print_style(style, v);
            if let Ok(Ok(p)) = parse_one(&s) {
                if !texts.iter().any(|(x, _)| *x == s) {
                    texts.push((s, p));
                }
            }
        }
    }
    let n = texts.len();
    let mut mism = 0u64;
    let mut pairs = 0u64;
    for i in 0..n {
        if (i as u64) % shards != shard {
            continue;
        }
        for j in 0..n {
            pairs += 1;
            let (a, va) = &texts[i];
            let (b, vb) = &texts[j];
            let c = compare_recon_values(a, b);
            let e = va == vb;
            let h = !c || hash_calls(a) == hash_calls(b);
            if c != e || !h {
                mism += 1;
                if mism <= 5000 {
                    t.case(format!("exh {} {}", i, j));
                    exec(t, &format!("pair {} {}", hex(a.as_bytes()), hex(b.as_bytes())));
                }
            }
        }
    }
    t.case(format!("exh-summary budget={} shard={}/{} texts={} pairs={} mismatches={}", budget, shard, shards, n, pairs, mism));
}

// ------------------------------------------------------------------------------------------- cases

fn emit_pair(t: &mut Trace, a: &str, b: &str, units: bool) {
    if units {
        for x in [a, b] {
            let h = hex(x.as_bytes());
            exec(t, &format!("ev {}", h));
            exec(t, &format!("val {}", h));
            exec(t, &format!("hash {}", h));
        }
    }
    exec(t, &format!("pair {} {}", hex(a.as_bytes()), hex(b.as_bytes())));
}

/// Pairs of texts of one value and of near misses of it.
fn pair_texts(rng: &mut Rng, engine: &str) -> (String, String) {
    match engine {
        // printer output only (what the backpressure layer sees): same value, two printers; or a near miss
        "printed" => {
            let mut v = gen_value(rng, 4);
            let uni = rng.chance(1, 4);
            if uni {
                v = uniform_leaves(&v);
            }
            let (s1, s2) = (rng.below(3), rng.below(3));
            if rng.chance(1, 2) {
                (print_style(s1, &v), print_style(s2, &v))
            } else {
                let mut w = mutate_value(rng, &v);
                if uni {
                    w = uniform_leaves(&w);
                }
                (print_style(s1, &v), print_style(s2, &w))
            }
        }
        // same value / near miss, free layouts and spellings
        "layouts" => {
            let mut v = gen_value(rng, 4);
            let uni = rng.chance(1, 4);
            if uni {
                v = uniform_leaves(&v);
            }
            let mut w = if rng.chance(3, 5) { v.clone() } else { mutate_value(rng, &v) };
            if uni {
                w = uniform_leaves(&w);
            }
            let a = match rng.below(4) {
                0 => print_style(rng.below(3), &v),
                k => wprint(rng, k.min(2), &v),
            };
            let wl = 1 + rng.below(2);
            let b = wprint(rng, wl, &w);
            (a, b)
        }
        // grammar texts: against their own re-print, against a layout of their value, against another text
        "texts" => {
            let a = gen_grammar_text(rng);
            let b = match rng.below(6) {
                0 | 1 => match parse_one(&a) {
                    Ok(Ok(v)) => print_style(rng.below(3), &v),
                    _ => a.clone(),
                },
                2 => match parse_one(&a) {
                    Ok(Ok(v)) => wprint(rng, 2, &v),
                    _ => a.clone(),
                },
                3 => match parse_one(&a) {
                    Ok(Ok(v)) => {
                        let w = mutate_value(rng, &v);
                        let wl = 1 + rng.below(2);
                        wprint(rng, wl, &w)
                    }
                    _ => a.clone(),
                },
                4 => mutate_text(rng, &a),
                _ => gen_grammar_text(rng),
            };
            if rng.chance(1, 2) { (a, b) } else { (b, a) }
        }
        // damaged texts: with themselves, with the original, with another damaged text
        _ => {
            let base = match rng.below(3) {
                0 => gen_grammar_text(rng),
                1 => print_style(rng.below(3), &gen_value(rng, 3)),
                _ => {
                    let v = gen_value(rng, 3);
                    wprint(rng, 2, &v)
                }
            };
            let a = mutate_text(rng, &base);
            let b = match rng.below(5) {
                0 => a.clone(),
                1 => base.clone(),
                2 => mutate_text(rng, &a),
                3 => format!("{} ", a),
                _ => mutate_text(rng, &base),
            };
            (a, b)
        }
    }
}

fn keys_case(rng: &mut Rng, t: &mut Trace) {
    // 2..4 values, each in 1..3 spellings, shuffled: the queue must keep exactly one entry per value
    let nv = 2 + rng.below(3);
    let mut texts: Vec<String> = vec![];
    let base = gen_value(rng, 3);
    for i in 0..nv {
        let v = if i == 0 { base.clone() } else if rng.chance(1, 2) { mutate_value(rng, &base) } else { gen_value(rng, 2) };
        for _ in 0..(1 + rng.below(3)) {
            let s = match rng.below(3) {
                0 => print_style(rng.below(3), &v),
                k => wprint(rng, k, &v),
            };
            texts.push(s);
        }
    }
    for i in (1..texts.len()).rev() {
        let j = rng.below(i as u64 + 1) as usize;
        texts.swap(i, j);
    }
    for s in &texts {
        exec(t, &format!("val {}", hex(s.as_bytes())));
    }
    exec(t, &format!("keys {}", texts.iter().map(|s| hex(s.as_bytes())).collect::<Vec<_>>().join(" ")));
}

fn exec(t: &mut Trace, op: &str) {
    let parts: Vec<&str> = op.split_whitespace().collect();
    let text = |h: &str| unhex(h).and_then(|b| String::from_utf8(b).ok());
    let outside = parts.len() >= 2 && parts[1..].iter().all(|h| text(h).is_some())
        && parts[1..].iter().any(|h| !in_float_fragment(&text(h).unwrap()));
    let out = match parts.as_slice() {
        _ if outside => "out-of-fragment".to_string(),
        ["ev", h] => text(h).map(|s| ev_op(&s)).unwrap_or_else(|| "bad-op".into()),
        ["val", h] => text(h).map(|s| val_op(&s)).unwrap_or_else(|| "bad-op".into()),
        ["hash", h] => text(h).map(|s| hash_op(&s)).unwrap_or_else(|| "bad-op".into()),
        ["pair", a, b] => match (text(a), text(b)) {
            (Some(a), Some(b)) => pair_op(&a, &b),
            _ => "bad-op".into(),
        },
        ["keys", rest @ ..] => {
            let ts: Option<Vec<String>> = rest.iter().map(|h| text(h)).collect();
            match ts {
                Some(ts) if !ts.is_empty() => keys_op(&ts),
                _ => "bad-op".into(),
            }
        }
        _ => "bad-op".into(),
    };
    t.op(op, out);
}

fn main() {
    std::panic::set_hook(Box::new(|_| {}));
    match parse_args() {
        Mode::Gen { seed, cases, out } => {
            let engine = std::env::args().nth(5).unwrap_or_else(|| "printed".into());
            let mut rng = Rng::new(seed ^ match engine.as_str() {
                "printed" => 0x15_0100,
                "layouts" => 0x15_0200,
                "texts" => 0x15_0300,
                "damaged" => 0x15_0400,
                _ => 0x15_0500,
            });
            let mut t = Trace::create(&out);
            if engine == "exhaustive" {
                // `gen <seed> <cases> <out> exhaustive <budget> <shards>`: shard = seed % shards
                let budget: usize = std::env::args().nth(6).and_then(|x| x.parse().ok()).unwrap_or(5);
                let shards: u64 = std::env::args().nth(7).and_then(|x| x.parse().ok()).unwrap_or(1);
                exhaustive(&mut t, budget, seed % shards, shards);
                t.finish();
                return;
            }
            for c in 0..cases {
                let mut case_rng = rng.fork();
                t.case(format!("{} seed={} {}", c, seed, engine));
                if engine == "keys" {
                    keys_case(&mut case_rng, &mut t);
                } else {
                    let (a, b) = pair_texts(&mut case_rng, &engine);
                    emit_pair(&mut t, &a, &b, true);
                }
            }
            t.finish();
        }
        Mode::Replay { ops, out } => {
            let mut t = Trace::create(&out);
            for (i, case) in ops.iter().enumerate() {
                t.case(i);
                for op in case {
                    exec(&mut t, op);
                }
            }
            t.finish();
        }
    }
}

#[allow(dead_code)]
fn _unused(_: BigUint) {}
