//! C02/C03 agent side: the REAL `MapLane<i32, i32, BTreeMap>` (update / remove / clear / sync / take / drop /
//! write_to_buffer) through the `verif_hooks` wrappers; frames decoded with the real map-lane response decoder.
use std::collections::{BTreeMap, HashMap};

use bytes::BytesMut;
use svh::{parse_args, Mode, Rng, Trace};
use swimos_agent::agent_model::WriteResult;
use swimos_agent::lanes::{LaneItem, MapLane};
use swimos_agent::verif::lanes::{map_clear, map_remove, map_sync, map_update};
use swimos_agent::verif::queues::{drop_or_take, DropOrTake, MapOps};
use swimos_agent_protocol::encoding::lane::RawMapLaneResponseDecoder;
use swimos_agent_protocol::{LaneResponse, MapOperation};
use tokio_util::codec::Decoder;
use uuid::Uuid;

/// The lane under test: BTreeMap-backed (ordered keys) or HashMap-backed (take/drop must sort the keys by structure).
enum AnyLane {
    Tree(MapLane<i32, i32, BTreeMap<i32, i32>>),
    Hash(MapLane<i32, i32, HashMap<i32, i32>>),
}

fn txt(b: &[u8]) -> String {
    String::from_utf8_lossy(b).to_string()
}

fn render_op(op: &MapOperation<BytesMut, BytesMut>) -> String {
    match op {
        MapOperation::Update { key, value } => format!("upd:{}:{}", txt(key), txt(value)),
        MapOperation::Remove { key } => format!("rem:{}", txt(key)),
        MapOperation::Clear => "clr".into(),
    }
}

fn exec_any(lane: &AnyLane, op: &str) -> String {
    match lane {
        AnyLane::Tree(l) => exec(l, op),
        AnyLane::Hash(l) => exec(l, op),
    }
}

fn exec<M>(lane: &MapLane<i32, i32, M>, op: &str) -> String
where
    M: MapOps<i32, i32>,
    for<'a> &'a M: IntoIterator<Item = (&'a i32, &'a i32)>,
{
    let p: Vec<&str> = op.split_whitespace().collect();
    match p.as_slice() {
        ["upd", k, v] => {
            map_update(lane, k.parse().unwrap(), v.parse().unwrap());
            "ok".into()
        }
        ["rem", k] => {
            map_remove(lane, &k.parse().unwrap());
            "ok".into()
        }
        ["clr"] => {
            map_clear(lane);
            "ok".into()
        }
        ["sync", r] => {
            map_sync(lane, Uuid::from_u128(r.parse::<u128>().unwrap()));
            "ok".into()
        }
        ["drop", n] | ["take", n] => {
            // as `MapLaneDropOrTake` does: compute the keys, then remove them one by one
            let kind = if p[0] == "drop" { DropOrTake::Drop } else { DropOrTake::Take };
            let keys = lane.get_map(|m| drop_or_take(m, kind, n.parse().unwrap()));
            for k in keys {
                map_remove(lane, &k);
            }
            "ok".into()
        }
        ["map"] => lane.get_map(|m| {
            let mut es: Vec<(i32, i32)> = m.into_iter().map(|(k, v)| (*k, *v)).collect();
            es.sort();
            if es.is_empty() {
                "-".to_string()
            } else {
                es.iter().map(|(k, v)| format!("{}={}", k, v)).collect::<Vec<_>>().join(",")
            }
        }),
        ["write"] => {
            let mut buf = BytesMut::new();
            let res = match lane.write_to_buffer(&mut buf) {
                WriteResult::Done => "done",
                WriteResult::DataStillAvailable => "more",
                WriteResult::NoData => "nodata",
                WriteResult::RequiresEvent => "requires-event",
            };
            let mut dec = RawMapLaneResponseDecoder::default();
            let mut frames = vec![];
            loop {
                match dec.decode(&mut buf) {
                    Ok(Some(LaneResponse::StandardEvent(op))) => frames.push(format!("ev:{}", render_op(&op))),
                    Ok(Some(LaneResponse::SyncEvent(id, op))) => match &op {
                        MapOperation::Update { key, value } => {
                            frames.push(format!("sync:{}:{}:{}", id.as_u128(), txt(key), txt(value)))
                        }
                        other => frames.push(format!("sync:{}:?{}", id.as_u128(), render_op(other))),
                    },
                    Ok(Some(LaneResponse::Synced(id))) => frames.push(format!("synced:{}", id.as_u128())),
                    Ok(Some(LaneResponse::Initialized)) => frames.push("initialized".into()),
                    Ok(None) => break,
                    Err(_) => {
                        frames.push("decode-error".into());
                        break;
                    }
                }
            }
            if !buf.is_empty() {
                frames.push("trailing-bytes".into());
            }
            format!("{} {}", res, if frames.is_empty() { "-".to_string() } else { frames.join(",") })
        }
        _ => "bad-op".into(),
    }
}

fn run_case(t: &mut Trace, ops: &[String]) {
    let mut lane: Option<AnyLane> = None;
    for op in ops {
        if op == "new" {
            lane = Some(AnyLane::Tree(MapLane::new(0, BTreeMap::new())));
            t.op(op, "ok");
        } else if op == "new hash" {
            lane = Some(AnyLane::Hash(MapLane::new(0, HashMap::new())));
            t.op(op, "ok");
        } else if let Some(l) = lane.as_ref() {
            t.op(op, exec_any(l, op));
        } else {
            t.op(op, "bad-op");
        }
    }
}

fn main() {
    match parse_args() {
        Mode::Gen { seed, cases, out } => {
            let mut t = Trace::create(&out);
            let mut rng = Rng::new(seed);
            for c in 0..cases {
                // one case in four: HashMap backing, keys whose decimal text order differs from their numeric order,
                // no sync (the key order of a HashMap snapshot is not defined)
                let hash = rng.chance(1, 4);
                let keys: [u64; 6] = if hash || rng.chance(1, 3) { [2, 10, 33, 100, 7, 21] } else { [0, 1, 2, 3, 4, 5] };
                let mut ops = vec![if hash { "new hash".to_string() } else { "new".to_string() }];
                let len = rng.range(2, 40);
                let nkeys = rng.range(1, 5);
                let writes = [25u64, 45, 65][rng.below(3) as usize];
                let mut v = 0;
                let mut syncing: Vec<u64> = vec![];
                for _ in 0..len {
                    let r = rng.below(100);
                    if r < writes {
                        ops.push("write".into());
                    } else {
                        let x = rng.below(100);
                        if x < 50 {
                            v += 1;
                            ops.push(format!("upd {} {}", keys[rng.below(nkeys) as usize], v));
                        } else if x < 68 {
                            ops.push(format!("rem {}", keys[rng.below(nkeys + 1) as usize]));
                        } else if x < 75 {
                            ops.push("clr".into());
                        } else if x < 90 && !hash {
                            // every sync request comes from a remote that has none outstanding (fresh id)
                            syncing.push(syncing.len() as u64 + 1);
                            ops.push(format!("sync {}", syncing.len()));
                        } else if x < 95 {
                            ops.push(format!("drop {}", rng.below(3)));
                        } else {
                            ops.push(format!("take {}", rng.below(3)));
                        }
                    }
                }
                // drain: write until the queues are empty
                for _ in 0..(3 * len + 12) {
                    ops.push("write".into());
                }
                ops.push("map".into());
                t.case(format!("{} seed={}", c, seed));
                run_case(&mut t, &ops);
            }
            t.finish();
        }
        Mode::Replay { ops, out } => {
            let mut t = Trace::create(&out);
            for (i, case) in ops.iter().enumerate() {
                t.case(i);
                run_case(&mut t, case);
            }
            t.finish();
        }
    }
}
