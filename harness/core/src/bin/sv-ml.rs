//! C02/C03 agent side: the REAL `MapLane<i32, i32, BTreeMap>` (update / remove / clear / sync / take / drop /
//! write_to_buffer) through the `verif_hooks` wrappers; frames decoded with the real map-lane response decoder.
use std::collections::BTreeMap;

use bytes::BytesMut;
use svh::{parse_args, Mode, Rng, Trace};
use swimos_agent::agent_model::WriteResult;
use swimos_agent::lanes::{LaneItem, MapLane};
use swimos_agent::verif::lanes::{map_clear, map_remove, map_sync, map_update};
use swimos_agent::verif::queues::{drop_or_take, DropOrTake};
use swimos_agent_protocol::encoding::lane::RawMapLaneResponseDecoder;
use swimos_agent_protocol::{LaneResponse, MapOperation};
use tokio_util::codec::Decoder;
use uuid::Uuid;

type Lane = MapLane<i32, i32, BTreeMap<i32, i32>>;

fn txt(b: &[u8]) -> String {
    String::from_utf8_lossy(b).to_string()
}

fn render_op(op: &MapOperation<BytesMut, BytesMut>) -> String {
    match op {
        MapOperation::Update { key, value } => format!("upd:{}:{}", txt(key), txt(value)),
        MapOperation::Remove { key } => format!("rem:{}", txt(key)),
        MapOperation::Clear => "clr".into(),
    }
}

fn exec(lane: &Lane, op: &str) -> String {
    let p: Vec<&str> = op.split_whitespace().collect();
    match p.as_slice() {
        ["upd", k, v] => {
            map_update(lane, k.parse().unwrap(), v.parse().unwrap());
            "ok".into()
        }
        ["rem", k] => {
            map_remove(lane, &k.parse().unwrap());
            "ok".into()
        }
        ["clr"] => {
            map_clear(lane);
            "ok".into()
        }
        ["sync", r] => {
            map_sync(lane, Uuid::from_u128(r.parse::<u128>().unwrap()));
            "ok".into()
        }
        ["drop", n] | ["take", n] => {
            // as `MapLaneDropOrTake` does: compute the keys, then remove them one by one
            let kind = if p[0] == "drop" { DropOrTake::Drop } else { DropOrTake::Take };
            let keys = lane.get_map(|m| drop_or_take(m, kind, n.parse().unwrap()));
            for k in keys {
                map_remove(lane, &k);
            }
            "ok".into()
        }
        ["map"] => lane.get_map(|m| {
            if m.is_empty() {
                "-".to_string()
            } else {
                m.iter().map(|(k, v)| format!("{}={}", k, v)).collect::<Vec<_>>().join(",")
            }
        }),
        ["write"] => {
            let mut buf = BytesMut::new();
            let res = match lane.write_to_buffer(&mut buf) {
                WriteResult::Done => "done",
                WriteResult::DataStillAvailable => "more",
                WriteResult::NoData => "nodata",
                WriteResult::RequiresEvent => "requires-event",
            };
            let mut dec = RawMapLaneResponseDecoder::default();
            let mut frames = vec![];
            loop {
                match dec.decode(&mut buf) {
                    Ok(Some(LaneResponse::StandardEvent(op))) => frames.push(format!("ev:{}", render_op(&op))),
                    Ok(Some(LaneResponse::SyncEvent(id, op))) => match &op {
                        MapOperation::Update { key, value } => {
                            frames.push(format!("sync:{}:{}:{}", id.as_u128(), txt(key), txt(value)))
                        }
                        other => frames.push(format!("sync:{}:?{}", id.as_u128(), render_op(other))),
                    },
                    Ok(Some(LaneResponse::Synced(id))) => frames.push(format!("synced:{}", id.as_u128())),
                    Ok(Some(LaneResponse::Initialized)) => frames.push("initialized".into()),
                    Ok(None) => break,
                    Err(_) => {
                        frames.push("decode-error".into());
                        break;
                    }
                }
            }
            if !buf.is_empty() {
                frames.push("trailing-bytes".into());
            }
            format!("{} {}", res, if frames.is_empty() { "-".to_string() } else { frames.join(",") })
        }
        _ => "bad-op".into(),
    }
}

fn run_case(t: &mut Trace, ops: &[String]) {
    let mut lane: Option<Lane> = None;
    for op in ops {
        if op == "new" {
            lane = Some(MapLane::new(0, BTreeMap::new()));
            t.op(op, "ok");
        } else if let Some(l) = lane.as_ref() {
            t.op(op, exec(l, op));
        } else {
            t.op(op, "bad-op");
        }
    }
}

fn main() {
    match parse_args() {
        Mode::Gen { seed, cases, out } => {
            let mut t = Trace::create(&out);
            let mut rng = Rng::new(seed);
            for c in 0..cases {
                let mut ops = vec!["new".to_string()];
                let len = rng.range(2, 40);
                let nkeys = rng.range(1, 5);
                let writes = [25u64, 45, 65][rng.below(3) as usize];
                let mut v = 0;
                let mut syncing: Vec<u64> = vec![];
                for _ in 0..len {
                    let r = rng.below(100);
                    if r < writes {
                        ops.push("write".into());
                    } else {
                        let x = rng.below(100);
                        if x < 50 {
                            v += 1;
                            ops.push(format!("upd {} {}", rng.below(nkeys), v));
                        } else if x < 68 {
                            ops.push(format!("rem {}", rng.below(nkeys + 1)));
                        } else if x < 75 {
                            ops.push("clr".into());
                        } else if x < 90 {
                            // every sync request comes from a remote that has none outstanding (fresh id)
                            syncing.push(syncing.len() as u64 + 1);
                            ops.push(format!("sync {}", syncing.len()));
                        } else if x < 95 {
                            ops.push(format!("drop {}", rng.below(3)));
                        } else {
                            ops.push(format!("take {}", rng.below(3)));
                        }
                    }
                }
                // drain: write until the queues are empty
                for _ in 0..(3 * len + 12) {
                    ops.push("write".into());
                }
                ops.push("map".into());
                t.case(format!("{} seed={}", c, seed));
                run_case(&mut t, &ops);
            }
            t.finish();
        }
        Mode::Replay { ops, out } => {
            let mut t = Trace::create(&out);
            for (i, case) in ops.iter().enumerate() {
                t.case(i);
                run_case(&mut t, case);
            }
            t.finish();
        }
    }
}
