//! C02: the two REAL coalescing queues — the agent's `EventQueue<i32, i32>` and the runtime's
//! `MapOperationQueue` (keyed by Recon equality) — under push/pop streams, with `head_epoch` seeded anywhere
//! (including just below `usize::MAX`) through the `verif_hooks` constructors.
//! `gen <seed> <cases> <out> agent|runtime`
use bytes::BytesMut;
use svh::{parse_args, Mode, Rng, Trace};
use swimos_agent::verif::queues::EventQueue;
use swimos_agent_protocol::MapOperation;
use swimos_runtime::verif::backpressure::MapOperationQueue;

const KEY_CLASSES: &[&[&str]] = &[
    &["a", "\"a\""],
    &["{x:1}", "{ x: 1 }", "{x: 1}"],
    &["2"],
    &["@t{y:2}", "@t { y: 2 }"],
    &["\"b c\""],
    &["5"],
];

fn class_of(spelling: &[u8]) -> Option<usize> {
    KEY_CLASSES.iter().position(|c| c.iter().any(|s| s.as_bytes() == spelling))
}

enum Queue {
    Agent(EventQueue<i32, i32>),
    Runtime(MapOperationQueue, Rng),
}

impl Queue {
    fn exec(&mut self, op: &str) -> String {
        let p: Vec<&str> = op.split_whitespace().collect();
        match (self, p.as_slice()) {
            (Queue::Agent(q), ["push", "upd", k, v]) => {
                q.push(MapOperation::Update { key: k.parse().unwrap(), value: v.parse().unwrap() });
                "ok".into()
            }
            (Queue::Agent(q), ["push", "rem", k]) => {
                q.push(MapOperation::Remove { key: k.parse().unwrap() });
                "ok".into()
            }
            (Queue::Agent(q), ["push", "clr"]) => {
                q.push(MapOperation::Clear);
                "ok".into()
            }
            (Queue::Agent(q), ["pop"]) => match q.pop() {
                Some(MapOperation::Update { key, value }) => format!("upd:{}:{}", key, value),
                Some(MapOperation::Remove { key }) => format!("rem:{}", key),
                Some(MapOperation::Clear) => "clr".into(),
                None => "none".into(),
            },
            (Queue::Runtime(q, rng), ["push", "upd", k, v]) => {
                let c = KEY_CLASSES[k.parse::<usize>().unwrap() % KEY_CLASSES.len()];
                let key = c[rng.below(c.len() as u64) as usize];
                match q.push(MapOperation::Update {
                    key: BytesMut::from(key.as_bytes()),
                    value: BytesMut::from(v.as_bytes()),
                }) {
                    Ok(()) => "ok".into(),
                    Err(_) => "invalid-key".into(),
                }
            }
            (Queue::Runtime(q, rng), ["push", "rem", k]) => {
                let c = KEY_CLASSES[k.parse::<usize>().unwrap() % KEY_CLASSES.len()];
                let key = c[rng.below(c.len() as u64) as usize];
                match q.push(MapOperation::Remove { key: BytesMut::from(key.as_bytes()) }) {
                    Ok(()) => "ok".into(),
                    Err(_) => "invalid-key".into(),
                }
            }
            (Queue::Runtime(q, _), ["push", "clr"]) => {
                q.push(MapOperation::Clear).unwrap();
                "ok".into()
            }
            (Queue::Runtime(q, _), ["pop"]) => match q.pop() {
                Some(MapOperation::Update { key, value }) => match class_of(key.as_ref()) {
                    Some(c) => format!("upd:{}:{}", c, String::from_utf8_lossy(value.as_ref())),
                    None => "upd:?".into(),
                },
                Some(MapOperation::Remove { key }) => match class_of(key.as_ref()) {
                    Some(c) => format!("rem:{}", c),
                    None => "rem:?".into(),
                },
                Some(MapOperation::Clear) => "clr".into(),
                None => "none".into(),
            },
            _ => "bad-op".into(),
        }
    }
}

fn run_case(t: &mut Trace, ops: &[String], runtime: bool, seed: u64) {
    let mut q: Option<Queue> = None;
    for op in ops {
        if let Some(h) = op.strip_prefix("new ") {
            let head: u128 = h.trim().parse().unwrap();
            let head = (head % (1u128 << 64)) as usize;
            q = Some(if runtime {
                Queue::Runtime(MapOperationQueue::verif_with_head_epoch(head), Rng::new(seed))
            } else {
                Queue::Agent(EventQueue::verif_with_head_epoch(head))
            });
            t.op(op, "ok");
        } else if let Some(queue) = q.as_mut() {
            let op2 = op.clone();
            let res = std::panic::catch_unwind(std::panic::AssertUnwindSafe(|| queue.exec(&op2)));
            match res {
                Ok(o) => t.op(op, o),
                Err(_) => {
                    t.op(op, "panic");
                    return;
                }
            }
        } else {
            t.op(op, "bad-op");
        }
    }
}

fn main() {
    std::panic::set_hook(Box::new(|_| {}));
    let runtime = std::env::args().any(|a| a == "runtime");
    match parse_args() {
        Mode::Gen { seed, cases, out } => {
            let mut t = Trace::create(&out);
            let mut rng = Rng::new(seed);
            for c in 0..cases {
                let head: u128 = match rng.below(4) {
                    0 => 0,
                    1 => (u64::MAX as u128) - rng.below(6) as u128,
                    2 => rng.next() as u128,
                    _ => rng.below(3) as u128,
                };
                let mut ops = vec![format!("new {}", head)];
                let len = rng.range(2, 40);
                let nk = rng.range(1, 5);
                let pops = [25u64, 45, 60][rng.below(3) as usize];
                let mut v = 0;
                for _ in 0..len {
                    if rng.below(100) < pops {
                        ops.push("pop".into());
                    } else {
                        let x = rng.below(100);
                        if x < 62 {
                            v += 1;
                            ops.push(format!("push upd {} {}", rng.below(nk), v));
                        } else if x < 90 {
                            ops.push(format!("push rem {}", rng.below(nk)));
                        } else {
                            ops.push("push clr".into());
                        }
                    }
                }
                for _ in 0..(len + 2) {
                    ops.push("pop".into());
                }
                t.case(format!("{} seed={}", c, seed));
                run_case(&mut t, &ops, runtime, seed.wrapping_add(c));
            }
            t.finish();
        }
        Mode::Replay { ops, out } => {
            let mut t = Trace::create(&out);
            for (i, case) in ops.iter().enumerate() {
                t.case(i);
                run_case(&mut t, case, runtime, i as u64);
            }
            t.finish();
        }
    }
}
