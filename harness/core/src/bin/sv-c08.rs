//! C08 correspondence: the real stand-alone client downlink task (`swimos_downlink::DownlinkTask`, public API)
//! and the real agent-hosted downlink channel (`swimos_agent::agent_model::downlink`, public API: the channel
//! factory is captured from `Open{Map,Value}DownlinkAction` through our own `LinkSpawner`) are fed the same
//! notification sequences, one notification at a time, run to idle on a paused current-thread runtime.
//! Every lifecycle callback is logged with its arguments.
//!
//! ops:  new <client|hosted> <map|value> <ews> <tou> | linked | synced | unlinked | upd k v | rem k | clr |
//!       take n | drop n | set v | wupd k v | wrem k | wclr | wset v | bad | eof | reconnect |
//!       drop-handle (the write handle — client: the `mpsc::Sender`, hosted: the `*DownlinkHandle` — is dropped: the
//!       client task falls back to its `Mode::Read` loop) | close-out (client: the reader of the task's output channel is
//!       dropped, so writes fail) | stop (hosted: `handle.stop()`)
//! out:  callbacks joined by " | " (`-` when nothing happened), `end ok|failed|synced-with-no-value|bad-frame`
//!       appended when the task/channel finished, `gone` once it has finished, `panic`.
use std::cell::RefCell;
use std::collections::{BTreeMap, HashMap};
use std::num::NonZeroUsize;
use std::sync::{Arc, Mutex};
use std::time::Duration;

use bytes::{Bytes, BytesMut};
use futures::{FutureExt, SinkExt};
use svh::{parse_args, Mode, Rng, Trace};
use swimos_agent::agent_model::downlink::{
    BoxDownlinkChannel, BoxDownlinkChannelFactory, DownlinkChannelError, DownlinkChannelEvent, MapDownlinkHandle,
    OpenMapDownlinkAction, OpenValueDownlinkAction, ValueDownlinkHandle,
};
use swimos_agent::config::{MapDownlinkConfig, SimpleDownlinkConfig};
use swimos_agent::downlink_lifecycle::{
    OnDownlinkClear, OnDownlinkEvent, OnDownlinkRemove, OnDownlinkSet, OnDownlinkUpdate, OnFailed, OnLinked,
    OnSynced, OnUnlinked,
};
use swimos_agent::event_handler::{
    ActionContext, DownlinkSpawnOnDone, HandlerAction, HandlerActionExt, HandlerFuture, LaneSpawnOnDone,
    LaneSpawner, LinkSpawner, LocalBoxEventHandler, SideEffect, Spawner, StepResult,
};
use swimos_agent::AgentMetadata;
use swimos_agent_protocol::encoding::downlink::DownlinkNotificationEncoder;
use swimos_agent_protocol::encoding::map::MapMessageEncoder;
use swimos_agent_protocol::{DownlinkNotification, MapMessage, MapOperation};
use swimos_api::address::Address;
use swimos_api::agent::{AgentConfig, WarpLaneKind};
use swimos_api::error::{CommanderRegistrationError, DownlinkTaskError, DynamicRegistrationError};
use swimos_client_api::{Downlink, DownlinkConfig};
use swimos_downlink::{map_downlink, value_downlink, DownlinkTask, ValueDownlinkSet};
use swimos_model::Text;
use swimos_utilities::byte_channel::{byte_channel, ByteReader, ByteWriter};
use swimos_utilities::routing::RouteUri;
use tokio::io::AsyncReadExt;
use tokio::sync::mpsc;
use tokio::task::JoinHandle;
use tokio_util::codec::{Encoder, FramedWrite};

type Log = Arc<Mutex<Vec<String>>>;
const BUF: NonZeroUsize = match NonZeroUsize::new(4096) {
    Some(n) => n,
    None => unreachable!(),
};

// ------------------------------------------------------------------------------------------------ rendering

fn show_map<'a, I: IntoIterator<Item = (&'a i32, &'a i32)>>(it: I) -> String {
    let mut v: Vec<(i32, i32)> = it.into_iter().map(|(k, v)| (*k, *v)).collect();
    v.sort();
    let body: Vec<String> = v.iter().map(|(k, v)| format!("{}:{}", k, v)).collect();
    format!("{{{}}}", body.join(","))
}

fn show_opt(v: Option<&i32>) -> String {
    match v {
        Some(v) => v.to_string(),
        None => "none".to_string(),
    }
}

fn push(log: &Log, s: String) {
    log.lock().unwrap().push(s);
}

fn take_log(log: &Log) -> Vec<String> {
    std::mem::take(&mut *log.lock().unwrap())
}

fn render(mut cbs: Vec<String>, end: Option<&str>) -> String {
    if let Some(e) = end {
        cbs.push(format!("end {}", e));
    }
    if cbs.is_empty() {
        "-".to_string()
    } else {
        cbs.join(" | ")
    }
}

// ------------------------------------------------------------------------------------------------ notifications

#[derive(Clone, Debug)]
enum Note {
    Linked,
    Synced,
    Unlinked,
    Map(MapMessage<i32, i32>),
    Val(i32),
    Bad,
}

fn encode_note(n: &Note) -> DownlinkNotification<Bytes> {
    match n {
        Note::Linked => DownlinkNotification::Linked,
        Note::Synced => DownlinkNotification::Synced,
        Note::Unlinked => DownlinkNotification::Unlinked,
        Note::Map(m) => {
            let mut buf = BytesMut::new();
            MapMessageEncoder::default().encode(m.clone(), &mut buf).expect("encode map message");
            DownlinkNotification::Event { body: buf.freeze() }
        }
        Note::Val(v) => DownlinkNotification::Event { body: Bytes::from(v.to_string().into_bytes()) },
        // an event frame whose body is not a value of the expected type
        Note::Bad => DownlinkNotification::Event { body: Bytes::from_static(b"@@@ )(") },
    }
}

enum Write {
    Upd(i32, i32),
    Rem(i32),
    Clr,
    Set(i32),
}

enum Parsed {
    Note(Note),
    Write(Write),
    Eof,
    Reconnect,
    DropHandle,
    CloseOut,
    Stop,
    Invalid,
}

fn parse_op(op: &str, is_map: bool) -> Parsed {
    let p: Vec<&str> = op.split_whitespace().collect();
    let int = |s: &str| s.parse::<i32>().ok();
    let nat = |s: &str| s.parse::<u64>().ok();
    match p.as_slice() {
        ["linked"] => Parsed::Note(Note::Linked),
        ["synced"] => Parsed::Note(Note::Synced),
        ["unlinked"] => Parsed::Note(Note::Unlinked),
        ["bad"] => Parsed::Note(Note::Bad),
        ["eof"] => Parsed::Eof,
        ["reconnect"] => Parsed::Reconnect,
        ["drop-handle"] => Parsed::DropHandle,
        ["close-out"] => Parsed::CloseOut,
        ["stop"] => Parsed::Stop,
        ["upd", k, v] if is_map => match (int(k), int(v)) {
            (Some(k), Some(v)) => Parsed::Note(Note::Map(MapMessage::Update { key: k, value: v })),
            _ => Parsed::Invalid,
        },
        ["rem", k] if is_map => int(k).map(|k| Parsed::Note(Note::Map(MapMessage::Remove { key: k }))).unwrap_or(Parsed::Invalid),
        ["clr"] if is_map => Parsed::Note(Note::Map(MapMessage::Clear)),
        ["take", n] if is_map => nat(n).map(|n| Parsed::Note(Note::Map(MapMessage::Take(n)))).unwrap_or(Parsed::Invalid),
        ["drop", n] if is_map => nat(n).map(|n| Parsed::Note(Note::Map(MapMessage::Drop(n)))).unwrap_or(Parsed::Invalid),
        ["set", v] if !is_map => int(v).map(|v| Parsed::Note(Note::Val(v))).unwrap_or(Parsed::Invalid),
        ["wupd", k, v] if is_map => match (int(k), int(v)) {
            (Some(k), Some(v)) => Parsed::Write(Write::Upd(k, v)),
            _ => Parsed::Invalid,
        },
        ["wrem", k] if is_map => int(k).map(|k| Parsed::Write(Write::Rem(k))).unwrap_or(Parsed::Invalid),
        ["wclr"] if is_map => Parsed::Write(Write::Clr),
        ["wset", v] if !is_map => int(v).map(|v| Parsed::Write(Write::Set(v))).unwrap_or(Parsed::Invalid),
        _ => Parsed::Invalid,
    }
}

// ------------------------------------------------------------------------------------------------ client engine

enum ClientWrites {
    Map(mpsc::Sender<MapOperation<i32, i32>>),
    Val(mpsc::Sender<ValueDownlinkSet<i32>>),
}

struct Client {
    is_map: bool,
    input: Option<FramedWrite<ByteWriter, DownlinkNotificationEncoder>>,
    /// `None` once the handle has been dropped
    writes: Option<ClientWrites>,
    /// the task holding the reader of the downlink's output channel
    out: JoinHandle<()>,
    task: Option<JoinHandle<Result<(), DownlinkTaskError>>>,
    log: Log,
}

fn drain(mut rx: ByteReader) -> JoinHandle<()> {
    tokio::spawn(async move {
        let mut buf = [0u8; 1024];
        while let Ok(n) = rx.read(&mut buf).await {
            if n == 0 {
                break;
            }
        }
    })
}

async fn settle() {
    // paused clock: the sleep completes only once every other task is idle
    tokio::time::sleep(Duration::from_millis(1)).await;
}

impl Client {
    fn new(is_map: bool, ews: bool, tou: bool) -> Client {
        let log: Log = Default::default();
        let (in_tx, in_rx) = byte_channel(BUF);
        let (out_tx, out_rx) = byte_channel(BUF);
        let out = drain(out_rx);
        let config = DownlinkConfig { events_when_not_synced: ews, terminate_on_unlinked: tou, buffer_size: BUF };
        let addr = Address::new(None, Text::new("/node"), Text::new("lane"));
        let (l1, l2, l3, l4, l5, l6) = (log.clone(), log.clone(), log.clone(), log.clone(), log.clone(), log.clone());
        let (writes, fut) = if is_map {
            let (tx, rx) = mpsc::channel::<MapOperation<i32, i32>>(64);
            let model = map_downlink::<i32, i32>(rx).with_lifecycle(move |lc| {
                let (l1, l2, l3, l4, l5, l6) = (l1.clone(), l2.clone(), l3.clone(), l4.clone(), l5.clone(), l6.clone());
                lc.on_linked_blocking(move || push(&l1, "on_linked".into()))
                    .on_synced_blocking(move |m: &BTreeMap<i32, i32>| push(&l2, format!("on_synced {}", show_map(m))))
                    .on_update_blocking(move |k: i32, m: &BTreeMap<i32, i32>, old: Option<i32>, new: &i32| {
                        push(&l3, format!("on_update {} {} {} {}", k, show_opt(old.as_ref()), new, show_map(m)))
                    })
                    .on_removed_blocking(move |k: i32, m: &BTreeMap<i32, i32>, old: i32| {
                        push(&l4, format!("on_remove {} {} {}", k, old, show_map(m)))
                    })
                    .on_clear_blocking(move |m: BTreeMap<i32, i32>| push(&l5, format!("on_clear {}", show_map(&m))))
                    .on_unlink_blocking(move || push(&l6, "on_unlinked".into()))
            });
            (ClientWrites::Map(tx), DownlinkTask::new(model).run(addr, config, in_rx, out_tx))
        } else {
            let (tx, rx) = mpsc::channel::<ValueDownlinkSet<i32>>(64);
            let model = value_downlink::<i32>(rx).with_lifecycle(move |lc| {
                let (l1, l2, l3, l4, l5) = (l1.clone(), l2.clone(), l3.clone(), l4.clone(), l5.clone());
                lc.on_linked_blocking(move || push(&l1, "on_linked".into()))
                    .on_synced_blocking(move |v: &i32| push(&l2, format!("on_synced {}", v)))
                    .on_event_blocking(move |v: &i32| push(&l3, format!("on_event {}", v)))
                    .on_set_blocking(move |old: Option<&i32>, v: &i32| push(&l4, format!("on_set {} {}", show_opt(old), v)))
                    .on_unlinked_blocking(move || push(&l5, "on_unlinked".into()))
            });
            (ClientWrites::Val(tx), DownlinkTask::new(model).run(addr, config, in_rx, out_tx))
        };
        let task = tokio::spawn(fut);
        Client {
            is_map,
            input: Some(FramedWrite::new(in_tx, DownlinkNotificationEncoder)),
            writes: Some(writes),
            out,
            task: Some(task),
            log,
        }
    }

    async fn finish(&mut self) -> String {
        settle().await;
        let cbs = take_log(&self.log);
        let finished = self.task.as_ref().map(|t| t.is_finished()).unwrap_or(false);
        if finished {
            let res = self.task.take().unwrap().await;
            self.input = None;
            match res {
                Ok(Ok(())) => render(cbs, Some("ok")),
                Ok(Err(DownlinkTaskError::SyncedWithNoValue)) => render(cbs, Some("synced-with-no-value")),
                Ok(Err(DownlinkTaskError::BadFrame(_))) | Ok(Err(DownlinkTaskError::DeserializationFailed(_))) => {
                    render(cbs, Some("bad-frame"))
                }
                Ok(Err(_)) => render(cbs, Some("other-error")),
                Err(e) if e.is_panic() => "panic".to_string(),
                Err(_) => "cancelled".to_string(),
            }
        } else {
            render(cbs, None)
        }
    }

    async fn exec(&mut self, op: &str) -> String {
        let parsed = parse_op(op, self.is_map);
        if matches!(parsed, Parsed::Invalid | Parsed::Reconnect | Parsed::Stop) {
            return "bad-op".into();
        }
        if self.task.is_none() {
            return "gone".into();
        }
        match parsed {
            Parsed::Note(n) => {
                if let Some(w) = self.input.as_mut() {
                    let _ = w.send(encode_note(&n)).await;
                }
            }
            Parsed::Eof => {
                self.input = None;
            }
            // the handle is gone: the write cannot happen
            Parsed::Write(_) if self.writes.is_none() => {}
            // `try_send`: a task in `Mode::Read` never empties the channel
            Parsed::Write(w) => match (self.writes.as_ref().unwrap(), w) {
                (ClientWrites::Map(tx), Write::Upd(k, v)) => {
                    let _ = tx.try_send(MapOperation::Update { key: k, value: v });
                }
                (ClientWrites::Map(tx), Write::Rem(k)) => {
                    let _ = tx.try_send(MapOperation::Remove { key: k });
                }
                (ClientWrites::Map(tx), Write::Clr) => {
                    let _ = tx.try_send(MapOperation::Clear);
                }
                (ClientWrites::Val(tx), Write::Set(v)) => {
                    let _ = tx.try_send(ValueDownlinkSet { to: v });
                }
                _ => return "bad-op".into(),
            },
            Parsed::DropHandle => self.writes = None,
            Parsed::CloseOut => self.out.abort(),
            _ => unreachable!(),
        }
        self.finish().await
    }
}

// ------------------------------------------------------------------------------------------------ hosted engine

struct FakeAgent;

struct Lc {
    log: Log,
}

type H<'a> = LocalBoxEventHandler<'a, FakeAgent>;

fn eff<'a>(log: &'a Log, s: String) -> H<'a> {
    SideEffect::from(move || push(log, s)).boxed_local()
}

impl OnLinked<FakeAgent> for Lc {
    type OnLinkedHandler<'a> = H<'a> where Self: 'a;
    fn on_linked(&self) -> H<'_> {
        eff(&self.log, "on_linked".into())
    }
}
impl OnUnlinked<FakeAgent> for Lc {
    type OnUnlinkedHandler<'a> = H<'a> where Self: 'a;
    fn on_unlinked(&self) -> H<'_> {
        eff(&self.log, "on_unlinked".into())
    }
}
impl OnFailed<FakeAgent> for Lc {
    type OnFailedHandler<'a> = H<'a> where Self: 'a;
    fn on_failed(&self) -> H<'_> {
        eff(&self.log, "on_failed".into())
    }
}
impl OnSynced<HashMap<i32, i32>, FakeAgent> for Lc {
    type OnSyncedHandler<'a> = H<'a> where Self: 'a;
    fn on_synced<'a>(&'a self, value: &HashMap<i32, i32>) -> H<'a> {
        eff(&self.log, format!("on_synced {}", show_map(value)))
    }
}
impl OnDownlinkUpdate<i32, i32, HashMap<i32, i32>, FakeAgent> for Lc {
    type OnUpdateHandler<'a> = H<'a> where Self: 'a;
    fn on_update<'a>(&'a self, key: i32, map: &HashMap<i32, i32>, previous: Option<i32>, new_value: &i32) -> H<'a> {
        eff(&self.log, format!("on_update {} {} {} {}", key, show_opt(previous.as_ref()), new_value, show_map(map)))
    }
}
impl OnDownlinkRemove<i32, i32, HashMap<i32, i32>, FakeAgent> for Lc {
    type OnRemoveHandler<'a> = H<'a> where Self: 'a;
    fn on_remove<'a>(&'a self, key: i32, map: &HashMap<i32, i32>, removed: i32) -> H<'a> {
        eff(&self.log, format!("on_remove {} {} {}", key, removed, show_map(map)))
    }
}
impl OnDownlinkClear<HashMap<i32, i32>, FakeAgent> for Lc {
    type OnClearHandler<'a> = H<'a> where Self: 'a;
    fn on_clear(&self, map: HashMap<i32, i32>) -> H<'_> {
        eff(&self.log, format!("on_clear {}", show_map(&map)))
    }
}
impl OnSynced<i32, FakeAgent> for Lc {
    type OnSyncedHandler<'a> = H<'a> where Self: 'a;
    fn on_synced<'a>(&'a self, value: &i32) -> H<'a> {
        eff(&self.log, format!("on_synced {}", value))
    }
}
impl OnDownlinkEvent<i32, FakeAgent> for Lc {
    type OnEventHandler<'a> = H<'a> where Self: 'a;
    fn on_event(&self, value: &i32) -> H<'_> {
        eff(&self.log, format!("on_event {}", value))
    }
}
impl OnDownlinkSet<i32, FakeAgent> for Lc {
    type OnSetHandler<'a> = H<'a> where Self: 'a;
    fn on_set<'a>(&'a self, previous: Option<i32>, new_value: &i32) -> H<'a> {
        eff(&self.log, format!("on_set {} {}", show_opt(previous.as_ref()), new_value))
    }
}

struct NoSpawn;
impl Spawner<FakeAgent> for NoSpawn {
    fn spawn_suspend(&self, _fut: HandlerFuture<FakeAgent>) {
        panic!("unexpected suspend");
    }
    fn schedule_timer(&self, _at: tokio::time::Instant, _id: u64) {
        panic!("unexpected timer");
    }
}
impl LaneSpawner<FakeAgent> for NoSpawn {
    fn spawn_warp_lane(
        &self,
        _name: &str,
        _kind: WarpLaneKind,
        _on_done: LaneSpawnOnDone<FakeAgent>,
    ) -> Result<(), DynamicRegistrationError> {
        panic!("unexpected lane");
    }
}

#[derive(Default)]
struct Capture(RefCell<Option<BoxDownlinkChannelFactory<FakeAgent>>>);
impl LinkSpawner<FakeAgent> for Capture {
    fn spawn_downlink(
        &self,
        _path: Address<Text>,
        make_channel: BoxDownlinkChannelFactory<FakeAgent>,
        _on_done: DownlinkSpawnOnDone<FakeAgent>,
    ) {
        *self.0.borrow_mut() = Some(make_channel);
    }
    fn register_commander(&self, _path: Address<Text>) -> Result<u16, CommanderRegistrationError> {
        panic!("unexpected commander");
    }
}

const AGENT_CONFIG: AgentConfig = AgentConfig::DEFAULT;

/// Runs a handler action to completion in a context whose link spawner captures channel factories.
fn run_action<Hd: HandlerAction<FakeAgent>>(mut h: Hd, links: &dyn LinkSpawner<FakeAgent>) -> Option<Hd::Completion> {
    let uri = RouteUri::try_from("/node").expect("uri");
    let params = HashMap::new();
    let meta = AgentMetadata::new(&uri, &params, &AGENT_CONFIG);
    let no_spawn = NoSpawn;
    let mut join_init = HashMap::new();
    let mut cmd = BytesMut::new();
    let mut ctx = ActionContext::new(&no_spawn, links, &no_spawn, &mut join_init, &mut cmd);
    let agent = FakeAgent;
    loop {
        match h.step(&mut ctx, meta, &agent) {
            StepResult::Continue { .. } => {}
            StepResult::Fail(_) => return None,
            StepResult::Complete { result, .. } => return Some(result),
        }
    }
}

enum HostedWrites {
    Map(MapDownlinkHandle<i32, i32>),
    Val(ValueDownlinkHandle<i32>),
}

struct Hosted {
    is_map: bool,
    chan: BoxDownlinkChannel<FakeAgent>,
    input: Option<FramedWrite<ByteWriter, DownlinkNotificationEncoder>>,
    /// `None` once the handle has been dropped
    writes: Option<HostedWrites>,
    log: Log,
    ended: bool,
}

impl Hosted {
    fn new(is_map: bool, ews: bool, tou: bool) -> Hosted {
        let log: Log = Default::default();
        let lc = Lc { log: log.clone() };
        let addr: Address<Text> = Address::new(None, Text::new("/node"), Text::new("lane"));
        let cap = Capture::default();
        let writes = if is_map {
            let config = MapDownlinkConfig { events_when_not_synced: ews, terminate_on_unlinked: tou };
            let act = OpenMapDownlinkAction::<i32, i32, HashMap<i32, i32>, Lc>::new(addr, lc, config);
            HostedWrites::Map(run_action(act, &cap).expect("open map downlink"))
        } else {
            let config = SimpleDownlinkConfig { events_when_not_synced: ews, terminate_on_unlinked: tou };
            let act = OpenValueDownlinkAction::<i32, Lc>::new(addr, lc, config);
            HostedWrites::Val(run_action(act, &cap).expect("open value downlink"))
        };
        let fac = cap.0.borrow_mut().take().expect("factory captured");
        let (in_tx, in_rx) = byte_channel(BUF);
        let (out_tx, out_rx) = byte_channel(BUF);
        drain(out_rx);
        let chan = fac.create_box(&FakeAgent, out_tx, in_rx);
        Hosted {
            is_map,
            chan,
            input: Some(FramedWrite::new(in_tx, DownlinkNotificationEncoder)),
            writes: Some(writes),
            log,
            ended: false,
        }
    }

    fn run_next_event(&mut self) {
        let agent = FakeAgent;
        if let Some(handler) = self.chan.next_event(&agent) {
            run_action(handler, &Capture::default());
        }
    }

    /// The agent's loop for one hosted downlink (`agent_model`: `HostedDownlinkEvent::*`), until idle.
    async fn pump(&mut self) -> String {
        let mut end: Option<&str> = None;
        loop {
            match tokio::time::timeout(Duration::from_millis(5), self.chan.await_ready()).await {
                Err(_) => break, // idle
                Ok(None) => {
                    self.ended = true;
                    end = Some("ok");
                    break;
                }
                Ok(Some(Ok(DownlinkChannelEvent::HandlerReady))) => self.run_next_event(),
                Ok(Some(Ok(_))) => {}
                Ok(Some(Err(DownlinkChannelError::ReadFailed))) => {
                    self.run_next_event();
                    self.ended = true;
                    end = Some("failed");
                    break;
                }
                Ok(Some(Err(DownlinkChannelError::WriteFailed(_)))) => {
                    self.ended = true;
                    end = Some("write-failed");
                    break;
                }
            }
        }
        if self.ended {
            self.input = None;
        }
        render(take_log(&self.log), end)
    }

    async fn exec(&mut self, op: &str) -> String {
        let parsed = parse_op(op, self.is_map);
        match parsed {
            Parsed::Invalid | Parsed::CloseOut => return "bad-op".into(),
            Parsed::Reconnect => {
                if !self.ended {
                    return "bad-op".into();
                }
                if !self.chan.can_restart() {
                    return "refused".into();
                }
                let (in_tx, in_rx) = byte_channel(BUF);
                let (out_tx, out_rx) = byte_channel(BUF);
                drain(out_rx);
                self.chan.connect(&FakeAgent, out_tx, in_rx);
                self.input = Some(FramedWrite::new(in_tx, DownlinkNotificationEncoder));
                self.ended = false;
                return "ok".into();
            }
            _ => {}
        }
        if self.ended {
            return "gone".into();
        }
        match parsed {
            Parsed::Note(n) => {
                if let Some(w) = self.input.as_mut() {
                    let _ = w.send(encode_note(&n)).await;
                }
            }
            Parsed::Eof => self.input = None,
            Parsed::DropHandle => self.writes = None,
            Parsed::Stop => match self.writes.as_mut() {
                Some(HostedWrites::Map(h)) => h.stop(),
                Some(HostedWrites::Val(h)) => h.stop(),
                None => {} // no handle left to call it on
            },
            Parsed::Write(_) if self.writes.is_none() => {}
            Parsed::Write(w) => match (self.writes.as_mut().unwrap(), w) {
                (HostedWrites::Map(h), Write::Upd(k, v)) => {
                    let _ = h.update(k, v);
                }
                (HostedWrites::Map(h), Write::Rem(k)) => {
                    let _ = h.remove(k);
                }
                (HostedWrites::Map(h), Write::Clr) => {
                    let _ = h.clear();
                }
                (HostedWrites::Val(h), Write::Set(v)) => {
                    let _ = h.set(v);
                }
                _ => return "bad-op".into(),
            },
            _ => unreachable!(),
        }
        match std::panic::AssertUnwindSafe(self.pump()).catch_unwind().await {
            Ok(s) => s,
            Err(_) => {
                self.ended = true;
                "panic".into()
            }
        }
    }
}

// ------------------------------------------------------------------------------------------------ cases

enum Eng {
    C(Client),
    H(Hosted),
}

fn make(op: &str) -> Option<Eng> {
    let p: Vec<&str> = op.split_whitespace().collect();
    match p.as_slice() {
        ["new", imp, kind, ews, tou] => {
            let is_map = match *kind {
                "map" => true,
                "value" => false,
                _ => return None,
            };
            let b = |s: &str| match s {
                "0" => Some(false),
                "1" => Some(true),
                _ => None,
            };
            let (ews, tou) = (b(ews)?, b(tou)?);
            match *imp {
                "client" => Some(Eng::C(Client::new(is_map, ews, tou))),
                "hosted" => Some(Eng::H(Hosted::new(is_map, ews, tou))),
                _ => None,
            }
        }
        _ => None,
    }
}

async fn run_case(t: &mut Trace, ops: &[String]) {
    let mut eng: Option<Eng> = None;
    for op in ops {
        if op.starts_with("new ") {
            if let Some(Eng::C(c)) = eng.take() {
                if let Some(task) = c.task {
                    task.abort();
                }
            }
            eng = make(op);
            t.op(op, if eng.is_some() { "ok" } else { "bad-op" });
            continue;
        }
        let out = match eng.as_mut() {
            Some(Eng::C(c)) => c.exec(op).await,
            Some(Eng::H(h)) => h.exec(op).await,
            None => "bad-op".to_string(),
        };
        t.op(op, out);
    }
    if let Some(Eng::C(c)) = eng.take() {
        if let Some(task) = c.task {
            task.abort();
        }
    }
}

// ------------------------------------------------------------------------------------------------ generator

fn key(rng: &mut Rng) -> i64 {
    if rng.chance(1, 12) {
        -(rng.range(1, 3) as i64)
    } else {
        rng.range(0, 4) as i64
    }
}

fn value(rng: &mut Rng) -> i64 {
    if rng.chance(1, 10) {
        -(rng.range(1, 50) as i64)
    } else {
        rng.range(0, 99) as i64
    }
}

fn event(rng: &mut Rng, is_map: bool, takedrop: bool) -> String {
    if !is_map {
        return format!("set {}", value(rng));
    }
    let r = rng.below(100);
    if r < 55 {
        format!("upd {} {}", key(rng), value(rng))
    } else if r < 78 {
        format!("rem {}", key(rng))
    } else if r < 88 || !takedrop {
        "clr".into()
    } else if r < 94 {
        format!("take {}", rng.range(0, 4))
    } else {
        format!("drop {}", rng.range(0, 4))
    }
}

fn local_write(rng: &mut Rng, is_map: bool) -> String {
    if !is_map {
        return format!("wset {}", value(rng));
    }
    let r = rng.below(100);
    if r < 60 {
        format!("wupd {} {}", key(rng), value(rng))
    } else if r < 85 {
        format!("wrem {}", key(rng))
    } else {
        "wclr".into()
    }
}

/// One case: a legal conversation `linked ev* synced ev* unlinked (relink ...)`, optionally decorated with local
/// writes, channel failures / reconnects, and (for a minority) mutated into an illegal sequence.
fn gen_case(rng: &mut Rng, imp: &str) -> Vec<String> {
    let is_map = rng.chance(7, 10);
    let ews = rng.chance(1, 2);
    let tou = rng.chance(1, 3);
    let takedrop = rng.chance(1, 3);
    let writes = rng.chance(1, 4);
    let mut ops: Vec<String> = vec![];
    let sessions = rng.range(1, 3);
    for _ in 0..sessions {
        ops.push("linked".into());
        let pre = if is_map { rng.range(0, 5) } else { rng.range(1, 3) };
        for _ in 0..pre {
            ops.push(event(rng, is_map, takedrop));
        }
        if rng.chance(9, 10) {
            ops.push("synced".into());
            for _ in 0..rng.range(0, 6) {
                ops.push(event(rng, is_map, takedrop));
            }
        }
        let r = rng.below(100);
        if r < 80 {
            ops.push("unlinked".into());
            if tou && rng.chance(4, 5) {
                // the task has terminated: a few more ops only to see `gone`
                for _ in 0..rng.below(3) {
                    ops.push(if rng.chance(1, 2) { "linked".into() } else { event(rng, is_map, takedrop) });
                }
                break;
            }
        } else if r < 88 {
            ops.push("eof".into());
            ops.push("reconnect".into());
        } else if r < 92 {
            ops.push("bad".into());
            ops.push("reconnect".into());
        } else {
            break;
        }
    }
    if writes {
        for _ in 0..rng.range(1, 4) {
            let at = rng.below(ops.len() as u64 + 1) as usize;
            ops.insert(at, local_write(rng, is_map));
        }
    }
    if rng.chance(3, 20) {
        // illegal: insert / delete / duplicate
        for _ in 0..rng.range(1, 2) {
            let r = rng.below(3);
            let at = rng.below(ops.len() as u64) as usize;
            if r == 0 {
                let extra = match rng.below(5) {
                    0 => "linked".to_string(),
                    1 => "synced".to_string(),
                    2 => "unlinked".to_string(),
                    3 => "reconnect".to_string(),
                    _ => event(rng, is_map, true),
                };
                ops.insert(at, extra);
            } else if r == 1 && ops.len() > 1 {
                ops.remove(at);
            } else {
                let d = ops[at].clone();
                ops.insert(at, d);
            }
        }
    }
    // the handle side: the write handle dropped at any point of the script (before `linked`, between any two ops, at
    // the end); for the client task everything after it runs in the `Mode::Read` loop
    if rng.chance(3, 10) {
        let at = rng.below(ops.len() as u64 + 1) as usize;
        ops.insert(at, "drop-handle".into());
    }
    // client: the output channel closed, then local writes (the value task switches to `Mode::Read` when a write fails)
    if rng.chance(1, 12) {
        let at = rng.below(ops.len() as u64 + 1) as usize;
        ops.insert(at, "close-out".into());
        for _ in 0..rng.range(2, 3) {
            let p = at + 1 + rng.below((ops.len() - at) as u64) as usize;
            ops.insert(p, local_write(rng, is_map));
        }
    }
    // hosted: `handle.stop()`
    if rng.chance(1, 15) {
        let at = rng.below(ops.len() as u64 + 1) as usize;
        ops.insert(at, "stop".into());
    }
    if imp == "client" {
        ops.retain(|o| o != "reconnect" && o != "stop");
    } else {
        ops.retain(|o| o != "close-out");
    }
    let mut all = vec![format!(
        "new {} {} {} {}",
        imp,
        if is_map { "map" } else { "value" },
        ews as u8,
        tou as u8
    )];
    all.extend(ops);
    all
}

/// All sequences of length `depth` over `alphabet`, for the four settings.
async fn enumerate(t: &mut Trace, imp: &str, kind: &str, alphabet: &[&str], depth: usize, count: &mut u64) {
    let k = alphabet.len();
    for cfg in 0..4u8 {
        let mut idx = vec![0usize; depth];
        'outer: loop {
            let mut ops = vec![format!("new {} {} {} {}", imp, kind, cfg & 1, (cfg >> 1) & 1)];
            ops.extend(idx.iter().map(|&j| alphabet[j].to_string()));
            t.case(format!("exh {} #{}", imp, count));
            run_case(t, &ops).await;
            *count += 1;
            let mut p = depth;
            loop {
                if p == 0 {
                    break 'outer;
                }
                p -= 1;
                idx[p] += 1;
                if idx[p] < k {
                    break;
                }
                idx[p] = 0;
            }
        }
    }
}

/// All sequences up to `depth` over a small alphabet, for the four settings: map downlinks (notifications only), then
/// value downlinks and map downlinks with the handle side (`drop-handle`, a local write; one op shorter for maps).
async fn exhaustive(t: &mut Trace, imp: &str, depth: usize) {
    let mut count = 0u64;
    let map = ["linked", "synced", "unlinked", "upd 1 10", "upd 2 20", "rem 1", "clr", "take 1", "drop 1"];
    enumerate(t, imp, "map", &map, depth, &mut count).await;
    let value = ["linked", "synced", "unlinked", "set 1", "set 2", "drop-handle", "wset 3"];
    enumerate(t, imp, "value", &value, depth, &mut count).await;
    let map_io = ["linked", "synced", "unlinked", "upd 1 10", "rem 1", "clr", "drop-handle", "wupd 2 20"];
    enumerate(t, imp, "map", &map_io, depth - 1, &mut count).await;
}

fn main() {
    std::panic::set_hook(Box::new(|_| {}));
    let rt = tokio::runtime::Builder::new_current_thread()
        .enable_time()
        .start_paused(true)
        .build()
        .expect("runtime");
    match parse_args() {
        Mode::Gen { seed, cases, out } => {
            let mut t = Trace::create(&out);
            let extra: Vec<String> = std::env::args().skip(5).collect();
            let imp = extra.first().cloned().unwrap_or_else(|| "client".to_string());
            if extra.get(1).map(|s| s.as_str()) == Some("exhaustive") {
                if seed % 1000 == 0 {
                    let depth: usize = extra[2].parse().unwrap();
                    rt.block_on(exhaustive(&mut t, &imp, depth));
                }
                t.finish();
                return;
            }
            // the same seed gives the same notification sequences to both implementations
            let mut rng = Rng::new(seed);
            rt.block_on(async {
                for c in 0..cases {
                    let ops = gen_case(&mut rng, &imp);
                    t.case(format!("{} seed={}", c, seed));
                    run_case(&mut t, &ops).await;
                }
            });
            t.finish();
        }
        Mode::Replay { ops, out } => {
            let mut t = Trace::create(&out);
            rt.block_on(async {
                for (i, case) in ops.iter().enumerate() {
                    t.case(i);
                    run_case(&mut t, case).await;
                }
            });
            t.finish();
        }
    }
}
