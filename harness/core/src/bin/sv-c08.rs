//! C08 correspondence: the real stand-alone client downlink task (`swimos_downlink::DownlinkTask`, public API)
//! and the real agent-hosted downlink channel (`swimos_agent::agent_model::downlink`, public API: the channel
//! factory is captured from `Open{Map,Value}DownlinkAction` through our own `LinkSpawner`) are fed the same
//! notification sequences, one notification at a time, run to idle on a paused current-thread runtime.
//! Every lifecycle callback is logged with its arguments.
//!
//! Hosted downlinks are opened either directly (`Open*DownlinkAction::new`, `path=0`) or THROUGH THE PUBLIC BUILDERS
//! (`HandlerContext::{map,value,event}_downlink_builder`, `path=1..6`: stateless, setters reversed, `with_state` first,
//! `with_state` first + reversed, all stateless setters then `with_state`, mixed); the configured flags and every handler
//! must be in effect whatever the path. Values are strings on the wire: the decimal number, padded to 6–18 KB for a
//! quarter of the values when the downlink was created with `big` (then the byte channels are 512 bytes, so that an event
//! body spans many reads); they are rendered as the number (`corrupt` if the padding is damaged).
//!
//! ops:  new <client|hosted> <map|value|event> <ews> <tou> [path=N] [big] | linked | synced | unlinked | upd k v | rem k | clr |
//!       take n | drop n | set v | wupd k v | wrem k | wclr | wset v | bad | eof | reconnect |
//!       drop-handle (the write handle — client: the `mpsc::Sender`, hosted: the `*DownlinkHandle` — is dropped: the
//!       client task falls back to its `Mode::Read` loop) | close-out (client: the reader of the task's output channel is
//!       dropped, so writes fail) | stop (hosted: `handle.stop()`)
//! out:  callbacks joined by " | " (`-` when nothing happened), `end ok|failed|synced-with-no-value|bad-frame`
//!       appended when the task/channel finished, `gone` once it has finished, `panic`.
use std::cell::RefCell;
use std::collections::{BTreeMap, HashMap};
use std::num::NonZeroUsize;
use std::sync::{Arc, Mutex};
use std::time::Duration;

use bytes::{Bytes, BytesMut};
use futures::{FutureExt, SinkExt};
use svh::{parse_args, Mode, Rng, Trace};
use swimos_agent::agent_lifecycle::HandlerContext;
use swimos_agent::agent_model::downlink::{
    BoxDownlinkChannel, BoxDownlinkChannelFactory, DownlinkChannelError, DownlinkChannelEvent, EventDownlinkHandle,
    MapDownlinkHandle, OpenEventDownlinkAction, OpenMapDownlinkAction, OpenValueDownlinkAction, ValueDownlinkHandle,
};
use swimos_agent::agent_model::AgentDescription;
use swimos_agent::config::{MapDownlinkConfig, SimpleDownlinkConfig};
use swimos_agent::downlink_lifecycle::{
    OnConsumeEvent, OnDownlinkClear, OnDownlinkEvent, OnDownlinkRemove, OnDownlinkSet, OnDownlinkUpdate, OnFailed, OnLinked,
    OnSynced, OnUnlinked,
};
use swimos_agent::event_handler::{
    ActionContext, DownlinkSpawnOnDone, HandlerAction, HandlerActionExt, HandlerFuture, LaneSpawnOnDone,
    LaneSpawner, LinkSpawner, LocalBoxEventHandler, SideEffect, Spawner, StepResult,
};
use swimos_agent::AgentMetadata;
use swimos_agent_protocol::encoding::downlink::DownlinkNotificationEncoder;
use swimos_agent_protocol::encoding::map::MapMessageEncoder;
use swimos_agent_protocol::{DownlinkNotification, MapMessage, MapOperation};
use swimos_api::address::Address;
use swimos_api::agent::{AgentConfig, WarpLaneKind};
use swimos_api::error::{CommanderRegistrationError, DownlinkTaskError, DynamicRegistrationError};
use swimos_client_api::{Downlink, DownlinkConfig};
use swimos_downlink::{map_downlink, value_downlink, DownlinkTask, ValueDownlinkSet};
use swimos_model::Text;
use swimos_utilities::byte_channel::{byte_channel, ByteReader, ByteWriter};
use swimos_utilities::routing::RouteUri;
use tokio::io::AsyncReadExt;
use tokio::sync::mpsc;
use tokio::task::JoinHandle;
use tokio_util::codec::{Encoder, FramedWrite};

type Log = Arc<Mutex<Vec<String>>>;
const BUF: NonZeroUsize = match NonZeroUsize::new(4096) {
    Some(n) => n,
    None => unreachable!(),
};

// ------------------------------------------------------------------------------------------------ rendering

/// The value type of every downlink in this harness (the model's `Int`, possibly padded on the wire).
type V = String;
const SMALL_CHANNEL: NonZeroUsize = match NonZeroUsize::new(512) {
    Some(n) => n,
    None => unreachable!(),
};

fn pad_len(v: i32) -> usize {
    if v.rem_euclid(4) == 1 {
        5000 + (v.rem_euclid(16) as usize) * 1000
    } else {
        0
    }
}

/// wire form of the model value `v`
fn wire(v: i32, big: bool) -> V {
    let n = if big { pad_len(v) } else { 0 };
    if n == 0 {
        v.to_string()
    } else {
        format!("{}_{}", v, "x".repeat(n))
    }
}

/// the model value of a wire value (`corrupt` unless it is exactly a `wire(..)` image)
fn show_val(s: &str) -> String {
    let (num, pad) = match s.split_once('_') {
        Some((a, b)) => (a, Some(b)),
        None => (s, None),
    };
    match (num.parse::<i32>(), pad) {
        (Ok(v), None) if v.to_string() == num => num.to_string(),
        (Ok(v), Some(p)) if v.to_string() == num && p.len() == pad_len(v) && p.bytes().all(|b| b == b'x') => num.to_string(),
        _ => "corrupt".to_string(),
    }
}

fn show_map<'a, I: IntoIterator<Item = (&'a i32, &'a V)>>(it: I) -> String {
    let mut v: Vec<(i32, String)> = it.into_iter().map(|(k, v)| (*k, show_val(v))).collect();
    v.sort();
    let body: Vec<String> = v.iter().map(|(k, v)| format!("{}:{}", k, v)).collect();
    format!("{{{}}}", body.join(","))
}

fn show_opt(v: Option<&V>) -> String {
    match v {
        Some(v) => show_val(v),
        None => "none".to_string(),
    }
}

fn push(log: &Log, s: String) {
    log.lock().unwrap().push(s);
}

fn take_log(log: &Log) -> Vec<String> {
    std::mem::take(&mut *log.lock().unwrap())
}

fn render(mut cbs: Vec<String>, end: Option<&str>) -> String {
    if let Some(e) = end {
        cbs.push(format!("end {}", e));
    }
    if cbs.is_empty() {
        "-".to_string()
    } else {
        cbs.join(" | ")
    }
}

// ------------------------------------------------------------------------------------------------ notifications

#[derive(Clone, Debug)]
enum Note {
    Linked,
    Synced,
    Unlinked,
    Map(MapMessage<i32, i32>),
    Val(i32),
    Bad,
}

fn wire_msg(m: &MapMessage<i32, i32>, big: bool) -> MapMessage<i32, V> {
    match m {
        MapMessage::Update { key, value } => MapMessage::Update { key: *key, value: wire(*value, big) },
        MapMessage::Remove { key } => MapMessage::Remove { key: *key },
        MapMessage::Clear => MapMessage::Clear,
        MapMessage::Take(n) => MapMessage::Take(*n),
        MapMessage::Drop(n) => MapMessage::Drop(*n),
    }
}

fn encode_note(n: &Note, big: bool) -> DownlinkNotification<Bytes> {
    match n {
        Note::Linked => DownlinkNotification::Linked,
        Note::Synced => DownlinkNotification::Synced,
        Note::Unlinked => DownlinkNotification::Unlinked,
        Note::Map(m) => {
            let mut buf = BytesMut::new();
            MapMessageEncoder::default().encode(wire_msg(m, big), &mut buf).expect("encode map message");
            DownlinkNotification::Event { body: buf.freeze() }
        }
        // a Recon string literal (digits, `_`, `x` only: nothing to escape)
        Note::Val(v) => DownlinkNotification::Event { body: Bytes::from(format!("\"{}\"", wire(*v, big)).into_bytes()) },
        // an event frame whose body is not a value of the expected type
        Note::Bad => DownlinkNotification::Event { body: Bytes::from_static(b"@@@ )(") },
    }
}

enum Write {
    Upd(i32, i32),
    Rem(i32),
    Clr,
    Set(i32),
}

enum Parsed {
    Note(Note),
    Write(Write),
    Eof,
    Reconnect,
    DropHandle,
    CloseOut,
    Stop,
    Invalid,
}

fn parse_op(op: &str, is_map: bool) -> Parsed {
    let p: Vec<&str> = op.split_whitespace().collect();
    let int = |s: &str| s.parse::<i32>().ok();
    let nat = |s: &str| s.parse::<u64>().ok();
    match p.as_slice() {
        ["linked"] => Parsed::Note(Note::Linked),
        ["synced"] => Parsed::Note(Note::Synced),
        ["unlinked"] => Parsed::Note(Note::Unlinked),
        ["bad"] => Parsed::Note(Note::Bad),
        ["eof"] => Parsed::Eof,
        ["reconnect"] => Parsed::Reconnect,
        ["drop-handle"] => Parsed::DropHandle,
        ["close-out"] => Parsed::CloseOut,
        ["stop"] => Parsed::Stop,
        ["upd", k, v] if is_map => match (int(k), int(v)) {
            (Some(k), Some(v)) => Parsed::Note(Note::Map(MapMessage::Update { key: k, value: v })),
            _ => Parsed::Invalid,
        },
        ["rem", k] if is_map => int(k).map(|k| Parsed::Note(Note::Map(MapMessage::Remove { key: k }))).unwrap_or(Parsed::Invalid),
        ["clr"] if is_map => Parsed::Note(Note::Map(MapMessage::Clear)),
        ["take", n] if is_map => nat(n).map(|n| Parsed::Note(Note::Map(MapMessage::Take(n)))).unwrap_or(Parsed::Invalid),
        ["drop", n] if is_map => nat(n).map(|n| Parsed::Note(Note::Map(MapMessage::Drop(n)))).unwrap_or(Parsed::Invalid),
        ["set", v] if !is_map => int(v).map(|v| Parsed::Note(Note::Val(v))).unwrap_or(Parsed::Invalid),
        ["wupd", k, v] if is_map => match (int(k), int(v)) {
            (Some(k), Some(v)) => Parsed::Write(Write::Upd(k, v)),
            _ => Parsed::Invalid,
        },
        ["wrem", k] if is_map => int(k).map(|k| Parsed::Write(Write::Rem(k))).unwrap_or(Parsed::Invalid),
        ["wclr"] if is_map => Parsed::Write(Write::Clr),
        ["wset", v] if !is_map => int(v).map(|v| Parsed::Write(Write::Set(v))).unwrap_or(Parsed::Invalid),
        _ => Parsed::Invalid,
    }
}

// ------------------------------------------------------------------------------------------------ client engine

enum ClientWrites {
    Map(mpsc::Sender<MapOperation<i32, V>>),
    Val(mpsc::Sender<ValueDownlinkSet<V>>),
}

struct Client {
    is_map: bool,
    big: bool,
    input: Option<FramedWrite<ByteWriter, DownlinkNotificationEncoder>>,
    /// `None` once the handle has been dropped
    writes: Option<ClientWrites>,
    /// the task holding the reader of the downlink's output channel
    out: JoinHandle<()>,
    task: Option<JoinHandle<Result<(), DownlinkTaskError>>>,
    log: Log,
}

fn drain(mut rx: ByteReader) -> JoinHandle<()> {
    tokio::spawn(async move {
        let mut buf = [0u8; 1024];
        while let Ok(n) = rx.read(&mut buf).await {
            if n == 0 {
                break;
            }
        }
    })
}

async fn settle() {
    // paused clock: the sleep completes only once every other task is idle
    tokio::time::sleep(Duration::from_millis(1)).await;
}

impl Client {
    fn new(is_map: bool, ews: bool, tou: bool, big: bool) -> Client {
        let log: Log = Default::default();
        let chan = if big { SMALL_CHANNEL } else { BUF };
        let (in_tx, in_rx) = byte_channel(chan);
        let (out_tx, out_rx) = byte_channel(chan);
        let out = drain(out_rx);
        let config = DownlinkConfig { events_when_not_synced: ews, terminate_on_unlinked: tou, buffer_size: BUF };
        let addr = Address::new(None, Text::new("/node"), Text::new("lane"));
        let (l1, l2, l3, l4, l5, l6) = (log.clone(), log.clone(), log.clone(), log.clone(), log.clone(), log.clone());
        let (writes, fut) = if is_map {
            let (tx, rx) = mpsc::channel::<MapOperation<i32, V>>(64);
            let model = map_downlink::<i32, V>(rx).with_lifecycle(move |lc| {
                let (l1, l2, l3, l4, l5, l6) = (l1.clone(), l2.clone(), l3.clone(), l4.clone(), l5.clone(), l6.clone());
                lc.on_linked_blocking(move || push(&l1, "on_linked".into()))
                    .on_synced_blocking(move |m: &BTreeMap<i32, V>| push(&l2, format!("on_synced {}", show_map(m))))
                    .on_update_blocking(move |k: i32, m: &BTreeMap<i32, V>, old: Option<V>, new: &V| {
                        push(&l3, format!("on_update {} {} {} {}", k, show_opt(old.as_ref()), show_val(new), show_map(m)))
                    })
                    .on_removed_blocking(move |k: i32, m: &BTreeMap<i32, V>, old: V| {
                        push(&l4, format!("on_remove {} {} {}", k, show_val(&old), show_map(m)))
                    })
                    .on_clear_blocking(move |m: BTreeMap<i32, V>| push(&l5, format!("on_clear {}", show_map(&m))))
                    .on_unlink_blocking(move || push(&l6, "on_unlinked".into()))
            });
            (ClientWrites::Map(tx), DownlinkTask::new(model).run(addr, config, in_rx, out_tx))
        } else {
            let (tx, rx) = mpsc::channel::<ValueDownlinkSet<V>>(64);
            let model = value_downlink::<V>(rx).with_lifecycle(move |lc| {
                let (l1, l2, l3, l4, l5) = (l1.clone(), l2.clone(), l3.clone(), l4.clone(), l5.clone());
                lc.on_linked_blocking(move || push(&l1, "on_linked".into()))
                    .on_synced_blocking(move |v: &V| push(&l2, format!("on_synced {}", show_val(v))))
                    .on_event_blocking(move |v: &V| push(&l3, format!("on_event {}", show_val(v))))
                    .on_set_blocking(move |old: Option<&V>, v: &V| push(&l4, format!("on_set {} {}", show_opt(old), show_val(v))))
                    .on_unlinked_blocking(move || push(&l5, "on_unlinked".into()))
            });
            (ClientWrites::Val(tx), DownlinkTask::new(model).run(addr, config, in_rx, out_tx))
        };
        let task = tokio::spawn(fut);
        Client {
            is_map,
            big,
            input: Some(FramedWrite::new(in_tx, DownlinkNotificationEncoder)),
            writes: Some(writes),
            out,
            task: Some(task),
            log,
        }
    }

    async fn finish(&mut self) -> String {
        settle().await;
        let cbs = take_log(&self.log);
        let finished = self.task.as_ref().map(|t| t.is_finished()).unwrap_or(false);
        if finished {
            let res = self.task.take().unwrap().await;
            self.input = None;
            match res {
                Ok(Ok(())) => render(cbs, Some("ok")),
                Ok(Err(DownlinkTaskError::SyncedWithNoValue)) => render(cbs, Some("synced-with-no-value")),
                Ok(Err(DownlinkTaskError::BadFrame(_))) | Ok(Err(DownlinkTaskError::DeserializationFailed(_))) => {
                    render(cbs, Some("bad-frame"))
                }
                Ok(Err(_)) => render(cbs, Some("other-error")),
                Err(e) if e.is_panic() => "panic".to_string(),
                Err(_) => "cancelled".to_string(),
            }
        } else {
            render(cbs, None)
        }
    }

    async fn exec(&mut self, op: &str) -> String {
        let parsed = parse_op(op, self.is_map);
        if matches!(parsed, Parsed::Invalid | Parsed::Reconnect | Parsed::Stop) {
            return "bad-op".into();
        }
        if self.task.is_none() {
            return "gone".into();
        }
        match parsed {
            Parsed::Note(n) => {
                if let Some(w) = self.input.as_mut() {
                    let _ = w.send(encode_note(&n, self.big)).await;
                }
            }
            Parsed::Eof => {
                self.input = None;
            }
            // the handle is gone: the write cannot happen
            Parsed::Write(_) if self.writes.is_none() => {}
            // `try_send`: a task in `Mode::Read` never empties the channel
            Parsed::Write(w) => match (self.writes.as_ref().unwrap(), w) {
                (ClientWrites::Map(tx), Write::Upd(k, v)) => {
                    let _ = tx.try_send(MapOperation::Update { key: k, value: wire(v, self.big) });
                }
                (ClientWrites::Map(tx), Write::Rem(k)) => {
                    let _ = tx.try_send(MapOperation::Remove { key: k });
                }
                (ClientWrites::Map(tx), Write::Clr) => {
                    let _ = tx.try_send(MapOperation::Clear);
                }
                (ClientWrites::Val(tx), Write::Set(v)) => {
                    let _ = tx.try_send(ValueDownlinkSet { to: wire(v, self.big) });
                }
                _ => return "bad-op".into(),
            },
            Parsed::DropHandle => self.writes = None,
            Parsed::CloseOut => self.out.abort(),
            _ => unreachable!(),
        }
        self.finish().await
    }
}

// ------------------------------------------------------------------------------------------------ hosted engine

struct FakeAgent;
impl AgentDescription for FakeAgent {}

struct Lc {
    log: Log,
}

type H<'a> = LocalBoxEventHandler<'a, FakeAgent>;

fn eff<'a>(log: &'a Log, s: String) -> H<'a> {
    SideEffect::from(move || push(log, s)).boxed_local()
}

impl OnLinked<FakeAgent> for Lc {
    type OnLinkedHandler<'a> = H<'a> where Self: 'a;
    fn on_linked(&self) -> H<'_> {
        eff(&self.log, "on_linked".into())
    }
}
impl OnUnlinked<FakeAgent> for Lc {
    type OnUnlinkedHandler<'a> = H<'a> where Self: 'a;
    fn on_unlinked(&self) -> H<'_> {
        eff(&self.log, "on_unlinked".into())
    }
}
impl OnFailed<FakeAgent> for Lc {
    type OnFailedHandler<'a> = H<'a> where Self: 'a;
    fn on_failed(&self) -> H<'_> {
        eff(&self.log, "on_failed".into())
    }
}
impl OnSynced<HashMap<i32, V>, FakeAgent> for Lc {
    type OnSyncedHandler<'a> = H<'a> where Self: 'a;
    fn on_synced<'a>(&'a self, value: &HashMap<i32, V>) -> H<'a> {
        eff(&self.log, format!("on_synced {}", show_map(value)))
    }
}
impl OnDownlinkUpdate<i32, V, HashMap<i32, V>, FakeAgent> for Lc {
    type OnUpdateHandler<'a> = H<'a> where Self: 'a;
    fn on_update<'a>(&'a self, key: i32, map: &HashMap<i32, V>, previous: Option<V>, new_value: &V) -> H<'a> {
        eff(&self.log, fmt_update(key, map, previous.as_ref(), new_value))
    }
}
impl OnDownlinkRemove<i32, V, HashMap<i32, V>, FakeAgent> for Lc {
    type OnRemoveHandler<'a> = H<'a> where Self: 'a;
    fn on_remove<'a>(&'a self, key: i32, map: &HashMap<i32, V>, removed: V) -> H<'a> {
        eff(&self.log, fmt_remove(key, map, &removed))
    }
}
impl OnDownlinkClear<HashMap<i32, V>, FakeAgent> for Lc {
    type OnClearHandler<'a> = H<'a> where Self: 'a;
    fn on_clear(&self, map: HashMap<i32, V>) -> H<'_> {
        eff(&self.log, format!("on_clear {}", show_map(&map)))
    }
}
impl OnSynced<V, FakeAgent> for Lc {
    type OnSyncedHandler<'a> = H<'a> where Self: 'a;
    fn on_synced<'a>(&'a self, value: &V) -> H<'a> {
        eff(&self.log, format!("on_synced {}", show_val(value)))
    }
}
impl OnDownlinkEvent<V, FakeAgent> for Lc {
    type OnEventHandler<'a> = H<'a> where Self: 'a;
    fn on_event(&self, value: &V) -> H<'_> {
        eff(&self.log, format!("on_event {}", show_val(value)))
    }
}
impl OnDownlinkSet<V, FakeAgent> for Lc {
    type OnSetHandler<'a> = H<'a> where Self: 'a;
    fn on_set<'a>(&'a self, previous: Option<V>, new_value: &V) -> H<'a> {
        eff(&self.log, format!("on_set {} {}", show_opt(previous.as_ref()), show_val(new_value)))
    }
}
// event downlinks
impl OnSynced<(), FakeAgent> for Lc {
    type OnSyncedHandler<'a> = H<'a> where Self: 'a;
    fn on_synced<'a>(&'a self, _value: &()) -> H<'a> {
        eff(&self.log, "on_synced".into())
    }
}
impl OnConsumeEvent<V, FakeAgent> for Lc {
    type OnEventHandler<'a> = H<'a> where Self: 'a;
    fn on_event(&self, value: V) -> H<'_> {
        eff(&self.log, format!("on_event {}", show_val(&value)))
    }
}

fn fmt_update(key: i32, map: &HashMap<i32, V>, previous: Option<&V>, new_value: &V) -> String {
    format!("on_update {} {} {} {}", key, show_opt(previous), show_val(new_value), show_map(map))
}

fn fmt_remove(key: i32, map: &HashMap<i32, V>, removed: &V) -> String {
    format!("on_remove {} {} {}", key, show_val(removed), show_map(map))
}

struct NoSpawn;
impl Spawner<FakeAgent> for NoSpawn {
    fn spawn_suspend(&self, _fut: HandlerFuture<FakeAgent>) {
        panic!("unexpected suspend");
    }
    fn schedule_timer(&self, _at: tokio::time::Instant, _id: u64) {
        panic!("unexpected timer");
    }
}
impl LaneSpawner<FakeAgent> for NoSpawn {
    fn spawn_warp_lane(
        &self,
        _name: &str,
        _kind: WarpLaneKind,
        _on_done: LaneSpawnOnDone<FakeAgent>,
    ) -> Result<(), DynamicRegistrationError> {
        panic!("unexpected lane");
    }
}

#[derive(Default)]
struct Capture(RefCell<Option<BoxDownlinkChannelFactory<FakeAgent>>>);
impl LinkSpawner<FakeAgent> for Capture {
    fn spawn_downlink(
        &self,
        _path: Address<Text>,
        make_channel: BoxDownlinkChannelFactory<FakeAgent>,
        _on_done: DownlinkSpawnOnDone<FakeAgent>,
    ) {
        *self.0.borrow_mut() = Some(make_channel);
    }
    fn register_commander(&self, _path: Address<Text>) -> Result<u16, CommanderRegistrationError> {
        panic!("unexpected commander");
    }
}

const AGENT_CONFIG: AgentConfig = AgentConfig::DEFAULT;

/// Runs a handler action to completion in a context whose link spawner captures channel factories.
fn run_action<Hd: HandlerAction<FakeAgent>>(mut h: Hd, links: &dyn LinkSpawner<FakeAgent>) -> Option<Hd::Completion> {
    let uri = RouteUri::try_from("/node").expect("uri");
    let params = HashMap::new();
    let meta = AgentMetadata::new(&uri, &params, &AGENT_CONFIG);
    let no_spawn = NoSpawn;
    let mut join_init = HashMap::new();
    let mut cmd = BytesMut::new();
    let mut ctx = ActionContext::new(&no_spawn, links, &no_spawn, &mut join_init, &mut cmd);
    let agent = FakeAgent;
    loop {
        match h.step(&mut ctx, meta, &agent) {
            StepResult::Continue { .. } => {}
            StepResult::Fail(_) => return None,
            StepResult::Complete { result, .. } => return Some(result),
        }
    }
}

enum HostedWrites {
    Map(MapDownlinkHandle<i32, V>),
    Val(ValueDownlinkHandle<V>),
    Evt(EventDownlinkHandle),
}

#[derive(Clone, Copy, PartialEq, Eq)]
enum Kind {
    Map,
    Value,
    Event,
}

// ---- the public builders (`HandlerContext::{map,value,event}_downlink_builder`)
//
// path 0: `Open*DownlinkAction::new` with our own lifecycle type (below the builders)
//      1: stateless builder, every setter, declaration order
//      2: stateless builder, every setter, reverse order
//      3: `with_state` / `with_shared_state` first, then every stateful setter
//      4: the same, setters in reverse order
//      5: every stateless setter, then `with_state(())` (the handlers set before must survive the conversion)
//      6: mixed: some setters before the conversion, the others (stateful) after it
const PATHS: u64 = 7;

type HS = LocalBoxEventHandler<'static, FakeAgent>;
type Ctx = HandlerContext<FakeAgent>;
type M = HashMap<i32, V>;

fn eff_s(log: &Log, s: String) -> HS {
    let log = log.clone();
    SideEffect::from(move || push(&log, s)).boxed_local()
}

// stateless handlers (closures owning a clone of the log)
fn l0(log: &Log, name: &'static str) -> impl Fn(Ctx) -> HS + Send + 'static {
    let log = log.clone();
    move |_| eff_s(&log, name.into())
}
fn l_msynced(log: &Log) -> impl Fn(Ctx, &M) -> HS + Send + 'static {
    let log = log.clone();
    move |_, m| eff_s(&log, format!("on_synced {}", show_map(m)))
}
fn l_update(log: &Log) -> impl Fn(Ctx, i32, &M, Option<V>, &V) -> HS + Send + 'static {
    let log = log.clone();
    move |_, k, m, old, new| eff_s(&log, fmt_update(k, m, old.as_ref(), new))
}
fn l_remove(log: &Log) -> impl Fn(Ctx, i32, &M, V) -> HS + Send + 'static {
    let log = log.clone();
    move |_, k, m, old| eff_s(&log, fmt_remove(k, m, &old))
}
fn l_clear(log: &Log) -> impl Fn(Ctx, M) -> HS + Send + 'static {
    let log = log.clone();
    move |_, m| eff_s(&log, format!("on_clear {}", show_map(&m)))
}
fn l_vsynced(log: &Log) -> impl Fn(Ctx, &V) -> HS + Send + 'static {
    let log = log.clone();
    move |_, v| eff_s(&log, format!("on_synced {}", show_val(v)))
}
fn l_event(log: &Log) -> impl Fn(Ctx, &V) -> HS + Send + 'static {
    let log = log.clone();
    move |_, v| eff_s(&log, format!("on_event {}", show_val(v)))
}
fn l_set(log: &Log) -> impl Fn(Ctx, Option<V>, &V) -> HS + Send + 'static {
    let log = log.clone();
    move |_, old, v| eff_s(&log, format!("on_set {} {}", show_opt(old.as_ref()), show_val(v)))
}
fn l_esynced(log: &Log) -> impl Fn(Ctx, &()) -> HS + Send + 'static {
    let log = log.clone();
    move |_, _| eff_s(&log, "on_synced".into())
}
fn l_eevent(log: &Log) -> impl Fn(Ctx, V) -> HS + Send + 'static {
    let log = log.clone();
    move |_, v| eff_s(&log, format!("on_event {}", show_val(&v)))
}

// stateful handlers (the shared state is the log)
fn s_linked<'a>(log: &'a Log, _: Ctx) -> H<'a> {
    eff(log, "on_linked".into())
}
fn s_unlinked<'a>(log: &'a Log, _: Ctx) -> H<'a> {
    eff(log, "on_unlinked".into())
}
fn s_failed<'a>(log: &'a Log, _: Ctx) -> H<'a> {
    eff(log, "on_failed".into())
}
fn s_msynced<'a>(log: &'a Log, _: Ctx, m: &M) -> H<'a> {
    eff(log, format!("on_synced {}", show_map(m)))
}
fn s_update<'a>(log: &'a Log, _: Ctx, m: &M, k: i32, old: Option<V>, new: &V) -> H<'a> {
    eff(log, fmt_update(k, m, old.as_ref(), new))
}
fn s_remove<'a>(log: &'a Log, _: Ctx, m: &M, k: i32, old: V) -> H<'a> {
    eff(log, fmt_remove(k, m, &old))
}
fn s_clear<'a>(log: &'a Log, _: Ctx, m: M) -> H<'a> {
    eff(log, format!("on_clear {}", show_map(&m)))
}
fn s_vsynced<'a>(log: &'a Log, _: Ctx, v: &V) -> H<'a> {
    eff(log, format!("on_synced {}", show_val(v)))
}
fn s_event<'a>(log: &'a Log, _: Ctx, v: &V) -> H<'a> {
    eff(log, format!("on_event {}", show_val(v)))
}
fn s_set<'a>(log: &'a Log, _: Ctx, v: &V, old: Option<V>) -> H<'a> {
    eff(log, format!("on_set {} {}", show_opt(old.as_ref()), show_val(v)))
}
fn s_esynced<'a>(log: &'a Log, _: Ctx, _: &()) -> H<'a> {
    eff(log, "on_synced".into())
}
fn s_eevent<'a>(log: &'a Log, _: Ctx, v: V) -> H<'a> {
    eff(log, format!("on_event {}", show_val(&v)))
}

fn open_map(path: u64, ews: bool, tou: bool, log: &Log, cap: &Capture) -> Option<MapDownlinkHandle<i32, V>> {
    let config = MapDownlinkConfig { events_when_not_synced: ews, terminate_on_unlinked: tou };
    let ctx: Ctx = Default::default();
    let b = || ctx.map_downlink_builder::<i32, V>(None, "/node", "lane", config);
    match path {
        0 => {
            let addr: Address<Text> = Address::new(None, Text::new("/node"), Text::new("lane"));
            run_action(OpenMapDownlinkAction::<i32, V, M, Lc>::new(addr, Lc { log: log.clone() }, config), cap)
        }
        1 => run_action(
            b().on_linked(l0(log, "on_linked"))
                .on_synced(l_msynced(log))
                .on_unlinked(l0(log, "on_unlinked"))
                .on_failed(l0(log, "on_failed"))
                .on_update(l_update(log))
                .on_remove(l_remove(log))
                .on_clear(l_clear(log))
                .done(),
            cap,
        ),
        2 => run_action(
            b().on_clear(l_clear(log))
                .on_remove(l_remove(log))
                .on_update(l_update(log))
                .on_failed(l0(log, "on_failed"))
                .on_unlinked(l0(log, "on_unlinked"))
                .on_synced(l_msynced(log))
                .on_linked(l0(log, "on_linked"))
                .done(),
            cap,
        ),
        3 => run_action(
            b().with_state(log.clone())
                .on_linked(s_linked)
                .on_synced(s_msynced)
                .on_unlinked(s_unlinked)
                .on_failed(s_failed)
                .on_update(s_update)
                .on_remove(s_remove)
                .on_clear(s_clear)
                .done(),
            cap,
        ),
        4 => run_action(
            b().with_state(log.clone())
                .on_clear(s_clear)
                .on_remove(s_remove)
                .on_update(s_update)
                .on_failed(s_failed)
                .on_unlinked(s_unlinked)
                .on_synced(s_msynced)
                .on_linked(s_linked)
                .done(),
            cap,
        ),
        5 => run_action(
            b().on_linked(l0(log, "on_linked"))
                .on_synced(l_msynced(log))
                .on_unlinked(l0(log, "on_unlinked"))
                .on_failed(l0(log, "on_failed"))
                .on_update(l_update(log))
                .on_remove(l_remove(log))
                .on_clear(l_clear(log))
                .with_state(())
                .done(),
            cap,
        ),
        6 => run_action(
            b().on_update(l_update(log))
                .on_linked(l0(log, "on_linked"))
                .on_clear(l_clear(log))
                .with_state(log.clone())
                .on_remove(s_remove)
                .on_synced(s_msynced)
                .on_failed(s_failed)
                .on_unlinked(s_unlinked)
                .done(),
            cap,
        ),
        _ => None,
    }
}

fn open_value(path: u64, ews: bool, tou: bool, log: &Log, cap: &Capture) -> Option<ValueDownlinkHandle<V>> {
    let config = SimpleDownlinkConfig { events_when_not_synced: ews, terminate_on_unlinked: tou };
    let ctx: Ctx = Default::default();
    let b = || ctx.value_downlink_builder::<V>(None, "/node", "lane", config);
    match path {
        0 => {
            let addr: Address<Text> = Address::new(None, Text::new("/node"), Text::new("lane"));
            run_action(OpenValueDownlinkAction::<V, Lc>::new(addr, Lc { log: log.clone() }, config), cap)
        }
        1 => run_action(
            b().on_linked(l0(log, "on_linked"))
                .on_synced(l_vsynced(log))
                .on_unlinked(l0(log, "on_unlinked"))
                .on_failed(l0(log, "on_failed"))
                .on_event(l_event(log))
                .on_set(l_set(log))
                .done(),
            cap,
        ),
        2 => run_action(
            b().on_set(l_set(log))
                .on_event(l_event(log))
                .on_failed(l0(log, "on_failed"))
                .on_unlinked(l0(log, "on_unlinked"))
                .on_synced(l_vsynced(log))
                .on_linked(l0(log, "on_linked"))
                .done(),
            cap,
        ),
        3 => run_action(
            b().with_shared_state(log.clone())
                .on_linked(s_linked)
                .on_synced(s_vsynced)
                .on_unlinked(s_unlinked)
                .on_failed(s_failed)
                .on_event(s_event)
                .on_set(s_set)
                .done(),
            cap,
        ),
        4 => run_action(
            b().with_shared_state(log.clone())
                .on_set(s_set)
                .on_event(s_event)
                .on_failed(s_failed)
                .on_unlinked(s_unlinked)
                .on_synced(s_vsynced)
                .on_linked(s_linked)
                .done(),
            cap,
        ),
        5 => run_action(
            b().on_linked(l0(log, "on_linked"))
                .on_synced(l_vsynced(log))
                .on_unlinked(l0(log, "on_unlinked"))
                .on_failed(l0(log, "on_failed"))
                .on_event(l_event(log))
                .on_set(l_set(log))
                .with_shared_state(())
                .done(),
            cap,
        ),
        6 => run_action(
            b().on_event(l_event(log))
                .on_linked(l0(log, "on_linked"))
                .on_failed(l0(log, "on_failed"))
                .with_shared_state(log.clone())
                .on_set(s_set)
                .on_synced(s_vsynced)
                .on_unlinked(s_unlinked)
                .done(),
            cap,
        ),
        _ => None,
    }
}

fn open_event(path: u64, ews: bool, tou: bool, log: &Log, cap: &Capture) -> Option<EventDownlinkHandle> {
    let config = SimpleDownlinkConfig { events_when_not_synced: ews, terminate_on_unlinked: tou };
    let ctx: Ctx = Default::default();
    let b = || ctx.event_downlink_builder::<V>(None, "/node", "lane", config);
    match path {
        0 => {
            let addr: Address<Text> = Address::new(None, Text::new("/node"), Text::new("lane"));
            run_action(OpenEventDownlinkAction::<V, Lc>::new(addr, Lc { log: log.clone() }, config, false), cap)
        }
        1 => run_action(
            b().on_linked(l0(log, "on_linked"))
                .on_synced(l_esynced(log))
                .on_unlinked(l0(log, "on_unlinked"))
                .on_failed(l0(log, "on_failed"))
                .on_event(l_eevent(log))
                .done(),
            cap,
        ),
        2 => run_action(
            b().on_event(l_eevent(log))
                .on_failed(l0(log, "on_failed"))
                .on_unlinked(l0(log, "on_unlinked"))
                .on_synced(l_esynced(log))
                .on_linked(l0(log, "on_linked"))
                .done(),
            cap,
        ),
        3 => run_action(
            b().with_shared_state(log.clone())
                .on_linked(s_linked)
                .on_synced(s_esynced)
                .on_unlinked(s_unlinked)
                .on_failed(s_failed)
                .on_event(s_eevent)
                .done(),
            cap,
        ),
        4 => run_action(
            b().with_shared_state(log.clone())
                .on_event(s_eevent)
                .on_failed(s_failed)
                .on_unlinked(s_unlinked)
                .on_synced(s_esynced)
                .on_linked(s_linked)
                .done(),
            cap,
        ),
        5 => run_action(
            b().on_linked(l0(log, "on_linked"))
                .on_synced(l_esynced(log))
                .on_unlinked(l0(log, "on_unlinked"))
                .on_failed(l0(log, "on_failed"))
                .on_event(l_eevent(log))
                .with_shared_state(())
                .done(),
            cap,
        ),
        6 => run_action(
            b().on_event(l_eevent(log))
                .on_linked(l0(log, "on_linked"))
                .with_shared_state(log.clone())
                .on_synced(s_esynced)
                .on_failed(s_failed)
                .on_unlinked(s_unlinked)
                .done(),
            cap,
        ),
        _ => None,
    }
}

type NoteWriter = FramedWrite<ByteWriter, DownlinkNotificationEncoder>;

struct Hosted {
    kind: Kind,
    big: bool,
    chan: BoxDownlinkChannel<FakeAgent>,
    input: Option<NoteWriter>,
    /// a notification being written (a large frame does not fit the channel: the write completes only while the channel
    /// is being polled)
    sending: Option<JoinHandle<NoteWriter>>,
    /// `None` once the handle has been dropped
    writes: Option<HostedWrites>,
    log: Log,
    ended: bool,
}

impl Hosted {
    fn new(kind: Kind, ews: bool, tou: bool, path: u64, big: bool) -> Option<Hosted> {
        let log: Log = Default::default();
        let cap = Capture::default();
        let writes = match kind {
            Kind::Map => HostedWrites::Map(open_map(path, ews, tou, &log, &cap)?),
            Kind::Value => HostedWrites::Val(open_value(path, ews, tou, &log, &cap)?),
            Kind::Event => HostedWrites::Evt(open_event(path, ews, tou, &log, &cap)?),
        };
        let fac = cap.0.borrow_mut().take().expect("factory captured");
        let size = if big { SMALL_CHANNEL } else { BUF };
        let (in_tx, in_rx) = byte_channel(size);
        let (out_tx, out_rx) = byte_channel(size);
        drain(out_rx);
        let chan = fac.create_box(&FakeAgent, out_tx, in_rx);
        Some(Hosted {
            kind,
            big,
            chan,
            input: Some(FramedWrite::new(in_tx, DownlinkNotificationEncoder)),
            sending: None,
            writes: Some(writes),
            log,
            ended: false,
        })
    }

    fn run_next_event(&mut self) {
        let agent = FakeAgent;
        if let Some(handler) = self.chan.next_event(&agent) {
            run_action(handler, &Capture::default());
        }
    }

    /// The agent's loop for one hosted downlink (`agent_model`: `HostedDownlinkEvent::*`), until idle.
    async fn pump(&mut self) -> String {
        let mut end: Option<&str> = None;
        loop {
            match tokio::time::timeout(Duration::from_millis(5), self.chan.await_ready()).await {
                Err(_) => break, // idle
                Ok(None) => {
                    self.ended = true;
                    end = Some("ok");
                    break;
                }
                Ok(Some(Ok(DownlinkChannelEvent::HandlerReady))) => self.run_next_event(),
                Ok(Some(Ok(_))) => {}
                Ok(Some(Err(DownlinkChannelError::ReadFailed))) => {
                    self.run_next_event();
                    self.ended = true;
                    end = Some("failed");
                    break;
                }
                Ok(Some(Err(DownlinkChannelError::WriteFailed(_)))) => {
                    self.ended = true;
                    end = Some("write-failed");
                    break;
                }
            }
        }
        if let Some(jh) = self.sending.take() {
            if self.ended {
                jh.abort();
            } else {
                // idle: the frame has been taken (or the channel will never take it)
                match tokio::time::timeout(Duration::from_millis(5), jh).await {
                    Ok(Ok(w)) => self.input = Some(w),
                    _ => self.input = None,
                }
            }
        }
        if self.ended {
            self.input = None;
        }
        render(take_log(&self.log), end)
    }

    async fn exec(&mut self, op: &str) -> String {
        let parsed = parse_op(op, self.kind == Kind::Map);
        match parsed {
            Parsed::Invalid | Parsed::CloseOut => return "bad-op".into(),
            Parsed::Write(_) if self.kind == Kind::Event => return "bad-op".into(),
            Parsed::Reconnect => {
                if !self.ended {
                    return "bad-op".into();
                }
                if !self.chan.can_restart() {
                    return "refused".into();
                }
                let size = if self.big { SMALL_CHANNEL } else { BUF };
                let (in_tx, in_rx) = byte_channel(size);
                let (out_tx, out_rx) = byte_channel(size);
                drain(out_rx);
                self.chan.connect(&FakeAgent, out_tx, in_rx);
                self.input = Some(FramedWrite::new(in_tx, DownlinkNotificationEncoder));
                self.ended = false;
                return "ok".into();
            }
            _ => {}
        }
        if self.ended {
            return "gone".into();
        }
        match parsed {
            Parsed::Note(n) => {
                if let Some(mut w) = self.input.take() {
                    let frame = encode_note(&n, self.big);
                    self.sending = Some(tokio::spawn(async move {
                        let _ = w.send(frame).await;
                        w
                    }));
                }
            }
            Parsed::Eof => self.input = None,
            Parsed::DropHandle => self.writes = None,
            Parsed::Stop => match self.writes.as_mut() {
                Some(HostedWrites::Map(h)) => h.stop(),
                Some(HostedWrites::Val(h)) => h.stop(),
                Some(HostedWrites::Evt(h)) => h.stop(),
                None => {} // no handle left to call it on
            },
            Parsed::Write(_) if self.writes.is_none() => {}
            Parsed::Write(w) => match (self.writes.as_mut().unwrap(), w) {
                (HostedWrites::Map(h), Write::Upd(k, v)) => {
                    let _ = h.update(k, wire(v, self.big));
                }
                (HostedWrites::Map(h), Write::Rem(k)) => {
                    let _ = h.remove(k);
                }
                (HostedWrites::Map(h), Write::Clr) => {
                    let _ = h.clear();
                }
                (HostedWrites::Val(h), Write::Set(v)) => {
                    let _ = h.set(wire(v, self.big));
                }
                _ => return "bad-op".into(),
            },
            _ => unreachable!(),
        }
        match std::panic::AssertUnwindSafe(self.pump()).catch_unwind().await {
            Ok(s) => s,
            Err(_) => {
                self.ended = true;
                "panic".into()
            }
        }
    }
}

// ------------------------------------------------------------------------------------------------ cases

enum Eng {
    C(Client),
    H(Hosted),
}

fn make(op: &str) -> Option<Eng> {
    let p: Vec<&str> = op.split_whitespace().collect();
    match p.as_slice() {
        ["new", imp, kind, ews, tou, opts @ ..] => {
            let kind = match *kind {
                "map" => Kind::Map,
                "value" => Kind::Value,
                "event" => Kind::Event,
                _ => return None,
            };
            let b = |s: &str| match s {
                "0" => Some(false),
                "1" => Some(true),
                _ => None,
            };
            let (ews, tou) = (b(ews)?, b(tou)?);
            let mut path = 0u64;
            let mut big = false;
            for o in opts {
                if *o == "big" {
                    big = true;
                } else if let Some(n) = o.strip_prefix("path=") {
                    path = n.parse().ok()?;
                } else {
                    return None;
                }
            }
            match *imp {
                "client" if kind != Kind::Event => Some(Eng::C(Client::new(kind == Kind::Map, ews, tou, big))),
                "hosted" => Hosted::new(kind, ews, tou, path, big).map(Eng::H),
                _ => None,
            }
        }
        _ => None,
    }
}

async fn run_case(t: &mut Trace, ops: &[String]) {
    let mut eng: Option<Eng> = None;
    for op in ops {
        if op.starts_with("new ") {
            if let Some(Eng::C(c)) = eng.take() {
                if let Some(task) = c.task {
                    task.abort();
                }
            }
            eng = make(op);
            t.op(op, if eng.is_some() { "ok" } else { "bad-op" });
            continue;
        }
        let out = match eng.as_mut() {
            Some(Eng::C(c)) => c.exec(op).await,
            Some(Eng::H(h)) => h.exec(op).await,
            None => "bad-op".to_string(),
        };
        t.op(op, out);
    }
    if let Some(Eng::C(c)) = eng.take() {
        if let Some(task) = c.task {
            task.abort();
        }
    }
}

// ------------------------------------------------------------------------------------------------ generator

fn key(rng: &mut Rng) -> i64 {
    if rng.chance(1, 12) {
        -(rng.range(1, 3) as i64)
    } else {
        rng.range(0, 4) as i64
    }
}

fn value(rng: &mut Rng) -> i64 {
    if rng.chance(1, 10) {
        -(rng.range(1, 50) as i64)
    } else {
        rng.range(0, 99) as i64
    }
}

fn event(rng: &mut Rng, is_map: bool, takedrop: bool) -> String {
    if !is_map {
        return format!("set {}", value(rng));
    }
    let r = rng.below(100);
    if r < 55 {
        format!("upd {} {}", key(rng), value(rng))
    } else if r < 78 {
        format!("rem {}", key(rng))
    } else if r < 88 || !takedrop {
        "clr".into()
    } else if r < 94 {
        format!("take {}", rng.range(0, 4))
    } else {
        format!("drop {}", rng.range(0, 4))
    }
}

fn local_write(rng: &mut Rng, is_map: bool) -> String {
    if !is_map {
        return format!("wset {}", value(rng));
    }
    let r = rng.below(100);
    if r < 60 {
        format!("wupd {} {}", key(rng), value(rng))
    } else if r < 85 {
        format!("wrem {}", key(rng))
    } else {
        "wclr".into()
    }
}

/// One case: a legal conversation `linked ev* synced ev* unlinked (relink ...)`, optionally decorated with local
/// writes, channel failures / reconnects, and (for a minority) mutated into an illegal sequence.
fn gen_case(rng: &mut Rng, imp: &str) -> Vec<String> {
    let is_map = rng.chance(7, 10);
    let ews = rng.chance(1, 2);
    let tou = rng.chance(1, 3);
    let takedrop = rng.chance(1, 3);
    let writes = rng.chance(1, 4);
    let mut ops: Vec<String> = vec![];
    let sessions = rng.range(1, 3);
    for _ in 0..sessions {
        ops.push("linked".into());
        let pre = if is_map { rng.range(0, 5) } else { rng.range(1, 3) };
        for _ in 0..pre {
            ops.push(event(rng, is_map, takedrop));
        }
        if rng.chance(9, 10) {
            ops.push("synced".into());
            for _ in 0..rng.range(0, 6) {
                ops.push(event(rng, is_map, takedrop));
            }
        }
        let r = rng.below(100);
        if r < 80 {
            ops.push("unlinked".into());
            if tou && rng.chance(4, 5) {
                // the task has terminated: a few more ops only to see `gone`
                for _ in 0..rng.below(3) {
                    ops.push(if rng.chance(1, 2) { "linked".into() } else { event(rng, is_map, takedrop) });
                }
                break;
            }
        } else if r < 88 {
            ops.push("eof".into());
            ops.push("reconnect".into());
        } else if r < 92 {
            ops.push("bad".into());
            ops.push("reconnect".into());
        } else {
            break;
        }
    }
    if writes {
        for _ in 0..rng.range(1, 4) {
            let at = rng.below(ops.len() as u64 + 1) as usize;
            ops.insert(at, local_write(rng, is_map));
        }
    }
    if rng.chance(3, 20) {
        // illegal: insert / delete / duplicate
        for _ in 0..rng.range(1, 2) {
            let r = rng.below(3);
            let at = rng.below(ops.len() as u64) as usize;
            if r == 0 {
                let extra = match rng.below(5) {
                    0 => "linked".to_string(),
                    1 => "synced".to_string(),
                    2 => "unlinked".to_string(),
                    3 => "reconnect".to_string(),
                    _ => event(rng, is_map, true),
                };
                ops.insert(at, extra);
            } else if r == 1 && ops.len() > 1 {
                ops.remove(at);
            } else {
                let d = ops[at].clone();
                ops.insert(at, d);
            }
        }
    }
    // the handle side: the write handle dropped at any point of the script (before `linked`, between any two ops, at
    // the end); for the client task everything after it runs in the `Mode::Read` loop
    if rng.chance(3, 10) {
        let at = rng.below(ops.len() as u64 + 1) as usize;
        ops.insert(at, "drop-handle".into());
    }
    // client: the output channel closed, then local writes (the value task switches to `Mode::Read` when a write fails)
    if rng.chance(1, 12) {
        let at = rng.below(ops.len() as u64 + 1) as usize;
        ops.insert(at, "close-out".into());
        for _ in 0..rng.range(2, 3) {
            let p = at + 1 + rng.below((ops.len() - at) as u64) as usize;
            ops.insert(p, local_write(rng, is_map));
        }
    }
    // hosted: `handle.stop()`
    if rng.chance(1, 15) {
        let at = rng.below(ops.len() as u64 + 1) as usize;
        ops.insert(at, "stop".into());
    }
    // construction path of a hosted downlink (0 = below the builders, 1..6 = through the public builders), an event
    // downlink instead of a value downlink (hosted only), large values over small channels: the same draws for both
    // implementations, so that the same seed still gives the same script to both
    let path = rng.below(PATHS);
    let event = !is_map && rng.chance(1, 4);
    let big = rng.chance(1, 40);
    if imp == "client" {
        ops.retain(|o| o != "reconnect" && o != "stop");
    } else {
        ops.retain(|o| o != "close-out");
    }
    let mut all = vec![format!(
        "new {} {} {} {}{}{}",
        imp,
        if is_map {
            "map"
        } else if event && imp == "hosted" {
            "event"
        } else {
            "value"
        },
        ews as u8,
        tou as u8,
        if imp == "hosted" { format!(" path={}", path) } else { String::new() },
        if big { " big" } else { "" }
    )];
    if event && imp == "hosted" {
        ops.retain(|o| !o.starts_with("wset"));
    }
    all.extend(ops);
    all
}

/// All sequences of length `depth` over `alphabet`, for the four settings.
async fn enumerate(t: &mut Trace, imp: &str, kind: &str, alphabet: &[&str], depth: usize, count: &mut u64) {
    let k = alphabet.len();
    for cfg in 0..4u8 {
        let mut idx = vec![0usize; depth];
        'outer: loop {
            // hosted: the construction paths in rotation
            let path = if imp == "hosted" { format!(" path={}", *count % PATHS) } else { String::new() };
            let mut ops = vec![format!("new {} {} {} {}{}", imp, kind, cfg & 1, (cfg >> 1) & 1, path)];
            ops.extend(idx.iter().map(|&j| alphabet[j].to_string()));
            t.case(format!("exh {} #{}", imp, count));
            run_case(t, &ops).await;
            *count += 1;
            let mut p = depth;
            loop {
                if p == 0 {
                    break 'outer;
                }
                p -= 1;
                idx[p] += 1;
                if idx[p] < k {
                    break;
                }
                idx[p] = 0;
            }
        }
    }
}

/// All sequences up to `depth` over a small alphabet, for the four settings: map downlinks (notifications only), then
/// value downlinks and map downlinks with the handle side (`drop-handle`, a local write; one op shorter for maps).
async fn exhaustive(t: &mut Trace, imp: &str, depth: usize) {
    let mut count = 0u64;
    let map = ["linked", "synced", "unlinked", "upd 1 10", "upd 2 20", "rem 1", "clr", "take 1", "drop 1"];
    enumerate(t, imp, "map", &map, depth, &mut count).await;
    let value = ["linked", "synced", "unlinked", "set 1", "set 2", "drop-handle", "wset 3"];
    enumerate(t, imp, "value", &value, depth, &mut count).await;
    let map_io = ["linked", "synced", "unlinked", "upd 1 10", "rem 1", "clr", "drop-handle", "wupd 2 20"];
    enumerate(t, imp, "map", &map_io, depth - 1, &mut count).await;
    if imp == "hosted" {
        let event = ["linked", "synced", "unlinked", "set 1", "drop-handle", "stop"];
        enumerate(t, imp, "event", &event, depth - 1, &mut count).await;
    }
}

fn main() {
    std::panic::set_hook(Box::new(|_| {}));
    let rt = tokio::runtime::Builder::new_current_thread()
        .enable_time()
        .start_paused(true)
        .build()
        .expect("runtime");
    match parse_args() {
        Mode::Gen { seed, cases, out } => {
            let mut t = Trace::create(&out);
            let extra: Vec<String> = std::env::args().skip(5).collect();
            let imp = extra.first().cloned().unwrap_or_else(|| "client".to_string());
            if extra.get(1).map(|s| s.as_str()) == Some("exhaustive") {
                if seed % 1000 == 0 {
                    let depth: usize = extra[2].parse().unwrap();
                    rt.block_on(exhaustive(&mut t, &imp, depth));
                }
                t.finish();
                return;
            }
            // the same seed gives the same notification sequences to both implementations
            let mut rng = Rng::new(seed);
            rt.block_on(async {
                for c in 0..cases {
                    let ops = gen_case(&mut rng, &imp);
                    t.case(format!("{} seed={}", c, seed));
                    run_case(&mut t, &ops).await;
                }
            });
            t.finish();
        }
        Mode::Replay { ops, out } => {
            let mut t = Trace::create(&out);
            rt.block_on(async {
                for (i, case) in ops.iter().enumerate() {
                    t.case(i);
                    run_case(&mut t, case).await;
                }
            });
            t.finish();
        }
    }
}
