//! C14 (command lanes and supply lanes, agent half): the REAL agent task — `AgentModel` over an agent with a
//! `CommandLane<i32>` and a `SupplyLane<i32>` and a logging lifecycle — run through the public `Agent::run` with the
//! harness as the runtime (`AgentContext`): the harness writes raw `LaneRequest` frames into the lanes' input
//! channels and reads `LaneResponse` frames from their output channels when the script says so. This exercises
//! `decode_and_command` / `DoCommand` / `CommandBranch::item_event` / `run_handler`, `Supply`, `SupplyLaneSync`,
//! `write_to_buffer` of both lanes and the `dirty_items` / `item_writers` / `pending_writes` loop of the agent task.
//!
//! `new <stall>`: stall = 1 makes the lanes' output channels smaller than any frame, so a write completes exactly when
//! the harness reads the frame (the writer is away in between: queues build up); 0 = channels never fill.
//! ops: cmd <c|s> <body> | sync <c|s> <r> | read <c|s>       out: h=<handler log since the last op> f=<frame read|->
//!      readcmd <n>   read up to n records from the AD HOC COMMAND channel (capacity `new <stall> <cap>`; the agent's
//!                    `command_buffer` / `CommandWriter` / `CommandSendComplete` path) with the real
//!                    `CommandMessageDecoder`; out: h=- f=- a=<target>:<value>:<overwrite>,…
//!
//! Lifecycle: `on_command(v)` logs `cmd:v`; if `v % 7 == 5` it commands its own lane with `v + 1`; then it supplies
//! `v % 4` items `10v+1 …` (logging `sup:x` before each); then it sends `(v / 4) % 5` ad hoc commands (60 when
//! `v % 11 == 0`) with `SendCommand::new`: the i-th goes to node `/t<(v+i)%3>` lane `in`, value `1000v+i`,
//! `overwrite_permitted = (v+i) % 2 == 0`; then it sends `(v / 3) % 4` commands (40 when `v % 13 == 0`) through
//! `Commander`s: the i-th goes to `/t<(v+2i)%4>` lane `in`, value `1000v+500+i`, `send` (overwritable) when
//! `(v+i) % 3 == 0` else `send_queued`. The lifecycle keeps one commander per target, created with
//! `HandlerContext::create_commander` on first use — and created AGAIN when the value is a multiple of 5.
//! `readcmd` records: `<t>:<v>:<ow>` (Addressed) | `R<t>=<id>` (Register) | `#<id>:<v>:<ow>` (Registered).
use std::collections::HashMap;
use std::num::NonZeroUsize;
use std::sync::{Arc, Mutex};
use std::time::Duration;

use bytes::BytesMut;
use futures::future::{ready, BoxFuture};
use futures::{FutureExt, SinkExt, StreamExt};
use svh::{parse_args, Mode, Rng, Trace};
use swimos::agent::agent_model::AgentModel;
use swimos_agent_protocol::encoding::command::CommandMessageDecoder;
use swimos_agent_protocol::encoding::lane::{RawValueLaneRequestEncoder, RawValueLaneResponseDecoder};
use swimos_agent_protocol::{CommandMessage, LaneRequest, LaneResponse};
use swimos_api::agent::{
    Agent, AgentConfig, AgentContext, DownlinkKind, HttpLaneRequestChannel, LaneConfig, StoreKind, WarpLaneKind,
};
use swimos_api::error::{AgentRuntimeError, DownlinkRuntimeError, OpenStoreError};
use swimos_utilities::byte_channel::{byte_channel, ByteReader, ByteWriter};
use tokio_util::codec::{FramedRead, FramedWrite};
use uuid::Uuid;

#[path = "../c14_agent.rs"]
mod c14_agent;
use c14_agent::{Log, TestAgent, TestLifecycle};

type Io = (ByteWriter, ByteReader);

/// The harness as the runtime: hands out byte channels for the two lanes.
struct RigContext {
    cap: usize,
    cmd_cap: usize,
    lanes: Arc<Mutex<HashMap<String, Io>>>,
    cmd_rx: Arc<Mutex<Vec<ByteReader>>>,
}

impl AgentContext for RigContext {
    fn command_channel(&self) -> BoxFuture<'static, Result<ByteWriter, DownlinkRuntimeError>> {
        let (tx, rx) = byte_channel(NonZeroUsize::new(self.cmd_cap.max(1)).unwrap());
        self.cmd_rx.lock().unwrap().push(rx);
        ready(Ok(tx)).boxed()
    }

    fn add_lane(
        &self,
        name: &str,
        _lane_kind: WarpLaneKind,
        _config: LaneConfig,
    ) -> BoxFuture<'static, Result<Io, AgentRuntimeError>> {
        let (tx_in, rx_in) = byte_channel(NonZeroUsize::new(1 << 16).unwrap());
        let (tx_out, rx_out) = byte_channel(NonZeroUsize::new(self.cap).unwrap());
        self.lanes.lock().unwrap().insert(name.to_string(), (tx_in, rx_out));
        ready(Ok((tx_out, rx_in))).boxed()
    }

    fn add_http_lane(&self, _name: &str) -> BoxFuture<'static, Result<HttpLaneRequestChannel, AgentRuntimeError>> {
        ready(Err(AgentRuntimeError::Terminated)).boxed()
    }

    fn open_downlink(
        &self,
        _host: Option<&str>,
        _node: &str,
        _lane: &str,
        _kind: DownlinkKind,
    ) -> BoxFuture<'static, Result<Io, DownlinkRuntimeError>> {
        ready(Err(DownlinkRuntimeError::RuntimeError(AgentRuntimeError::Terminated))).boxed()
    }

    fn add_store(&self, _name: &str, _kind: StoreKind) -> BoxFuture<'static, Result<Io, OpenStoreError>> {
        ready(Err(OpenStoreError::StoresNotSupported)).boxed()
    }
}

struct LaneEnd {
    tx: FramedWrite<ByteWriter, RawValueLaneRequestEncoder>,
    rx: FramedRead<ByteReader, RawValueLaneResponseDecoder>,
}

struct Rig {
    c: LaneEnd,
    s: LaneEnd,
    ad: FramedRead<ByteReader, CommandMessageDecoder<String, i32>>,
    log: Log,
}

impl Rig {
    async fn settle(&self) {
        tokio::time::sleep(Duration::from_millis(40)).await;
    }

    fn lane(&mut self, l: &str) -> Option<&mut LaneEnd> {
        match l {
            "c" => Some(&mut self.c),
            "s" => Some(&mut self.s),
            _ => None,
        }
    }

    async fn exec(&mut self, op: &str) -> String {
        let p: Vec<&str> = op.split_whitespace().collect();
        let mut frame = "-".to_string();
        match p.as_slice() {
            ["cmd", l, body] => {
                let b = BytesMut::from(body.as_bytes());
                match self.lane(l) {
                    Some(end) => {
                        let req: LaneRequest<BytesMut> = LaneRequest::Command(b);
                        let _ = tokio::time::timeout(Duration::from_secs(5), end.tx.send(req)).await;
                    }
                    None => return "bad-op".into(),
                }
                self.settle().await;
            }
            ["sync", l, r] => {
                let id = Uuid::from_u128(r.parse::<u128>().unwrap_or(0));
                match self.lane(l) {
                    Some(end) => {
                        let req: LaneRequest<BytesMut> = LaneRequest::Sync(id);
                        let _ = tokio::time::timeout(Duration::from_secs(5), end.tx.send(req)).await;
                    }
                    None => return "bad-op".into(),
                }
                self.settle().await;
            }
            ["read", l] => {
                match self.lane(l) {
                    Some(end) => match tokio::time::timeout(Duration::from_millis(5), end.rx.next()).await {
                        Ok(Some(Ok(LaneResponse::StandardEvent(b)))) => {
                            frame = format!("ev:{}", String::from_utf8_lossy(b.as_ref()))
                        }
                        Ok(Some(Ok(LaneResponse::SyncEvent(id, b)))) => {
                            frame = format!("sync:{}:{}", id.as_u128(), String::from_utf8_lossy(b.as_ref()))
                        }
                        Ok(Some(Ok(LaneResponse::Synced(id)))) => frame = format!("synced:{}", id.as_u128()),
                        Ok(Some(Ok(LaneResponse::Initialized))) => frame = "initialized".into(),
                        Ok(Some(Err(_))) => frame = "decode-error".into(),
                        Ok(None) => frame = "closed".into(),
                        Err(_) => {}
                    },
                    None => return "bad-op".into(),
                }
                self.settle().await;
            }
            ["readcmd", n] => {
                let n: usize = n.parse().unwrap_or(0);
                let mut got = vec![];
                for _ in 0..n {
                    match tokio::time::timeout(Duration::from_millis(5), self.ad.next()).await {
                        Ok(Some(Ok(CommandMessage::Addressed { target, command, overwrite_permitted }))) => {
                            let t = target.node.trim_start_matches("/t").to_string();
                            let ok = target.host.is_none() && target.lane == "in";
                            got.push(format!(
                                "{}{}:{}:{}",
                                if ok { "" } else { "?" },
                                t,
                                command,
                                overwrite_permitted as u8
                            ));
                        }
                        Ok(Some(Ok(CommandMessage::Register { address, id }))) => {
                            let t = address.node.trim_start_matches("/t").to_string();
                            let ok = address.host.is_none() && address.lane == "in";
                            got.push(format!("R{}{}={}", if ok { "" } else { "?" }, t, id));
                        }
                        Ok(Some(Ok(CommandMessage::Registered { target, command, overwrite_permitted }))) => {
                            got.push(format!("#{}:{}:{}", target, command, overwrite_permitted as u8));
                        }
                        Ok(Some(Err(_))) => {
                            got.push("decode-error".into());
                            break;
                        }
                        Ok(None) => {
                            got.push("closed".into());
                            break;
                        }
                        Err(_) => break,
                    }
                }
                self.settle().await;
                let hist: Vec<String> = std::mem::take(&mut *self.log.lock().unwrap());
                return format!(
                    "h={} f=- a={}",
                    if hist.is_empty() { "-".to_string() } else { hist.join(",") },
                    if got.is_empty() { "-".to_string() } else { got.join(",") }
                );
            }
            _ => return "bad-op".into(),
        }
        let hist: Vec<String> = std::mem::take(&mut *self.log.lock().unwrap());
        format!("h={} f={}", if hist.is_empty() { "-".to_string() } else { hist.join(",") }, frame)
    }
}

async fn run_case_async(ops: Vec<String>) -> Vec<(String, String)> {
    let mut results = vec![];
    let first: Vec<&str> = ops.first().map(|s| s.split_whitespace().collect()).unwrap_or_default();
    let (stall, cmd_cap) = match first.as_slice() {
        ["new", s] => (*s == "1", 1usize << 16),
        ["new", s, c] => (*s == "1", c.parse::<usize>().unwrap_or(1 << 16)),
        _ => return ops.iter().map(|o| (o.clone(), "bad-op".to_string())).collect(),
    };
    results.push((ops[0].clone(), "ok".to_string()));
    let log: Log = Arc::new(Mutex::new(vec![]));
    let lc = TestLifecycle { log: log.clone(), commanders: Default::default() };
    let agent = AgentModel::new(TestAgent::default, lc.into_lifecycle());
    let lanes = Arc::new(Mutex::new(HashMap::new()));
    let cmd_rx = Arc::new(Mutex::new(vec![]));
    let context =
        RigContext { cap: if stall { 4 } else { 1 << 16 }, cmd_cap, lanes: lanes.clone(), cmd_rx: cmd_rx.clone() };
    let config = AgentConfig {
        default_lane_config: Some(LaneConfig {
            input_buffer_size: NonZeroUsize::new(4096).unwrap(),
            output_buffer_size: NonZeroUsize::new(4096).unwrap(),
            transient: true,
        }),
        ..AgentConfig::DEFAULT
    };
    let init = agent.run("/node".parse().unwrap(), HashMap::new(), config, Box::new(context));
    let task = match init.await {
        Ok(t) => t,
        Err(e) => {
            results.push(("end".into(), format!("agent-init-failed {:?}", e).replace(' ', "_")));
            return results;
        }
    };
    let failed: Arc<Mutex<Option<String>>> = Arc::new(Mutex::new(None));
    let failed2 = failed.clone();
    let agent_fut = async move {
        let r = task.await;
        *failed2.lock().unwrap() = Some(match r {
            Err(e) => format!("{:?}", e).replace(' ', "_"),
            Ok(()) => "agent-returned-early".to_string(),
        });
        futures::future::pending::<()>().await;
    };
    let driver = async {
        let mut take = |n: &str| {
            let (tx, rx) = lanes.lock().unwrap().remove(n).expect("lane not registered");
            LaneEnd { tx: FramedWrite::new(tx, Default::default()), rx: FramedRead::new(rx, Default::default()) }
        };
        let c = take("cmd");
        let s = take("sup");
        // the agent task asks for the ad hoc command channel when it starts running
        tokio::time::sleep(Duration::from_millis(40)).await;
        let ad_rx = cmd_rx.lock().unwrap().pop().expect("no ad hoc command channel requested");
        let mut rig = Rig { c, s, ad: FramedRead::new(ad_rx, Default::default()), log };
        rig.settle().await;
        let mut out = vec![];
        for op in ops.iter().skip(1) {
            let o = rig.exec(op).await;
            out.push((op.clone(), o));
        }
        out
    };
    tokio::select! {
        biased;
        out = driver => results.extend(out),
        _ = agent_fut => {},
    }
    if let Some(why) = failed.lock().unwrap().clone() {
        results.push(("end".to_string(), format!("agent-failed {}", why)));
    }
    drop(cmd_rx);
    results
}

fn run_case(t: &mut Trace, ops: &[String]) {
    let rt = tokio::runtime::Builder::new_current_thread()
        .enable_time()
        .start_paused(true)
        .build()
        .unwrap();
    let ops_v = ops.to_vec();
    let res = std::panic::catch_unwind(std::panic::AssertUnwindSafe(|| {
        rt.block_on(async move { tokio::time::timeout(Duration::from_secs(3600 * 48), run_case_async(ops_v)).await })
    }));
    match res {
        Ok(Ok(lines)) => {
            for (op, o) in lines {
                t.op(op, o);
            }
        }
        Ok(Err(_)) => t.op("end", "hang"),
        Err(_) => t.op("end", "panic"),
    }
}

const BAD: [&str; 6] = ["zz", "1.5", "@a", "\"7\"", "{1,2}", "99999999999"];

fn gen_case(rng: &mut Rng) -> Vec<String> {
    let stall = rng.chance(3, 5);
    let mut ops = vec![format!("new {} {}", stall as u8, rng.pick(&[32usize, 128, 1024, 1 << 16]))];
    let len = rng.range(2, 40);
    let reads = rng.range(10, 55);
    for _ in 0..len {
        let c = rng.below(100);
        if c < reads {
            if rng.chance(1, 4) {
                // the consumer of the ad hoc channel is slow: a few records at a time
                ops.push(format!("readcmd {}", rng.pick(&[1u32, 2, 3, 7, 40])));
                continue;
            }
            ops.push(format!("read {}", if rng.chance(3, 4) { "s" } else { "c" }));
        } else if c < reads + 6 {
            ops.push(format!("sync {} {}", if rng.chance(4, 5) { "s" } else { "c" }, rng.range(1, 4)));
        } else if c < reads + 10 {
            ops.push(format!("cmd c {}", rng.pick(&BAD)));
        } else if c < reads + 13 {
            ops.push(format!("cmd s {}", rng.below(50)));
        } else {
            // one command in ten makes its handler send a burst of 60 ad hoc commands
            let v = if rng.chance(1, 10) { 11 * rng.below(90) } else { rng.below(1000) };
            ops.push(format!("cmd c {}", v));
        }
    }
    for _ in 0..rng.range(0, 12) {
        ops.push(format!("read {}", if rng.chance(3, 4) { "s" } else { "c" }));
    }
    // quiescence: everything the handlers sent must come out of the ad hoc channel
    ops.push("readcmd 5000".into());
    ops
}

fn main() {
    if std::env::var("SV_PANIC").is_err() { std::panic::set_hook(Box::new(|_| {})); }
    match parse_args() {
        Mode::Gen { seed, cases, out } => {
            let mut t = Trace::create(&out);
            let mut rng = Rng::new(seed);
            for c in 0..cases {
                let ops = gen_case(&mut rng);
                t.case(format!("{} seed={}", c, seed));
                run_case(&mut t, &ops);
            }
            t.finish();
        }
        Mode::Replay { ops, out } => {
            let mut t = Trace::create(&out);
            for (i, case) in ops.iter().enumerate() {
                t.case(i);
                run_case(&mut t, case);
            }
            t.finish();
        }
    }
}
