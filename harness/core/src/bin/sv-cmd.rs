//! C14 (part 2): the REAL `CommandOutput` of the agent runtime's external-links task, driven through the
//! `verif_hooks` wrapper: append / write / write completion; the bytes handed to the channel are decoded with the
//! real request decoder.
use std::num::NonZeroUsize;

use futures::{FutureExt, StreamExt};
use svh::{parse_args, Mode, Rng, Trace};
use swimos_messages::protocol::{Operation, RawRequestMessageDecoder};
use swimos_runtime::verif::write_task::external_links::{CommandOutputSim, WriterHandle};
use swimos_utilities::byte_channel::{byte_channel, BudgetedFutureExt, ByteReader};
use tokio_util::codec::FramedRead;
use uuid::Uuid;

struct Sys {
    out: CommandOutputSim,
    reader: FramedRead<ByteReader, RawRequestMessageDecoder>,
    lent: Option<WriterHandle>,
}

impl Sys {
    fn new(cap: usize) -> Sys {
        let (tx, rx) = byte_channel(NonZeroUsize::new(cap.max(1)).unwrap());
        let mut out = CommandOutputSim::new(Uuid::from_u128(7));
        out.set_writer(tx);
        Sys { out, reader: FramedRead::new(rx, Default::default()), lent: None }
    }

    fn frames(&mut self) -> Vec<String> {
        let mut v = vec![];
        while let Some(Some(item)) = self
            .reader
            .next()
            .with_budget(NonZeroUsize::new(1 << 20).unwrap())
            .now_or_never()
        {
            match item {
                Ok(msg) => {
                    let t = msg.path.node.as_str().trim_start_matches("/n").to_string();
                    match msg.envelope {
                        Operation::Command(body) => {
                            v.push(format!("{}:{}", t, String::from_utf8_lossy(body.as_ref())))
                        }
                        _ => v.push(format!("{}:?", t)),
                    }
                }
                Err(_) => {
                    v.push("decode-error".into());
                    break;
                }
            }
        }
        v
    }

    fn exec(&mut self, op: &str) -> String {
        let p: Vec<&str> = op.split_whitespace().collect();
        match p.as_slice() {
            ["append", t, id, ow] => {
                self.out.append(&format!("/n{}", t), "l", id.as_bytes(), *ow != "0");
                "ok".into()
            }
            ["write"] => match self.out.write() {
                None => "none".into(),
                Some(fut) => {
                    // the channel may be far smaller than the burst: the remote end reads while the write is in
                    // progress (frames decoded meanwhile are kept in order)
                    let mut fut = Box::pin(fut);
                    let mut early: Vec<String> = vec![];
                    let res = futures::executor::block_on(async {
                        loop {
                            tokio::select! {
                                biased;
                                r = &mut fut => break r,
                                _ = tokio::task::yield_now() => {}
                            }
                            early.extend(self.frames());
                        }
                    });
                    match res {
                        Ok(h) => {
                            self.lent = Some(h);
                            let mut f = early;
                            f.extend(self.frames());
                            format!("sent {}", if f.is_empty() { "-".to_string() } else { f.join(",") })
                        }
                        Err(_) => "write-error".into(),
                    }
                }
            },
            ["done"] => match self.lent.take() {
                Some(h) => {
                    self.out.write_done(h);
                    "ok".into()
                }
                None => "none".into(),
            },
            _ => "bad-op".into(),
        }
    }
}

fn run_case(t: &mut Trace, ops: &[String]) {
    let mut sys: Option<Sys> = None;
    for op in ops {
        if op == "new" || op.starts_with("new ") {
            let cap = op.split_whitespace().nth(1).and_then(|c| c.parse().ok()).unwrap_or(1 << 20);
            sys = Some(Sys::new(cap));
            t.op(op, "ok");
        } else if let Some(s) = sys.as_mut() {
            let o = s.exec(op);
            t.op(op, o);
        } else {
            t.op(op, "bad-op");
        }
    }
}

fn main() {
    match parse_args() {
        Mode::Gen { seed, cases, out } => {
            let mut t = Trace::create(&out);
            let mut rng = Rng::new(seed);
            for c in 0..cases {
                // one case in three uses an outgoing channel far smaller than a burst of commands
                let mut ops = vec![if rng.chance(1, 3) { format!("new {}", rng.range(8, 96)) } else { "new".to_string() }];
                let nt = rng.range(1, 3);
                let len = rng.range(2, 30);
                let mut id = 0;
                let writes = rng.range(10, 45);
                for _ in 0..len {
                    let r = rng.below(100);
                    if r < 100 - writes - 15 {
                        id += 1;
                        ops.push(format!("append {} {} {}", rng.below(nt), id, rng.chance(2, 5) as u8));
                    } else if r < 100 - 15 {
                        ops.push("write".into());
                    } else {
                        ops.push("done".into());
                    }
                }
                ops.push("done".into());
                ops.push("write".into());
                t.case(format!("{} seed={}", c, seed));
                run_case(&mut t, &ops);
            }
            t.finish();
        }
        Mode::Replay { ops, out } => {
            let mut t = Trace::create(&out);
            for (i, case) in ops.iter().enumerate() {
                t.case(i);
                run_case(&mut t, case);
            }
            t.finish();
        }
    }
}
