//! C02, command dispatch for DYNAMICALLY SELECTED map lanes: every `upd` / `rem` / `clr` / `take` / `drop` is an
//! encoded `MapMessage<BytesMut, BytesMut>` run through the REAL `decode_and_select_apply` AND (on a second lane) the
//! REAL `decode_shared_and_select_apply` (both are `DecodeWithAndSelectApply::step`: decode, pick the
//! `MapLaneSelect{Update,Remove,Clear,DropOrTake}` handler, step it against a `SelectorFn` that finds the lane in
//! the agent at run time — the path of connector agents); `sync` goes through `MapLaneSelectSync`. The two lanes must
//! answer identically; what they answer is compared with machine `ml` (same op language as `sv-ml`).
use std::collections::{BTreeMap, HashMap};

use bytes::BytesMut;
use svh::{parse_args, Mode, Rng, Trace};
use swimos_agent::agent_model::{AgentDescription, WriteResult};
use swimos_agent::event_handler::{
    ActionContext, HandlerAction, HandlerFuture, LaneSpawnOnDone, LaneSpawner, LinkSpawner, Spawner, StepResult,
};
use swimos_agent::agent_model::downlink::BoxDownlinkChannelFactory;
use swimos_agent::event_handler::DownlinkSpawnOnDone;
use swimos_agent::lanes::map::{decode_and_select_apply, decode_shared_and_select_apply, MapLaneSelectSync};
use swimos_agent::lanes::{LaneItem, MapLane, Selector, SelectorFn};
use swimos_agent::verif::queues::MapOps;
use swimos_agent::{AgentMetadata, ReconDecoder};
use swimos_agent_protocol::encoding::lane::RawMapLaneResponseDecoder;
use swimos_agent_protocol::{LaneResponse, MapMessage, MapOperation};
use swimos_api::address::Address;
use swimos_api::agent::{AgentConfig, WarpLaneKind};
use swimos_api::error::{CommanderRegistrationError, DynamicRegistrationError};
use swimos_model::Text;
use swimos_utilities::routing::RouteUri;
use tokio_util::codec::Decoder;
use uuid::Uuid;

const LANE_ID: u64 = 7;
const LANE_NAME: &str = "dyn";

/// An agent whose only lane is found at run time, by name, as the lanes a connector agent opens are.
struct DynAgent<M> {
    lanes: HashMap<String, MapLane<i32, i32, M>>,
}
impl<M> AgentDescription for DynAgent<M> {}

struct ByName(&'static str);
struct Bound<'a, M>(&'a DynAgent<M>, &'a str);

impl<M: 'static> SelectorFn<DynAgent<M>> for ByName {
    type Target = MapLane<i32, i32, M>;
    fn name(&self) -> &str {
        self.0
    }
    fn selector<'a>(&'a self, context: &'a DynAgent<M>) -> impl Selector<Target = Self::Target> + 'a {
        Bound(context, self.0)
    }
}
impl<'a, M> Selector for Bound<'a, M> {
    type Target = MapLane<i32, i32, M>;
    fn select(&self) -> Option<&Self::Target> {
        self.0.lanes.get(self.1)
    }
    fn name(&self) -> &str {
        self.1
    }
}

struct NoSpawn;
impl<C> Spawner<C> for NoSpawn {
    fn spawn_suspend(&self, _fut: HandlerFuture<C>) {
        panic!("unexpected suspend");
    }
    fn schedule_timer(&self, _at: tokio::time::Instant, _id: u64) {
        panic!("unexpected timer");
    }
}
impl<C> LaneSpawner<C> for NoSpawn {
    fn spawn_warp_lane(&self, _name: &str, _kind: WarpLaneKind, _on_done: LaneSpawnOnDone<C>) -> Result<(), DynamicRegistrationError> {
        panic!("unexpected lane");
    }
}
impl<C> LinkSpawner<C> for NoSpawn {
    fn spawn_downlink(&self, _path: Address<Text>, _make_channel: BoxDownlinkChannelFactory<C>, _on_done: DownlinkSpawnOnDone<C>) {
        panic!("unexpected downlink");
    }
    fn register_commander(&self, _path: Address<Text>) -> Result<u16, CommanderRegistrationError> {
        panic!("unexpected commander");
    }
}

const AGENT_CONFIG: AgentConfig = AgentConfig::DEFAULT;

/// Steps a handler to completion against the agent; `ok`, or why it failed. The handler must report the lane it
/// changed, and no other item, as modified (once per removal for take / drop, so possibly never: `may_be_silent`);
/// that is what makes the agent task write the lane's events.
fn run<C: AgentDescription, H: HandlerAction<C>>(mut h: H, agent: &C, may_be_silent: bool) -> String {
    let uri = RouteUri::try_from("/node").expect("uri");
    let params = HashMap::new();
    let meta = AgentMetadata::new(&uri, &params, &AGENT_CONFIG);
    let no_spawn = NoSpawn;
    let mut join_init = HashMap::new();
    let mut cmd = BytesMut::new();
    let mut ctx = ActionContext::new(&no_spawn, &no_spawn, &no_spawn, &mut join_init, &mut cmd);
    let mut modified: Vec<u64> = vec![];
    for _ in 0..64 {
        match h.step(&mut ctx, meta, agent) {
            StepResult::Continue { modified_item } => modified.extend(modified_item.map(|m| m.id())),
            StepResult::Fail(e) => return format!("fail:{}", e).replace(' ', "_"),
            StepResult::Complete { modified_item, .. } => {
                modified.extend(modified_item.map(|m| m.id()));
                let good = modified.iter().all(|i| *i == LANE_ID) && (may_be_silent || !modified.is_empty());
                return if good { "ok".into() } else { format!("modified:{:?}", modified).replace(' ', "") };
            }
        }
    }
    "handler-does-not-complete".into()
}

fn b(s: &str) -> BytesMut {
    BytesMut::from(s.as_bytes())
}

fn message(p: &[&str]) -> Option<MapMessage<BytesMut, BytesMut>> {
    Some(match p {
        ["upd", k, v] => MapMessage::Update { key: b(k), value: b(v) },
        ["rem", k] => MapMessage::Remove { key: b(k) },
        ["clr"] => MapMessage::Clear,
        ["drop", n] => MapMessage::Drop(n.parse().ok()?),
        ["take", n] => MapMessage::Take(n.parse().ok()?),
        _ => return None,
    })
}

fn txt(b: &[u8]) -> String {
    String::from_utf8_lossy(b).to_string()
}

fn render_op(op: &MapOperation<BytesMut, BytesMut>) -> String {
    match op {
        MapOperation::Update { key, value } => format!("upd:{}:{}", txt(key), txt(value)),
        MapOperation::Remove { key } => format!("rem:{}", txt(key)),
        MapOperation::Clear => "clr".into(),
    }
}

fn exec<M>(agent: &DynAgent<M>, shared: bool, op: &str) -> String
where
    M: MapOps<i32, i32> + 'static,
    for<'a> &'a M: IntoIterator<Item = (&'a i32, &'a i32)>,
{
    let p: Vec<&str> = op.split_whitespace().collect();
    let lane = &agent.lanes[LANE_NAME];
    if let Some(msg) = message(&p) {
        let silent = matches!(msg, MapMessage::Drop(_) | MapMessage::Take(_));
        return if shared {
            let mut dec = ReconDecoder::<i32>::default();
            run(decode_shared_and_select_apply(&mut dec, msg, ByName(LANE_NAME)), agent, silent)
        } else {
            let mut kd = ReconDecoder::<i32>::default();
            let mut vd = ReconDecoder::<i32>::default();
            run(decode_and_select_apply(&mut kd, &mut vd, msg, ByName(LANE_NAME)), agent, silent)
        };
    }
    match p.as_slice() {
        ["sync", r] => match r.parse::<u128>() {
            Ok(r) => run(MapLaneSelectSync::new(ByName(LANE_NAME), Uuid::from_u128(r)), agent, false),
            Err(_) => "bad-op".into(),
        },
        ["map"] => lane.get_map(|m| {
            let mut es: Vec<(i32, i32)> = m.into_iter().map(|(k, v)| (*k, *v)).collect();
            es.sort();
            if es.is_empty() {
                "-".to_string()
            } else {
                es.iter().map(|(k, v)| format!("{}={}", k, v)).collect::<Vec<_>>().join(",")
            }
        }),
        ["write"] => {
            let mut buf = BytesMut::new();
            let res = match lane.write_to_buffer(&mut buf) {
                WriteResult::Done => "done",
                WriteResult::DataStillAvailable => "more",
                WriteResult::NoData => "nodata",
                WriteResult::RequiresEvent => "requires-event",
            };
            let mut dec = RawMapLaneResponseDecoder::default();
            let mut frames = vec![];
            loop {
                match dec.decode(&mut buf) {
                    Ok(Some(LaneResponse::StandardEvent(op))) => frames.push(format!("ev:{}", render_op(&op))),
                    Ok(Some(LaneResponse::SyncEvent(id, op))) => match &op {
                        MapOperation::Update { key, value } => {
                            frames.push(format!("sync:{}:{}:{}", id.as_u128(), txt(key), txt(value)))
                        }
                        other => frames.push(format!("sync:{}:?{}", id.as_u128(), render_op(other))),
                    },
                    Ok(Some(LaneResponse::Synced(id))) => frames.push(format!("synced:{}", id.as_u128())),
                    Ok(Some(LaneResponse::Initialized)) => frames.push("initialized".into()),
                    Ok(None) => break,
                    Err(_) => {
                        frames.push("decode-error".into());
                        break;
                    }
                }
            }
            if !buf.is_empty() {
                frames.push("trailing-bytes".into());
            }
            format!("{} {}", res, if frames.is_empty() { "-".to_string() } else { frames.join(",") })
        }
        _ => "bad-op".into(),
    }
}

/// Two agents per case: the commands of the first go through `decode_and_select_apply`, those of the second through
/// `decode_shared_and_select_apply`.
enum Pair {
    Tree(DynAgent<BTreeMap<i32, i32>>, DynAgent<BTreeMap<i32, i32>>),
    Hash(DynAgent<HashMap<i32, i32>>, DynAgent<HashMap<i32, i32>>),
}

fn agent<M: MapOps<i32, i32>>(init: M, init2: M) -> (DynAgent<M>, DynAgent<M>) {
    let mk = |m: M| DynAgent { lanes: [(LANE_NAME.to_string(), MapLane::new(LANE_ID, m))].into_iter().collect() };
    (mk(init), mk(init2))
}

fn both(split: String, shared: String) -> String {
    if split == shared {
        split
    } else {
        format!("split:{}|shared:{}", split, shared).replace(' ', "_")
    }
}

fn run_case(t: &mut Trace, ops: &[String]) {
    let mut pair: Option<Pair> = None;
    for op in ops {
        if op == "new" {
            let (a, s) = agent(BTreeMap::new(), BTreeMap::new());
            pair = Some(Pair::Tree(a, s));
            t.op(op, "ok");
        } else if op == "new hash" {
            let (a, s) = agent(HashMap::new(), HashMap::new());
            pair = Some(Pair::Hash(a, s));
            t.op(op, "ok");
        } else {
            let out = match pair.as_ref() {
                Some(Pair::Tree(a, s)) => both(exec(a, false, op), exec(s, true, op)),
                Some(Pair::Hash(a, s)) => both(exec(a, false, op), exec(s, true, op)),
                None => "bad-op".into(),
            };
            t.op(op, out);
        }
    }
}

fn main() {
    match parse_args() {
        Mode::Gen { seed, cases, out } => {
            let mut t = Trace::create(&out);
            let mut rng = Rng::new(seed);
            for c in 0..cases {
                // half the cases: HashMap backing (what connector agents use), no sync (the key order of a HashMap
                // snapshot is not defined); keys whose decimal text order differs from their numeric order
                let hash = rng.chance(1, 2);
                let keys: [u64; 6] = if hash || rng.chance(1, 2) { [2, 10, 33, 100, 7, 21] } else { [0, 1, 2, 3, 4, 5] };
                let mut ops = vec![if hash { "new hash".to_string() } else { "new".to_string() }];
                let len = rng.range(2, 40);
                let nkeys = rng.range(1, 5);
                let writes = [25u64, 45, 65][rng.below(3) as usize];
                let mut v = 0;
                let mut syncs = 0;
                for _ in 0..len {
                    let r = rng.below(100);
                    if r < writes {
                        ops.push("write".into());
                    } else {
                        let x = rng.below(100);
                        if x < 45 {
                            v += 1;
                            ops.push(format!("upd {} {}", keys[rng.below(nkeys) as usize], v));
                        } else if x < 60 {
                            ops.push(format!("rem {}", keys[rng.below(nkeys + 1) as usize]));
                        } else if x < 66 {
                            ops.push("clr".into());
                        } else if x < 76 && !hash {
                            syncs += 1;
                            ops.push(format!("sync {}", syncs));
                        } else if x < 88 {
                            ops.push(format!("drop {}", rng.below(4)));
                        } else {
                            ops.push(format!("take {}", rng.below(4)));
                        }
                        if rng.chance(1, 3) {
                            ops.push("map".into());
                        }
                    }
                }
                for _ in 0..(3 * len + 12) {
                    ops.push("write".into());
                }
                ops.push("map".into());
                t.case(format!("{} seed={}", c, seed));
                run_case(&mut t, &ops);
            }
            t.finish();
        }
        Mode::Replay { ops, out } => {
            let mut t = Trace::create(&out);
            for (i, case) in ops.iter().enumerate() {
                t.case(i);
                run_case(&mut t, case);
            }
            t.finish();
        }
    }
}
