//! C06 correspondence / monitor harness: generated handler programs interpreted into REAL event handlers
//! (public `HandlerContext` / `HandlerActionExt` API, boxed) attached to a derived agent + lifecycle, executed by
//! the REAL agent task (`AgentModel` run by `AgentRouteTask::run_agent`, i.e. `run_handler` + the agent main loop)
//! with commands injected from the runtime side through a remote's byte channel.
//!
//! Program text (one token, no blanks):
//!   e7 effect | g0 get value lane & record | c01+5 get v0 and_then set v1 := v+5 | s0=5 set | u0.1=5 map update |
//!   r0.1 remove | x0 clear | q0.1 get entry & record | y0.1 with_entry & record |
//!   t0.1i5 / t0.1d / t0.1b5 / t0.1f5 transform_entry with the closure `|v| Some(v.unwrap_or(0)+5)` / `|_| None` /
//!   `|v| v.map(|x| x+5)` / `|v| if v.is_some() { None } else { Some(5) }` (insert, replace, remove, no change) | F(a,b) followed_by | A(a,b) and_then | Q[a,b,..] Sequentially |
//!   L(a) R(a) Either | N / O(a) Option.discard | ! fail | $ stop | Z(a) suspend
//! Every modifying primitive is preceded by an effect recording the intent (`ws0=5`, `wu0.1=5`, `wr0.1`, `wx0`, `w!`,
//! `w$`) so that the monitor can decide the property on the trace alone.
//!
//! Ops: `agent <14 programs>` | `cmd <prog>` | `vset l n` | `mupd m k n` | `mrem m k` | `mclr m` | `burst a;b;..` | `stop`
//!      `mdrop m n` | `mtake m n`  the map-lane commands `@drop(n)` / `@take(n)` of the remote (`MapLaneDropOrTake`)
//! Map keys are numbers below 100 (generated: 1, 2, 10 — key order 1 < 2 < 10, text order "1" < "10" < "2").
//!      `vsync l` | `msync m`  a sync request of the remote for the lane (no handler may run: `ValueLaneSync` /
//!                             `MapLaneSync` report `Modification::no_trigger`)
//!      `agentd <cap> <14 programs>`  the same agent run through the public `Agent::run` with the HARNESS as the
//!                             runtime (`AgentContext`): the lanes' output byte channels have capacity `cap`
//!                             (`LaneConfig::output_buffer_size`) and are read only by `rd`, so the agent task's
//!                             `item_writers` / `pending_writes` / `dirty_items` write flush meets busy writers,
//!                             `WriteResult::DataStillAvailable` and late `WriteComplete` events
//!      `rd <v0|v1|v2|m0|m1|cmd|all> <k>`  k rounds of reading what is available on the output of the lane(s)
//!                             (a no-op on the `agent` rig, whose runtime task reads promptly)
//!
//! Lanes v1, v2, m0, m1 are RENAMED (`#[item(convention = "camel")]`, `#[item(name = ..)]`, field names differing
//! from the external names): requests are addressed by external name, the lifecycle is labelled by field name.
use std::collections::HashMap;
use std::num::NonZeroUsize;
use std::sync::{Arc, Mutex};
use std::time::Duration;

use bytes::Bytes;
use futures::future::{ready, BoxFuture};
use futures::{FutureExt, SinkExt};
use svh::{parse_args, Mode, Rng, Trace};
use swimos::agent::agent_lifecycle::HandlerContext;
use swimos::agent::agent_model::AgentModel;
use swimos::agent::event_handler::{Either, EventHandler, HandlerActionExt, LocalBoxEventHandler, Sequentially};
use swimos::agent::lanes::{CommandLane, MapLane, ValueLane};
use swimos::agent::{lifecycle, projections, AgentLaneModel};
use swimos_api::address::RelativeAddress;
use swimos_agent_protocol::encoding::lane::{MapLaneRequestEncoder, ValueLaneRequestEncoder};
use swimos_agent_protocol::{LaneRequest, MapMessage};
use swimos_api::agent::{
    Agent, AgentConfig, AgentContext, DownlinkKind, HttpLaneRequestChannel, LaneConfig, StoreKind, WarpLaneKind,
};
use swimos_api::error::{AgentRuntimeError, AgentTaskError, DownlinkRuntimeError, OpenStoreError};
use swimos_messages::protocol::{RawRequestMessageEncoder, RequestMessage};
use swimos_runtime::agent::{
    AgentAttachmentRequest, AgentExecError, AgentRouteChannels, AgentRouteDescriptor, AgentRouteTask,
    AgentRuntimeConfig, CombinedAgentConfig, DisconnectionReason,
};
use swimos_utilities::byte_channel::{byte_channel, ByteReader, ByteWriter};
use swimos_utilities::trigger;
use tokio::sync::mpsc;
use tokio_util::codec::FramedWrite;
use uuid::Uuid;

// ------------------------------------------------------------------------------------------------ program text

#[derive(Clone, Debug, PartialEq)]
enum H {
    Emit(String),
    GetLog(usize),
    Copy(usize, usize, i64),
    SetRaw(usize, i64),
    UpdRaw(usize, i64, i64),
    RemRaw(usize, i64),
    ClrRaw(usize),
    MGetLog(usize, i64),
    XfRaw(usize, i64, Xf),
    WithLog(usize, i64),
    Fby(Box<H>, Box<H>),
    AndThen(Box<H>, Box<H>),
    Seq(Vec<H>),
    Left(Box<H>),
    Right(Box<H>),
    OptNone,
    OptSome(Box<H>),
    FailRaw,
    StopRaw,
    Suspend(Box<H>),
}

/// The closures given to `transform_entry`.
#[derive(Clone, Copy, Debug, PartialEq)]
enum Xf {
    Inc(i64),
    Del,
    Bump(i64),
    Flip(i64),
}

impl Xf {
    fn app(self, v: Option<i64>) -> Option<i64> {
        match self {
            Xf::Inc(d) => Some(v.unwrap_or(0) + d),
            Xf::Del => None,
            Xf::Bump(d) => v.map(|x| x + d),
            Xf::Flip(n) => {
                if v.is_some() {
                    None
                } else {
                    Some(n)
                }
            }
        }
    }
    fn text(self) -> String {
        match self {
            Xf::Inc(d) => format!("i{}", d),
            Xf::Del => "d".into(),
            Xf::Bump(d) => format!("b{}", d),
            Xf::Flip(n) => format!("f{}", n),
        }
    }
}

fn fby(a: H, b: H) -> H {
    H::Fby(Box::new(a), Box::new(b))
}

/// The intent-logging expansion of the modifying primitives (identical in the Lean parser).
fn set_h(l: usize, n: i64) -> H {
    fby(H::Emit(format!("ws{}={}", l, n)), H::SetRaw(l, n))
}

struct P<'a> {
    s: &'a [u8],
    i: usize,
}

impl<'a> P<'a> {
    fn peek(&self) -> Option<u8> {
        self.s.get(self.i).copied()
    }
    fn eat(&mut self, c: u8) -> Option<()> {
        if self.peek() == Some(c) {
            self.i += 1;
            Some(())
        } else {
            None
        }
    }
    fn digit(&mut self) -> Option<usize> {
        let c = self.peek()?;
        if c.is_ascii_digit() {
            self.i += 1;
            Some((c - b'0') as usize)
        } else {
            None
        }
    }
    fn vl(&mut self) -> Option<usize> {
        self.digit().filter(|l| *l < NV)
    }
    fn ml(&mut self) -> Option<usize> {
        self.digit().filter(|m| *m < NM)
    }
    /// A map key: a decimal number below 100.
    fn key(&mut self) -> Option<i64> {
        self.nat().filter(|k| *k < 100)
    }
    fn nat(&mut self) -> Option<i64> {
        let mut n: i64 = 0;
        let mut any = false;
        while let Some(c) = self.peek() {
            if c.is_ascii_digit() {
                n = n.checked_mul(10)?.checked_add((c - b'0') as i64)?;
                self.i += 1;
                any = true;
            } else {
                break;
            }
        }
        if any {
            Some(n)
        } else {
            None
        }
    }
    fn int(&mut self) -> Option<i64> {
        if self.eat(b'-').is_some() {
            self.nat().map(|n| -n)
        } else {
            self.nat()
        }
    }
    fn h(&mut self, depth: usize) -> Option<H> {
        if depth == 0 {
            return None;
        }
        let c = self.peek()?;
        self.i += 1;
        match c {
            b'e' => self.nat().map(|n| H::Emit(format!("e{}", n))),
            b'g' => self.vl().map(H::GetLog),
            b'c' => {
                let s = self.vl()?;
                let d = self.vl()?;
                let neg = match self.peek()? {
                    b'+' => false,
                    b'-' => true,
                    _ => return None,
                };
                self.i += 1;
                let k = self.nat()?;
                Some(H::Copy(s, d, if neg { -k } else { k }))
            }
            b's' => {
                let l = self.vl()?;
                self.eat(b'=')?;
                let n = self.int()?;
                Some(set_h(l, n))
            }
            b'u' => {
                let m = self.ml()?;
                self.eat(b'.')?;
                let k = self.key()?;
                self.eat(b'=')?;
                let n = self.int()?;
                Some(fby(H::Emit(format!("wu{}.{}={}", m, k, n)), H::UpdRaw(m, k, n)))
            }
            b'r' => {
                let m = self.ml()?;
                self.eat(b'.')?;
                let k = self.key()?;
                Some(fby(H::Emit(format!("wr{}.{}", m, k)), H::RemRaw(m, k)))
            }
            b'x' => {
                let m = self.ml()?;
                Some(fby(H::Emit(format!("wx{}", m)), H::ClrRaw(m)))
            }
            b'q' => {
                let m = self.ml()?;
                self.eat(b'.')?;
                let k = self.key()?;
                Some(H::MGetLog(m, k))
            }
            b't' => {
                let m = self.ml()?;
                self.eat(b'.')?;
                let k = self.key()?;
                let x = match self.peek()? {
                    b'i' => {
                        self.i += 1;
                        Xf::Inc(self.int()?)
                    }
                    b'd' => {
                        self.i += 1;
                        Xf::Del
                    }
                    b'b' => {
                        self.i += 1;
                        Xf::Bump(self.int()?)
                    }
                    b'f' => {
                        self.i += 1;
                        Xf::Flip(self.int()?)
                    }
                    _ => return None,
                };
                Some(fby(H::Emit(format!("wt{}.{}{}", m, k, x.text())), H::XfRaw(m, k, x)))
            }
            b'y' => {
                let m = self.ml()?;
                self.eat(b'.')?;
                let k = self.key()?;
                Some(H::WithLog(m, k))
            }
            b'F' | b'A' => {
                self.eat(b'(')?;
                let a = self.h(depth - 1)?;
                self.eat(b',')?;
                let b = self.h(depth - 1)?;
                self.eat(b')')?;
                Some(if c == b'F' { fby(a, b) } else { H::AndThen(Box::new(a), Box::new(b)) })
            }
            b'Q' => {
                self.eat(b'[')?;
                let mut hs = vec![];
                if self.eat(b']').is_some() {
                    return Some(H::Seq(hs));
                }
                loop {
                    hs.push(self.h(depth - 1)?);
                    if self.eat(b',').is_some() {
                        continue;
                    }
                    self.eat(b']')?;
                    return Some(H::Seq(hs));
                }
            }
            b'L' | b'R' | b'O' | b'Z' => {
                self.eat(b'(')?;
                let a = Box::new(self.h(depth - 1)?);
                self.eat(b')')?;
                Some(match c {
                    b'L' => H::Left(a),
                    b'R' => H::Right(a),
                    b'O' => H::OptSome(a),
                    _ => fby(H::Emit("wz".into()), H::Suspend(a)),
                })
            }
            b'N' => Some(H::OptNone),
            b'!' => Some(fby(H::Emit("w!".into()), H::FailRaw)),
            b'$' => Some(fby(H::Emit("w$".into()), H::StopRaw)),
            _ => None,
        }
    }
}

fn parse_h(s: &str) -> Option<H> {
    let mut p = P { s: s.as_bytes(), i: 0 };
    let h = p.h(64)?;
    if p.i == s.len() {
        Some(h)
    } else {
        None
    }
}

// ------------------------------------------------------------------------------------------------ the agent

const NV: usize = 3;
const NM: usize = 2;
const KEYS: [u64; 3] = [1, 2, 10];

/// Field names (used by the lifecycle and by `lifecycle_item_ids`) and external names (used by the runtime and by
/// `external_item_ids`) differ for four of the five lanes.
#[projections]
#[derive(AgentLaneModel)]
struct Ag {
    v0: ValueLane<i64>,
    #[item(convention = "camel")]
    val_one: ValueLane<i64>,
    #[item(name = "vTwo")]
    v2: ValueLane<i64>,
    #[item(convention = "camel")]
    map_zero: MapLane<i64, i64>,
    #[item(name = "mapOne")]
    m1: MapLane<i64, i64>,
    cmd: CommandLane<String>,
}

/// External lane names.
const VNAMES: [&str; NV] = ["v0", "valOne", "vTwo"];
const MNAMES: [&str; NM] = ["mapZero", "mapOne"];

fn vlane(l: usize) -> fn(&Ag) -> &ValueLane<i64> {
    match l {
        0 => Ag::V0,
        1 => Ag::VAL_ONE,
        _ => Ag::V2,
    }
}

fn mlane(m: usize) -> fn(&Ag) -> &MapLane<i64, i64> {
    match m {
        0 => Ag::MAP_ZERO,
        _ => Ag::M1,
    }
}

#[derive(Debug)]
struct UserErr;
impl std::fmt::Display for UserErr {
    fn fmt(&self, f: &mut std::fmt::Formatter<'_>) -> std::fmt::Result {
        write!(f, "generated failure")
    }
}
impl std::error::Error for UserErr {}

struct Prog {
    on_start: H,
    on_stop: H,
    ev: Vec<H>,
    set: Vec<H>,
    upd: Vec<H>,
    rem: Vec<H>,
    clr: Vec<H>,
}

type Log = Arc<Mutex<Vec<String>>>;

#[derive(Clone)]
struct Lc {
    prog: Arc<Prog>,
    log: Log,
    probe: Log,
}

type Hb = LocalBoxEventHandler<'static, Ag>;

fn fmt_opt(v: Option<i64>) -> String {
    v.map(|x| x.to_string()).unwrap_or_else(|| "-".into())
}

fn fmt_map(m: &HashMap<i64, i64>) -> String {
    let mut es: Vec<(i64, i64)> = m.iter().map(|(k, v)| (*k, *v)).collect();
    es.sort();
    let body: Vec<String> = es.iter().map(|(k, v)| format!("{}={}", k, v)).collect();
    format!("{{{}}}", body.join(","))
}

impl Lc {
    fn emit(&self, ctx: HandlerContext<Ag>, tok: String) -> Hb {
        let log = self.log.clone();
        ctx.effect(move || log.lock().unwrap().push(tok)).boxed_local()
    }

    /// Interpret program text into real handlers (every node is a real combinator of the public API).
    fn build(&self, ctx: HandlerContext<Ag>, h: &H) -> Hb {
        match h {
            H::Emit(t) => self.emit(ctx, t.clone()),
            H::GetLog(l) => {
                let l = *l;
                let log = self.log.clone();
                ctx.get_value(vlane(l))
                    .and_then(move |v: i64| ctx.effect(move || log.lock().unwrap().push(format!("g{}:{}", l, v))))
                    .boxed_local()
            }
            H::Copy(s, d, k) => {
                let (d, k) = (*d, *k);
                let me = self.clone();
                ctx.get_value(vlane(*s))
                    .and_then(move |v: i64| me.build(ctx, &set_h(d, v + k)))
                    .boxed_local()
            }
            H::SetRaw(l, n) => ctx.set_value(vlane(*l), *n).boxed_local(),
            H::UpdRaw(m, k, n) => ctx.update(mlane(*m), *k, *n).boxed_local(),
            H::RemRaw(m, k) => ctx.remove(mlane(*m), *k).boxed_local(),
            H::ClrRaw(m) => ctx.clear(mlane(*m)).boxed_local(),
            H::MGetLog(m, k) => {
                let (m, k) = (*m, *k);
                let log = self.log.clone();
                ctx.get_entry(mlane(m), k)
                    .and_then(move |v: Option<i64>| {
                        ctx.effect(move || log.lock().unwrap().push(format!("q{}.{}:{}", m, k, fmt_opt(v))))
                    })
                    .boxed_local()
            }
            H::XfRaw(m, k, x) => {
                let x = *x;
                ctx.transform_entry(mlane(*m), *k, move |v: Option<&i64>| x.app(v.copied())).boxed_local()
            }
            H::WithLog(m, k) => {
                let (m, k) = (*m, *k);
                let log = self.log.clone();
                ctx.with_entry(mlane(m), k, |v: Option<&i64>| v.copied())
                    .and_then(move |v: Option<i64>| {
                        ctx.effect(move || log.lock().unwrap().push(format!("y{}.{}:{}", m, k, fmt_opt(v))))
                    })
                    .boxed_local()
            }
            H::Fby(a, b) => self.build(ctx, a).followed_by(self.build(ctx, b)).boxed_local(),
            H::AndThen(a, b) => {
                let me = self.clone();
                let b = (**b).clone();
                self.build(ctx, a).and_then(move |_: ()| me.build(ctx, &b)).boxed_local()
            }
            H::Seq(hs) => {
                let v: Vec<Hb> = hs.iter().map(|h| self.build(ctx, h)).collect();
                Sequentially::new(v).boxed_local()
            }
            H::Left(a) => Either::<Hb, Hb>::Left(self.build(ctx, a)).boxed_local(),
            H::Right(a) => Either::<Hb, Hb>::Right(self.build(ctx, a)).boxed_local(),
            H::OptNone => None::<Hb>.discard().boxed_local(),
            H::OptSome(a) => Some(self.build(ctx, a)).discard().boxed_local(),
            H::FailRaw => ctx.fail::<(), UserErr>(UserErr).boxed_local(),
            H::StopRaw => ctx.stop().boxed_local(),
            H::Suspend(a) => {
                let me = self.clone();
                let a = (**a).clone();
                ctx.suspend(async move { me.bracket(ctx, "<Z".into(), ">Z".into(), &a) }).boxed_local()
            }
        }
    }

    /// `Sequentially [effect(enter), body, effect(exit)]`
    fn bracket(&self, ctx: HandlerContext<Ag>, enter: String, exit: String, body: &H) -> Hb {
        let v: Vec<Hb> = vec![self.emit(ctx, enter), self.build(ctx, body), self.emit(ctx, exit)];
        Sequentially::new(v).boxed_local()
    }

    fn probe_handler(&self, ctx: HandlerContext<Ag>) -> Hb {
        let mut v: Vec<Hb> = vec![];
        for l in 0..NV {
            let p = self.probe.clone();
            v.push(
                ctx.get_value(vlane(l))
                    .and_then(move |x: i64| ctx.effect(move || p.lock().unwrap().push(x.to_string())))
                    .boxed_local(),
            );
        }
        for m in 0..NM {
            let p = self.probe.clone();
            v.push(
                ctx.get_map(mlane(m))
                    .and_then(move |x: HashMap<i64, i64>| ctx.effect(move || p.lock().unwrap().push(fmt_map(&x))))
                    .boxed_local(),
            );
        }
        Sequentially::new(v).boxed_local()
    }
}

#[lifecycle(Ag)]
impl Lc {
    #[on_start]
    fn on_start(&self, ctx: HandlerContext<Ag>) -> impl EventHandler<Ag> {
        self.bracket(ctx, "<T".into(), ">T".into(), &self.prog.on_start)
    }

    #[on_stop]
    fn on_stop(&self, ctx: HandlerContext<Ag>) -> impl EventHandler<Ag> {
        self.bracket(ctx, "<P".into(), ">P".into(), &self.prog.on_stop)
    }

    #[on_command(cmd)]
    fn on_cmd(&self, ctx: HandlerContext<Ag>, text: &String) -> impl EventHandler<Ag> {
        if text == "probe" {
            self.probe_handler(ctx)
        } else {
            match parse_h(text) {
                Some(h) => self.bracket(ctx, "<C".into(), ">C".into(), &h),
                None => self.emit(ctx, "bad-program".into()),
            }
        }
    }

    #[on_event(v0)]
    fn ev0(&self, ctx: HandlerContext<Ag>, new: &i64) -> impl EventHandler<Ag> {
        self.bracket(ctx, format!("<E0({})", new), ">E0".into(), &self.prog.ev[0])
    }
    #[on_set(v0)]
    fn set0(&self, ctx: HandlerContext<Ag>, new: &i64, prev: Option<i64>) -> impl EventHandler<Ag> {
        self.bracket(ctx, format!("<S0({},{})", fmt_opt(prev), new), ">S0".into(), &self.prog.set[0])
    }
    #[on_event(val_one)]
    fn ev1(&self, ctx: HandlerContext<Ag>, new: &i64) -> impl EventHandler<Ag> {
        self.bracket(ctx, format!("<E1({})", new), ">E1".into(), &self.prog.ev[1])
    }
    #[on_set(val_one)]
    fn set1(&self, ctx: HandlerContext<Ag>, new: &i64, prev: Option<i64>) -> impl EventHandler<Ag> {
        self.bracket(ctx, format!("<S1({},{})", fmt_opt(prev), new), ">S1".into(), &self.prog.set[1])
    }
    #[on_event(v2)]
    fn ev2(&self, ctx: HandlerContext<Ag>, new: &i64) -> impl EventHandler<Ag> {
        self.bracket(ctx, format!("<E2({})", new), ">E2".into(), &self.prog.ev[2])
    }
    #[on_set(v2)]
    fn set2(&self, ctx: HandlerContext<Ag>, new: &i64, prev: Option<i64>) -> impl EventHandler<Ag> {
        self.bracket(ctx, format!("<S2({},{})", fmt_opt(prev), new), ">S2".into(), &self.prog.set[2])
    }

    #[on_update(map_zero)]
    fn up0(
        &self,
        ctx: HandlerContext<Ag>,
        _map: &HashMap<i64, i64>,
        key: i64,
        prev: Option<i64>,
        new: &i64,
    ) -> impl EventHandler<Ag> {
        self.bracket(ctx, format!("<U0.{}({},{})", key, fmt_opt(prev), new), ">U0".into(), &self.prog.upd[0])
    }
    #[on_remove(map_zero)]
    fn rm0(&self, ctx: HandlerContext<Ag>, _map: &HashMap<i64, i64>, key: i64, prev: i64) -> impl EventHandler<Ag> {
        self.bracket(ctx, format!("<R0.{}({})", key, prev), ">R0".into(), &self.prog.rem[0])
    }
    #[on_clear(map_zero)]
    fn cl0(&self, ctx: HandlerContext<Ag>, before: HashMap<i64, i64>) -> impl EventHandler<Ag> {
        self.bracket(ctx, format!("<X0{}", fmt_map(&before)), ">X0".into(), &self.prog.clr[0])
    }
    #[on_update(m1)]
    fn up1(
        &self,
        ctx: HandlerContext<Ag>,
        _map: &HashMap<i64, i64>,
        key: i64,
        prev: Option<i64>,
        new: &i64,
    ) -> impl EventHandler<Ag> {
        self.bracket(ctx, format!("<U1.{}({},{})", key, fmt_opt(prev), new), ">U1".into(), &self.prog.upd[1])
    }
    #[on_remove(m1)]
    fn rm1(&self, ctx: HandlerContext<Ag>, _map: &HashMap<i64, i64>, key: i64, prev: i64) -> impl EventHandler<Ag> {
        self.bracket(ctx, format!("<R1.{}({})", key, prev), ">R1".into(), &self.prog.rem[1])
    }
    #[on_clear(m1)]
    fn cl1(&self, ctx: HandlerContext<Ag>, before: HashMap<i64, i64>) -> impl EventHandler<Ag> {
        self.bracket(ctx, format!("<X1{}", fmt_map(&before)), ">X1".into(), &self.prog.clr[1])
    }
}

// ------------------------------------------------------------------------------------------------ E2E rigs

const NODE: &str = "/node";

/// A request of the runtime side.
#[derive(Clone, Debug)]
enum Req {
    Cmd(String),
    VSet(usize, i64),
    MUpd(usize, i64, i64),
    MRem(usize, i64),
    MClr(usize),
    MDrop(usize, u64),
    MTake(usize, u64),
    VSync(usize),
    MSync(usize),
}

type Io = (ByteWriter, ByteReader);

/// The harness as the runtime (`agentd`): hands out the lanes' byte channels and keeps the other ends.
struct DirectCtx {
    lanes: Arc<Mutex<HashMap<String, Io>>>,
    keep: Arc<Mutex<Vec<ByteReader>>>,
}

impl AgentContext for DirectCtx {
    fn command_channel(&self) -> BoxFuture<'static, Result<ByteWriter, DownlinkRuntimeError>> {
        let (tx, rx) = byte_channel(nz(1 << 16));
        self.keep.lock().unwrap().push(rx);
        ready(Ok(tx)).boxed()
    }

    fn add_lane(
        &self,
        name: &str,
        _lane_kind: WarpLaneKind,
        config: LaneConfig,
    ) -> BoxFuture<'static, Result<Io, AgentRuntimeError>> {
        let (tx_in, rx_in) = byte_channel(config.input_buffer_size);
        let (tx_out, rx_out) = byte_channel(config.output_buffer_size);
        self.lanes.lock().unwrap().insert(name.to_string(), (tx_in, rx_out));
        ready(Ok((tx_out, rx_in))).boxed()
    }

    fn add_http_lane(&self, _name: &str) -> BoxFuture<'static, Result<HttpLaneRequestChannel, AgentRuntimeError>> {
        ready(Err(AgentRuntimeError::Terminated)).boxed()
    }

    fn open_downlink(
        &self,
        _host: Option<&str>,
        _node: &str,
        _lane: &str,
        _kind: DownlinkKind,
    ) -> BoxFuture<'static, Result<Io, DownlinkRuntimeError>> {
        ready(Err(DownlinkRuntimeError::RuntimeError(AgentRuntimeError::Terminated))).boxed()
    }

    fn add_store(&self, _name: &str, _kind: StoreKind) -> BoxFuture<'static, Result<Io, OpenStoreError>> {
        ready(Err(OpenStoreError::StoresNotSupported)).boxed()
    }
}

/// The runtime side of the `agent` rig: one remote attached to the real runtime task.
struct Full {
    task: Option<tokio::task::JoinHandle<Result<(), AgentExecError>>>,
    stop_tx: Option<trigger::Sender>,
    writer: Option<FramedWrite<ByteWriter, RawRequestMessageEncoder>>,
    remote: Uuid,
    _keep: Box<dyn std::any::Any>,
}

/// The runtime side of the `agentd` rig: the lanes' channels themselves.
struct Direct {
    task: Option<tokio::task::JoinHandle<Result<(), AgentTaskError>>>,
    vtx: HashMap<&'static str, FramedWrite<ByteWriter, ValueLaneRequestEncoder>>,
    mtx: HashMap<&'static str, FramedWrite<ByteWriter, MapLaneRequestEncoder>>,
    rx: HashMap<&'static str, ByteReader>,
    cap: usize,
    /// bytes read from the lanes' outputs (statistics only)
    read: usize,
}

enum Link {
    Full(Full),
    Direct(Direct),
    /// `on_start` failed: there is no agent task
    NoStart,
}

struct Rig {
    log: Log,
    probe: Log,
    link: Link,
    ended: Option<&'static str>,
}

async fn quiesce() {
    // paused clock: the timer fires only when every task of the runtime is idle
    tokio::time::sleep(Duration::from_millis(20)).await;
}

fn nz(n: usize) -> NonZeroUsize {
    NonZeroUsize::new(n).unwrap()
}

fn split_progs(progs: Vec<H>, log: &Log, probe: &Log) -> Lc {
    let mut it = progs.into_iter();
    let on_start = it.next().unwrap();
    let on_stop = it.next().unwrap();
    let mut ev = vec![];
    let mut set = vec![];
    for _ in 0..NV {
        ev.push(it.next().unwrap());
        set.push(it.next().unwrap());
    }
    let (mut upd, mut rem, mut clr) = (vec![], vec![], vec![]);
    for _ in 0..NM {
        upd.push(it.next().unwrap());
        rem.push(it.next().unwrap());
        clr.push(it.next().unwrap());
    }
    Lc { prog: Arc::new(Prog { on_start, on_stop, ev, set, upd, rem, clr }), log: log.clone(), probe: probe.clone() }
}

const LANE_IDS: [&str; NV + NM + 1] = ["v0", "v1", "v2", "m0", "m1", "cmd"];

/// Harness lane id (`v1`, `m0`, …) to external lane name.
fn ext_name(id: &str) -> Option<&'static str> {
    match id {
        "v0" => Some(VNAMES[0]),
        "v1" => Some(VNAMES[1]),
        "v2" => Some(VNAMES[2]),
        "m0" => Some(MNAMES[0]),
        "m1" => Some(MNAMES[1]),
        "cmd" => Some("cmd"),
        _ => None,
    }
}

impl Rig {
    async fn start(progs: Vec<H>) -> Rig {
        let log: Log = Default::default();
        let probe: Log = Default::default();
        let lc = split_progs(progs, &log, &probe);
        let agent = AgentModel::new(Ag::default, lc.into_lifecycle());
        let (att_tx, att_rx) = mpsc::channel(8);
        let (http_tx, http_rx) = mpsc::channel(8);
        let (link_tx, link_rx) = mpsc::channel(8);
        let (stop_tx, stop_rx) = trigger::trigger();
        let lane_conf = LaneConfig { input_buffer_size: nz(16384), output_buffer_size: nz(16384), transient: true };
        let config = CombinedAgentConfig {
            agent_config: AgentConfig { default_lane_config: Some(lane_conf), ..Default::default() },
            runtime_config: AgentRuntimeConfig {
                inactive_timeout: Duration::from_secs(100_000),
                prune_remote_delay: Duration::from_secs(100_000),
                ..Default::default()
            },
        };
        let fut = AgentRouteTask::new(
            &agent,
            AgentRouteDescriptor { identity: Uuid::from_u128(1), route: NODE.parse().unwrap(), route_params: HashMap::new() },
            AgentRouteChannels::new(att_rx, http_rx, link_tx),
            stop_rx,
            config,
            None,
        )
        .run_agent();
        let task = tokio::spawn(fut);
        let remote = Uuid::from_u128(77);
        let (out_tx, out_rx) = byte_channel(nz(65536));
        let (in_tx, in_rx) = byte_channel(nz(65536));
        let (done_tx, done_rx) = trigger::promise::promise::<DisconnectionReason>();
        let (att_done_tx, att_done_rx) = trigger::trigger();
        let mut full = Full { task: Some(task), stop_tx: Some(stop_tx), writer: None, remote, _keep: Box::new(()) };
        let req = AgentAttachmentRequest::with_confirmation(remote, (out_tx, in_rx), done_tx, att_done_tx);
        let attached = att_tx.send(req).await.is_ok() && att_done_rx.await.is_ok();
        if attached {
            full.writer = Some(FramedWrite::new(in_tx, RawRequestMessageEncoder));
        }
        // the remote never reads: keep the outgoing side alive and drain it in the background
        let drain = tokio::spawn(drain(out_rx));
        full._keep = Box::new((att_tx, http_tx, link_rx, done_rx, drain));
        quiesce().await;
        Rig { log, probe, link: Link::Full(full), ended: None }
    }

    /// The same agent, the harness being the runtime: lane outputs of capacity `cap`, read only by `rd`.
    async fn start_direct(cap: usize, progs: Vec<H>) -> Rig {
        let log: Log = Default::default();
        let probe: Log = Default::default();
        let lc = split_progs(progs, &log, &probe);
        let agent = AgentModel::new(Ag::default, lc.into_lifecycle());
        let lanes: Arc<Mutex<HashMap<String, Io>>> = Default::default();
        let keep: Arc<Mutex<Vec<ByteReader>>> = Default::default();
        let ctx = DirectCtx { lanes: lanes.clone(), keep };
        let lane_conf = LaneConfig { input_buffer_size: nz(16384), output_buffer_size: nz(cap), transient: true };
        let config = AgentConfig { default_lane_config: Some(lane_conf), ..Default::default() };
        // initialisation: lanes registered, `on_start` run
        let init = agent.run(NODE.parse().unwrap(), HashMap::new(), config, Box::new(ctx)).await;
        let task = match init {
            Ok(t) => tokio::spawn(t),
            Err(_) => return Rig { log, probe, link: Link::NoStart, ended: Some("nostart") },
        };
        let mut d = Direct { task: Some(task), vtx: HashMap::new(), mtx: HashMap::new(), rx: HashMap::new(), cap, read: 0 };
        {
            let mut g = lanes.lock().unwrap();
            for n in VNAMES.iter().chain(["cmd"].iter()) {
                if let Some((tx, rx)) = g.remove(*n) {
                    d.vtx.insert(*n, FramedWrite::new(tx, Default::default()));
                    d.rx.insert(*n, rx);
                }
            }
            for n in MNAMES.iter() {
                if let Some((tx, rx)) = g.remove(*n) {
                    d.mtx.insert(*n, FramedWrite::new(tx, Default::default()));
                    d.rx.insert(*n, rx);
                }
            }
        }
        quiesce().await;
        Rig { log, probe, link: Link::Direct(d), ended: None }
    }

    async fn send(&mut self, req: &Req) {
        match &mut self.link {
            Link::Full(f) => {
                let remote = f.remote;
                if let Some(w) = f.writer.as_mut() {
                    fn cmd(remote: Uuid, lane: &'static str, body: String) -> RequestMessage<&'static str, Bytes> {
                        RequestMessage::command(remote, RelativeAddress::new(NODE, lane), Bytes::from(body))
                    }
                    let msg: RequestMessage<&str, Bytes> = match req {
                        Req::Cmd(p) => cmd(remote, "cmd", format!("\"{}\"", p)),
                        Req::VSet(l, n) => cmd(remote, VNAMES[*l], n.to_string()),
                        Req::MUpd(m, k, n) => cmd(remote, MNAMES[*m], format!("@update(key:{}) {}", k, n)),
                        Req::MRem(m, k) => cmd(remote, MNAMES[*m], format!("@remove(key:{})", k)),
                        Req::MClr(m) => cmd(remote, MNAMES[*m], "@clear".into()),
                        Req::MDrop(m, n) => cmd(remote, MNAMES[*m], format!("@drop({})", n)),
                        Req::MTake(m, n) => cmd(remote, MNAMES[*m], format!("@take({})", n)),
                        Req::VSync(l) => RequestMessage::sync(remote, RelativeAddress::new(NODE, VNAMES[*l])),
                        Req::MSync(m) => RequestMessage::sync(remote, RelativeAddress::new(NODE, MNAMES[*m])),
                    };
                    if w.send(msg).await.is_err() {
                        f.writer = None;
                    }
                }
            }
            Link::Direct(d) => {
                let id = Uuid::from_u128(77);
                match req {
                    Req::Cmd(p) => {
                        if let Some(w) = d.vtx.get_mut("cmd") {
                            let _ = w.send(LaneRequest::Command(p.clone())).await;
                        }
                    }
                    Req::VSet(l, n) => {
                        if let Some(w) = d.vtx.get_mut(VNAMES[*l]) {
                            let _ = w.send(LaneRequest::Command(*n)).await;
                        }
                    }
                    Req::VSync(l) => {
                        if let Some(w) = d.vtx.get_mut(VNAMES[*l]) {
                            let _ = w.send(LaneRequest::<i64>::Sync(id)).await;
                        }
                    }
                    Req::MUpd(m, k, n) => {
                        if let Some(w) = d.mtx.get_mut(MNAMES[*m]) {
                            let _ = w.send(LaneRequest::Command(MapMessage::Update { key: *k, value: *n })).await;
                        }
                    }
                    Req::MRem(m, k) => {
                        if let Some(w) = d.mtx.get_mut(MNAMES[*m]) {
                            let _ = w.send(LaneRequest::Command(MapMessage::<i64, i64>::Remove { key: *k })).await;
                        }
                    }
                    Req::MClr(m) => {
                        if let Some(w) = d.mtx.get_mut(MNAMES[*m]) {
                            let _ = w.send(LaneRequest::Command(MapMessage::<i64, i64>::Clear)).await;
                        }
                    }
                    Req::MDrop(m, n) => {
                        if let Some(w) = d.mtx.get_mut(MNAMES[*m]) {
                            let _ = w.send(LaneRequest::Command(MapMessage::<i64, i64>::Drop(*n))).await;
                        }
                    }
                    Req::MTake(m, n) => {
                        if let Some(w) = d.mtx.get_mut(MNAMES[*m]) {
                            let _ = w.send(LaneRequest::Command(MapMessage::<i64, i64>::Take(*n))).await;
                        }
                    }
                    Req::MSync(m) => {
                        if let Some(w) = d.mtx.get_mut(MNAMES[*m]) {
                            let _ = w.send(LaneRequest::<MapMessage<i64, i64>>::Sync(id)).await;
                        }
                    }
                }
            }
            Link::NoStart => {}
        }
    }

    /// `rd`: `rounds` times, read what is available on the output of each of the lanes, letting the agent run in between.
    async fn read_outputs(&mut self, lanes: &[&'static str], rounds: usize) {
        use tokio::io::AsyncReadExt;
        if let Link::Direct(d) = &mut self.link {
            let mut buf = vec![0u8; d.cap.min(4096)];
            for _ in 0..rounds {
                let mut any = false;
                for n in lanes {
                    if let Some(rx) = d.rx.get_mut(n) {
                        if let Ok(Ok(k)) = tokio::time::timeout(Duration::from_millis(1), rx.read(&mut buf)).await {
                            d.read += k;
                            any |= k > 0;
                        }
                    }
                }
                quiesce().await;
                if !any {
                    break;
                }
            }
        }
    }

    fn take_log(&self) -> Vec<String> {
        std::mem::take(&mut *self.log.lock().unwrap())
    }

    /// Ask the agent for its lane values through the command lane; `None` when it no longer answers.
    async fn snapshot(&mut self) -> Option<String> {
        self.probe.lock().unwrap().clear();
        self.send(&Req::Cmd("probe".into())).await;
        quiesce().await;
        let p = std::mem::take(&mut *self.probe.lock().unwrap());
        if p.len() == NV + NM {
            Some(format!("v={} m0={} m1={}", p[..NV].join(","), p[NV], p[NV + 1]))
        } else {
            None
        }
    }

    /// Output of one op: status, trace, state.
    async fn report(&mut self) -> String {
        let trace = self.take_log();
        let snap = self.snapshot().await;
        let extra = self.take_log();
        let mut all = trace;
        all.extend(extra);
        let status = match &snap {
            Some(_) => "alive",
            None => self.finish().await,
        };
        // anything logged while shutting down (on_stop)
        all.extend(self.take_log());
        let t = if all.is_empty() { "-".to_string() } else { all.join(" ") };
        format!("{} {} | {}", status, t, snap.unwrap_or_else(|| "-".into()))
    }

    /// Stop (or collect the result of) the agent task.
    async fn finish(&mut self) -> &'static str {
        if let Some(e) = self.ended {
            return e;
        }
        let r = match &mut self.link {
            Link::Full(f) => {
                if let Some(tx) = f.stop_tx.take() {
                    tx.trigger();
                }
                f.writer = None;
                match f.task.take() {
                    Some(t) => match tokio::time::timeout(Duration::from_secs(1_000_000), t).await {
                        Ok(Ok(Ok(()))) => "stopped",
                        Ok(Ok(Err(AgentExecError::FailedInit(_)))) => "nostart",
                        Ok(Ok(Err(_))) => "failed",
                        Ok(Err(_)) => "panic",
                        Err(_) => "hang",
                    },
                    None => "dead",
                }
            }
            Link::Direct(d) => {
                // the runtime closes the inputs of all lanes: the agent leaves its loop and runs `on_stop`
                d.vtx.clear();
                d.mtx.clear();
                match d.task.take() {
                    Some(t) => match tokio::time::timeout(Duration::from_secs(1_000_000), t).await {
                        Ok(Ok(Ok(()))) => "stopped",
                        Ok(Ok(Err(_))) => "failed",
                        Ok(Err(_)) => "panic",
                        Err(_) => "hang",
                    },
                    None => "dead",
                }
            }
            Link::NoStart => "nostart",
        };
        self.ended = Some(r);
        r
    }
}

async fn drain(mut rx: ByteReader) {
    use tokio::io::AsyncReadExt;
    let mut buf = [0u8; 4096];
    loop {
        match rx.read(&mut buf).await {
            Ok(0) | Err(_) => break,
            _ => {}
        }
    }
}

fn lane_cmd(parts: &[&str]) -> Option<Req> {
    let num = |s: &str, lim: i64| s.parse::<i64>().ok().filter(|n| *n >= 0 && *n < lim && !s.starts_with('+'));
    let int = |s: &str| s.parse::<i64>().ok().filter(|_| !s.starts_with('+'));
    match parts {
        ["cmd", p] => parse_h(p).map(|_| Req::Cmd(p.to_string())),
        ["vset", l, n] => Some(Req::VSet(num(l, NV as i64)? as usize, int(n)?)),
        ["mupd", m, k, n] => Some(Req::MUpd(num(m, NM as i64)? as usize, num(k, 100)?, int(n)?)),
        ["mrem", m, k] => Some(Req::MRem(num(m, NM as i64)? as usize, num(k, 100)?)),
        ["mdrop", m, n] => Some(Req::MDrop(num(m, NM as i64)? as usize, num(n, 100)? as u64)),
        ["mtake", m, n] => Some(Req::MTake(num(m, NM as i64)? as usize, num(n, 100)? as u64)),
        ["mclr", m] => Some(Req::MClr(num(m, NM as i64)? as usize)),
        ["vsync", l] => Some(Req::VSync(num(l, NV as i64)? as usize)),
        ["msync", m] => Some(Req::MSync(num(m, NM as i64)? as usize)),
        _ => None,
    }
}

async fn run_case_async(ops: &[String]) -> Vec<String> {
    let mut outs = vec![];
    let mut rig: Option<Rig> = None;
    for op in ops {
        let parts: Vec<&str> = op.split_whitespace().collect();
        let out = match parts.as_slice() {
            ["agent", progs @ ..] if progs.len() == 2 + 2 * NV + 3 * NM => {
                let ps: Option<Vec<H>> = progs.iter().map(|p| parse_h(p)).collect();
                match ps {
                    Some(ps) => {
                        if let Some(mut old) = rig.take() {
                            old.finish().await;
                        }
                        let mut r = Rig::start(ps).await;
                        let o = r.report().await;
                        rig = Some(r);
                        o
                    }
                    None => "bad-op".into(),
                }
            }
            ["agentd", cap, progs @ ..] if progs.len() == 2 + 2 * NV + 3 * NM => {
                let ps: Option<Vec<H>> = progs.iter().map(|p| parse_h(p)).collect();
                let cap = cap
                    .parse::<usize>()
                    .ok()
                    .filter(|c| *c >= 1 && *c <= 1 << 20 && cap.chars().all(|ch| ch.is_ascii_digit()));
                match (ps, cap) {
                    (Some(ps), Some(cap)) => {
                        if let Some(mut old) = rig.take() {
                            old.finish().await;
                        }
                        let mut r = Rig::start_direct(cap, ps).await;
                        let o = r.report().await;
                        rig = Some(r);
                        o
                    }
                    _ => "bad-op".into(),
                }
            }
            ["stop"] => match rig.as_mut() {
                Some(r) if r.ended.is_none() => {
                    r.take_log();
                    let st = r.finish().await;
                    let all = r.take_log();
                    format!("{} {} | -", st, if all.is_empty() { "-".to_string() } else { all.join(" ") })
                }
                Some(_) => "dead".into(),
                None => "bad-op".into(),
            },
            ["rd", lane, k] => {
                let lanes: Option<Vec<&'static str>> = if *lane == "all" {
                    Some(LANE_IDS.iter().filter_map(|l| ext_name(l)).collect())
                } else {
                    ext_name(lane).map(|n| vec![n])
                };
                let k = k.parse::<usize>().ok().filter(|n| *n <= 1000 && k.chars().all(|ch| ch.is_ascii_digit()));
                match (rig.as_mut(), lanes, k) {
                    (Some(r), Some(lanes), Some(k)) if r.ended.is_none() => {
                        r.read_outputs(&lanes, k).await;
                        quiesce().await;
                        r.report().await
                    }
                    (Some(_), Some(_), Some(_)) => "dead".into(),
                    _ => "bad-op".into(),
                }
            }
            ["burst", items @ ..] => {
                // validate the whole burst before anything is sent
                let reqs: Option<Vec<Req>> =
                    items.iter().map(|it| lane_cmd(&it.split(':').collect::<Vec<&str>>())).collect();
                match (rig.as_mut(), reqs) {
                    (Some(r), Some(reqs)) if r.ended.is_none() => {
                        for req in reqs {
                            r.send(&req).await;
                        }
                        quiesce().await;
                        r.report().await
                    }
                    (Some(_), Some(_)) => "dead".into(),
                    _ => "bad-op".into(),
                }
            }
            other => match (rig.as_mut(), lane_cmd(other)) {
                (Some(r), Some(req)) if r.ended.is_none() => {
                    r.send(&req).await;
                    quiesce().await;
                    r.report().await
                }
                (Some(_), Some(_)) => "dead".into(),
                _ => "bad-op".into(),
            },
        };
        outs.push(out);
    }
    if let Some(mut r) = rig.take() {
        r.finish().await;
    }
    outs
}

fn run_case(t: &mut Trace, ops: &[String]) {
    let ops2 = ops.to_vec();
    let res = std::panic::catch_unwind(move || {
        let rt = tokio::runtime::Builder::new_current_thread().enable_all().start_paused(true).build().unwrap();
        rt.block_on(run_case_async(&ops2))
    });
    match res {
        Ok(outs) => {
            for (op, o) in ops.iter().zip(outs) {
                t.op(op, o);
            }
        }
        Err(_) => {
            for op in ops {
                t.op(op, "panic");
            }
        }
    }
}

// ------------------------------------------------------------------------------------------------ generator

struct Gen {
    rng: Rng,
    susp: bool,
}

impl Gen {
    /// A handler that may modify only value lanes >= `vmin` and map lanes >= `mmin` (acyclic by construction:
    /// the handlers of value lane l get (l+1, 0); those of map lane m get (NV, m+1)).
    fn h(&mut self, depth: u64, vmin: usize, mmin: usize, top: bool) -> String {
        let r = self.rng.below(100);
        if depth == 0 || r < 38 {
            return self.leaf(vmin, mmin, top);
        }
        let d = depth - 1;
        match self.rng.below(100) {
            0..=24 => format!("F({},{})", self.h(d, vmin, mmin, top), self.h(d, vmin, mmin, top)),
            25..=39 => format!("A({},{})", self.h(d, vmin, mmin, top), self.h(d, vmin, mmin, top)),
            40..=69 => {
                let n = self.rng.below(5);
                let hs: Vec<String> = (0..n).map(|_| self.h(d, vmin, mmin, top)).collect();
                format!("Q[{}]", hs.join(","))
            }
            70..=77 => format!("L({})", self.h(d, vmin, mmin, top)),
            78..=85 => format!("R({})", self.h(d, vmin, mmin, top)),
            86..=92 => format!("O({})", self.h(d, vmin, mmin, top)),
            _ => {
                if self.susp && top {
                    format!("Z({})", self.h(d, vmin, mmin, false))
                } else {
                    format!("O({})", self.h(d, vmin, mmin, top))
                }
            }
        }
    }

    fn leaf(&mut self, vmin: usize, mmin: usize, _top: bool) -> String {
        let val = self.rng.range(0, 40) as i64 - 10;
        // key order 1 < 2 < 10, text order "1" < "10" < "2"
        let key = *self.rng.pick(&KEYS);
        for _ in 0..8 {
            match self.rng.below(100) {
                0..=17 => return format!("e{}", self.rng.below(10)),
                18..=27 => return format!("g{}", self.rng.below(NV as u64)),
                28..=33 => return format!("q{}.{}", self.rng.below(NM as u64), key),
                34..=35 => return format!("y{}.{}", self.rng.below(NM as u64), key),
                36..=55 if vmin < NV => return format!("s{}={}", self.rng.range(vmin as u64, NV as u64 - 1), val),
                56..=64 if vmin < NV => {
                    let k = self.rng.range(0, 6) as i64 - 3;
                    return format!(
                        "c{}{}{}{}",
                        self.rng.below(NV as u64),
                        self.rng.range(vmin as u64, NV as u64 - 1),
                        if k < 0 { '-' } else { '+' },
                        k.abs()
                    );
                }
                65..=73 if mmin < NM => return format!("u{}.{}={}", self.rng.range(mmin as u64, NM as u64 - 1), key, val),
                74..=79 if mmin < NM => {
                    let x = match self.rng.below(4) {
                        0 => Xf::Inc(val),
                        1 => Xf::Del,
                        2 => Xf::Bump(val),
                        _ => Xf::Flip(val),
                    };
                    return format!("t{}.{}{}", self.rng.range(mmin as u64, NM as u64 - 1), key, x.text());
                }
                80..=87 if mmin < NM => return format!("r{}.{}", self.rng.range(mmin as u64, NM as u64 - 1), key),
                88..=91 if mmin < NM => return format!("x{}", self.rng.range(mmin as u64, NM as u64 - 1)),
                92..=93 => return "N".into(),
                94..=96 => return "!".into(),
                97 => return "$".into(),
                _ => {}
            }
        }
        format!("e{}", self.rng.below(10))
    }

    fn lifecycle_h(&mut self, vmin: usize, mmin: usize) -> String {
        // lane handlers are small most of the time, so that cascades stay readable but do nest
        let d = if self.rng.chance(1, 3) { 0 } else { self.rng.range(1, 3) };
        if self.rng.chance(1, 4) {
            "Q[]".into()
        } else {
            self.h(d, vmin, mmin, true)
        }
    }

    fn agent(&mut self) -> String {
        let mut ps = vec![];
        // on_start / on_stop: mostly harmless (a failing on_start ends the case at once)
        let start = if self.rng.chance(1, 12) { self.h(2, 0, 0, true) } else { self.safe(2) };
        ps.push(start);
        let d = self.rng.range(0, 3);
        ps.push(self.h(d, 0, 0, false));
        for l in 0..NV {
            ps.push(self.lifecycle_h(l + 1, 0));
            ps.push(self.lifecycle_h(l + 1, 0));
        }
        for m in 0..NM {
            for _ in 0..3 {
                ps.push(self.lifecycle_h(NV, m + 1));
            }
        }
        format!("agent {}", ps.join(" "))
    }

    /// No fail / stop.
    fn safe(&mut self, depth: u64) -> String {
        for _ in 0..20 {
            let s = self.h(depth, 0, 0, true);
            if !s.contains('!') && !s.contains('$') {
                return s;
            }
        }
        "e0".into()
    }

    fn op(&mut self, depth: u64) -> String {
        if self.rng.chance(1, 60) {
            // malformed program text / out-of-range lanes: rejected by both sides before anything runs
            return (*self.rng.pick(&[
                "cmd F(e1", "cmd s7=1", "cmd Q[e1,]", "cmd u2.1=5", "vset 3 1", "mupd 0 x 1", "cmd", "vsync 3", "msync 2", "mdrop 2 1", "mtake 0 x", "cmd t0.1", "cmd t0.100i1",
                "rd v3 1", "rd all x",
            ]))
            .to_string();
        }
        match self.rng.below(100) {
            0..=63 => format!("cmd {}", self.h(depth, 0, 0, true)),
            64..=73 => format!("vset {} {}", self.rng.below(NV as u64), self.rng.range(0, 30)),
            74..=82 => format!("mupd {} {} {}", self.rng.below(NM as u64), self.rng.pick(&KEYS), self.rng.range(0, 30)),
            83..=86 => format!("mrem {} {}", self.rng.below(NM as u64), self.rng.pick(&KEYS)),
            87..=89 => format!(
                "{} {} {}",
                if self.rng.chance(1, 2) { "mdrop" } else { "mtake" },
                self.rng.below(NM as u64),
                self.rng.below(4)
            ),
            90..=92 => format!("mclr {}", self.rng.below(NM as u64)),
            93..=96 => format!("vsync {}", self.rng.below(NV as u64)),
            _ => format!("msync {}", self.rng.below(NM as u64)),
        }
    }

    /// `rd`: a few rounds on one lane, or (often) enough rounds on all lanes to drain everything.
    fn rd(&mut self, hot_v: u64, hot_m: u64) -> String {
        match self.rng.below(10) {
            0..=3 => format!("rd v{} {}", hot_v, self.rng.range(1, 8)),
            4..=5 => format!("rd m{} {}", hot_m, self.rng.range(1, 8)),
            6 => format!("rd {} {}", self.rng.pick(&LANE_IDS), self.rng.range(1, 8)),
            _ => format!("rd all {}", self.rng.range(1, 60)),
        }
    }

    /// Ops of a case of the `agentd` rig: requests and sync requests concentrated on one value lane and one map
    /// lane, so that updates and syncs queue up behind a write the harness has not read yet.
    fn slow_ops(&mut self, burst: bool) -> Vec<String> {
        let hot_v = self.rng.below(NV as u64);
        let hot_m = self.rng.below(NM as u64);
        let mut ops = vec![];
        let n = self.rng.range(2, 7);
        for _ in 0..n {
            let vl = if self.rng.chance(3, 4) { hot_v } else { self.rng.below(NV as u64) };
            let ml = if self.rng.chance(3, 4) { hot_m } else { self.rng.below(NM as u64) };
            let val = self.rng.range(0, 30);
            let mut one = |g: &mut Gen| -> String {
                match g.rng.below(100) {
                    0..=29 => format!("vset {} {}", vl, g.rng.range(0, 30)),
                    30..=49 => format!("vsync {}", vl),
                    50..=61 => format!("mupd {} {} {}", ml, g.rng.pick(&KEYS), g.rng.range(0, 30)),
                    62..=66 => format!("mclr {}", ml),
                    67..=74 => format!("msync {}", ml),
                    _ => {
                        let d = g.rng.range(1, 3);
                        format!("cmd {}", g.h(d, 0, 0, true))
                    }
                }
            };
            if burst {
                let k = self.rng.range(2, 5);
                let items: Vec<String> = (0..k).map(|_| one(self).replace(' ', ":")).collect();
                ops.push(format!("burst {}", items.join(" ")));
                if self.rng.chance(1, 2) {
                    ops.push(self.rd(hot_v, hot_m));
                }
            } else {
                match self.rng.below(100) {
                    0..=54 => ops.push(one(self)),
                    55..=57 => ops.push(format!("mrem {} {}", ml, self.rng.pick(&KEYS))),
                    58..=59 => ops.push(format!(
                        "{} {} {}",
                        if self.rng.chance(1, 2) { "mdrop" } else { "mtake" },
                        ml,
                        self.rng.below(4)
                    )),
                    60..=81 => ops.push(self.rd(hot_v, hot_m)),
                    _ => {
                        // an update being written, then a sync request and another update, then the runtime reads
                        ops.push(format!("vset {} {}", vl, val));
                        if self.rng.chance(1, 2) {
                            ops.push(format!("vsync {}", vl));
                            ops.push(format!("vset {} {}", vl, val + 1));
                        } else {
                            ops.push(format!("vset {} {}", vl, val + 1));
                            ops.push(format!("vsync {}", vl));
                        }
                        ops.push(format!("rd v{} {}", vl, self.rng.range(1, 40)));
                    }
                }
            }
        }
        if self.rng.chance(2, 3) {
            ops.push(format!("rd all {}", self.rng.range(1, 80)));
        }
        ops
    }
}

fn main() {
    match parse_args() {
        Mode::Gen { seed, cases, out } => {
            let mut t = Trace::create(&out);
            let extra: Vec<String> = std::env::args().skip(5).collect();
            let kind = extra.first().map(|s| s.as_str()).unwrap_or("seq");
            let burst = kind == "burst" || kind == "slowburst";
            let slow = kind == "slow" || kind == "slowburst";
            let mut g = Gen { rng: Rng::new(seed), susp: true };
            for c in 0..cases {
                let mut ops = vec![];
                if slow {
                    // mostly output channels smaller than one frame: a write completes only when the harness reads
                    let cap = *g.rng.pick(&[1usize, 4, 4, 8, 8, 12, 16, 16, 24, 32, 48, 64, 65536]);
                    ops.push(g.agent().replacen("agent", &format!("agentd {}", cap), 1));
                    ops.extend(g.slow_ops(burst));
                } else {
                    ops.push(g.agent());
                    let n = g.rng.range(1, 6);
                    for _ in 0..n {
                        let depth = g.rng.range(1, 6);
                        if burst {
                            let k = g.rng.range(2, 5);
                            // a remove of an absent key leaves no trace: its position among requests to other lanes
                            // could not be recovered by the monitor, so bursts do not contain `mrem`
                            let items: Vec<String> = (0..k)
                                .map(|_| loop {
                                    let o = g.op(depth.min(3));
                                    // (the same holds for a take/drop that removes nothing)
                                    if !o.starts_with("mrem")
                                        && !o.starts_with("rd")
                                        && !o.starts_with("mdrop")
                                        && !o.starts_with("mtake")
                                    {
                                        break o.replace(' ', ":");
                                    }
                                })
                                .collect();
                            ops.push(format!("burst {}", items.join(" ")));
                        } else {
                            ops.push(g.op(depth));
                        }
                    }
                }
                if !burst && g.rng.chance(1, 5) {
                    // a map with several entries, then a take/drop: removals (and their handlers) in key order
                    let m = g.rng.below(NM as u64);
                    let mut ks = KEYS.to_vec();
                    for i in (1..ks.len()).rev() {
                        ks.swap(i, g.rng.below(i as u64 + 1) as usize);
                    }
                    let cnt = g.rng.range(2, 3) as usize;
                    for k in ks.iter().take(cnt) {
                        ops.push(format!("mupd {} {} {}", m, k, g.rng.range(0, 30)));
                    }
                    let kind = if g.rng.chance(1, 2) { "mdrop" } else { "mtake" };
                    ops.push(format!("{} {} {}", kind, m, g.rng.below(3)));
                }
                if g.rng.chance(3, 4) {
                    ops.push("stop".into());
                }
                t.case(format!("{} seed={}", c, seed));
                run_case(&mut t, &ops);
            }
            t.finish();
        }
        Mode::Replay { ops, out } => {
            let mut t = Trace::create(&out);
            for (i, c) in ops.iter().enumerate() {
                t.case(format!("replay {}", i));
                run_case(&mut t, c);
            }
            t.finish();
        }
    }
}
