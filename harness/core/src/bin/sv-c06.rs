//! C06 correspondence / monitor harness: generated handler programs interpreted into REAL event handlers
//! (public `HandlerContext` / `HandlerActionExt` API, boxed) attached to a derived agent + lifecycle, executed by
//! the REAL agent task (`AgentModel` run by `AgentRouteTask::run_agent`, i.e. `run_handler` + the agent main loop)
//! with commands injected from the runtime side through a remote's byte channel.
//!
//! Program text (one token, no blanks):
//!   e7 effect | g0 get value lane & record | c01+5 get v0 and_then set v1 := v+5 | s0=5 set | u0.1=5 map update |
//!   r0.1 remove | x0 clear | q0.1 get entry & record | F(a,b) followed_by | A(a,b) and_then | Q[a,b,..] Sequentially |
//!   L(a) R(a) Either | N / O(a) Option.discard | ! fail | $ stop | Z(a) suspend
//! Every modifying primitive is preceded by an effect recording the intent (`ws0=5`, `wu0.1=5`, `wr0.1`, `wx0`, `w!`,
//! `w$`) so that the monitor can decide the property on the trace alone.
//!
//! Ops: `agent <14 programs>` | `cmd <prog>` | `vset l n` | `mupd m k n` | `mrem m k` | `mclr m` | `burst a;b;..` | `stop`
use std::collections::HashMap;
use std::num::NonZeroUsize;
use std::sync::{Arc, Mutex};
use std::time::Duration;

use bytes::Bytes;
use futures::SinkExt;
use svh::{parse_args, Mode, Rng, Trace};
use swimos::agent::agent_lifecycle::HandlerContext;
use swimos::agent::agent_model::AgentModel;
use swimos::agent::event_handler::{Either, EventHandler, HandlerActionExt, LocalBoxEventHandler, Sequentially};
use swimos::agent::lanes::{CommandLane, MapLane, ValueLane};
use swimos::agent::{lifecycle, projections, AgentLaneModel};
use swimos_api::address::RelativeAddress;
use swimos_api::agent::{AgentConfig, LaneConfig};
use swimos_messages::protocol::{RawRequestMessageEncoder, RequestMessage};
use swimos_runtime::agent::{
    AgentAttachmentRequest, AgentExecError, AgentRouteChannels, AgentRouteDescriptor, AgentRouteTask,
    AgentRuntimeConfig, CombinedAgentConfig, DisconnectionReason,
};
use swimos_utilities::byte_channel::{byte_channel, ByteReader, ByteWriter};
use swimos_utilities::trigger;
use tokio::sync::mpsc;
use tokio_util::codec::FramedWrite;
use uuid::Uuid;

// ------------------------------------------------------------------------------------------------ program text

#[derive(Clone, Debug, PartialEq)]
enum H {
    Emit(String),
    GetLog(usize),
    Copy(usize, usize, i64),
    SetRaw(usize, i64),
    UpdRaw(usize, i64, i64),
    RemRaw(usize, i64),
    ClrRaw(usize),
    MGetLog(usize, i64),
    Fby(Box<H>, Box<H>),
    AndThen(Box<H>, Box<H>),
    Seq(Vec<H>),
    Left(Box<H>),
    Right(Box<H>),
    OptNone,
    OptSome(Box<H>),
    FailRaw,
    StopRaw,
    Suspend(Box<H>),
}

fn fby(a: H, b: H) -> H {
    H::Fby(Box::new(a), Box::new(b))
}

/// The intent-logging expansion of the modifying primitives (identical in the Lean parser).
fn set_h(l: usize, n: i64) -> H {
    fby(H::Emit(format!("ws{}={}", l, n)), H::SetRaw(l, n))
}

struct P<'a> {
    s: &'a [u8],
    i: usize,
}

impl<'a> P<'a> {
    fn peek(&self) -> Option<u8> {
        self.s.get(self.i).copied()
    }
    fn eat(&mut self, c: u8) -> Option<()> {
        if self.peek() == Some(c) {
            self.i += 1;
            Some(())
        } else {
            None
        }
    }
    fn digit(&mut self) -> Option<usize> {
        let c = self.peek()?;
        if c.is_ascii_digit() {
            self.i += 1;
            Some((c - b'0') as usize)
        } else {
            None
        }
    }
    fn vl(&mut self) -> Option<usize> {
        self.digit().filter(|l| *l < NV)
    }
    fn ml(&mut self) -> Option<usize> {
        self.digit().filter(|m| *m < NM)
    }
    fn nat(&mut self) -> Option<i64> {
        let mut n: i64 = 0;
        let mut any = false;
        while let Some(c) = self.peek() {
            if c.is_ascii_digit() {
                n = n.checked_mul(10)?.checked_add((c - b'0') as i64)?;
                self.i += 1;
                any = true;
            } else {
                break;
            }
        }
        if any {
            Some(n)
        } else {
            None
        }
    }
    fn int(&mut self) -> Option<i64> {
        if self.eat(b'-').is_some() {
            self.nat().map(|n| -n)
        } else {
            self.nat()
        }
    }
    fn h(&mut self, depth: usize) -> Option<H> {
        if depth == 0 {
            return None;
        }
        let c = self.peek()?;
        self.i += 1;
        match c {
            b'e' => self.nat().map(|n| H::Emit(format!("e{}", n))),
            b'g' => self.vl().map(H::GetLog),
            b'c' => {
                let s = self.vl()?;
                let d = self.vl()?;
                let neg = match self.peek()? {
                    b'+' => false,
                    b'-' => true,
                    _ => return None,
                };
                self.i += 1;
                let k = self.nat()?;
                Some(H::Copy(s, d, if neg { -k } else { k }))
            }
            b's' => {
                let l = self.vl()?;
                self.eat(b'=')?;
                let n = self.int()?;
                Some(set_h(l, n))
            }
            b'u' => {
                let m = self.ml()?;
                self.eat(b'.')?;
                let k = self.digit()? as i64;
                self.eat(b'=')?;
                let n = self.int()?;
                Some(fby(H::Emit(format!("wu{}.{}={}", m, k, n)), H::UpdRaw(m, k, n)))
            }
            b'r' => {
                let m = self.ml()?;
                self.eat(b'.')?;
                let k = self.digit()? as i64;
                Some(fby(H::Emit(format!("wr{}.{}", m, k)), H::RemRaw(m, k)))
            }
            b'x' => {
                let m = self.ml()?;
                Some(fby(H::Emit(format!("wx{}", m)), H::ClrRaw(m)))
            }
            b'q' => {
                let m = self.ml()?;
                self.eat(b'.')?;
                let k = self.digit()? as i64;
                Some(H::MGetLog(m, k))
            }
            b'F' | b'A' => {
                self.eat(b'(')?;
                let a = self.h(depth - 1)?;
                self.eat(b',')?;
                let b = self.h(depth - 1)?;
                self.eat(b')')?;
                Some(if c == b'F' { fby(a, b) } else { H::AndThen(Box::new(a), Box::new(b)) })
            }
            b'Q' => {
                self.eat(b'[')?;
                let mut hs = vec![];
                if self.eat(b']').is_some() {
                    return Some(H::Seq(hs));
                }
                loop {
                    hs.push(self.h(depth - 1)?);
                    if self.eat(b',').is_some() {
                        continue;
                    }
                    self.eat(b']')?;
                    return Some(H::Seq(hs));
                }
            }
            b'L' | b'R' | b'O' | b'Z' => {
                self.eat(b'(')?;
                let a = Box::new(self.h(depth - 1)?);
                self.eat(b')')?;
                Some(match c {
                    b'L' => H::Left(a),
                    b'R' => H::Right(a),
                    b'O' => H::OptSome(a),
                    _ => fby(H::Emit("wz".into()), H::Suspend(a)),
                })
            }
            b'N' => Some(H::OptNone),
            b'!' => Some(fby(H::Emit("w!".into()), H::FailRaw)),
            b'$' => Some(fby(H::Emit("w$".into()), H::StopRaw)),
            _ => None,
        }
    }
}

fn parse_h(s: &str) -> Option<H> {
    let mut p = P { s: s.as_bytes(), i: 0 };
    let h = p.h(64)?;
    if p.i == s.len() {
        Some(h)
    } else {
        None
    }
}

// ------------------------------------------------------------------------------------------------ the agent

const NV: usize = 3;
const NM: usize = 2;

#[projections]
#[derive(AgentLaneModel)]
struct Ag {
    v0: ValueLane<i64>,
    v1: ValueLane<i64>,
    v2: ValueLane<i64>,
    m0: MapLane<i64, i64>,
    m1: MapLane<i64, i64>,
    cmd: CommandLane<String>,
}

fn vlane(l: usize) -> fn(&Ag) -> &ValueLane<i64> {
    match l {
        0 => Ag::V0,
        1 => Ag::V1,
        _ => Ag::V2,
    }
}

fn mlane(m: usize) -> fn(&Ag) -> &MapLane<i64, i64> {
    match m {
        0 => Ag::M0,
        _ => Ag::M1,
    }
}

#[derive(Debug)]
struct UserErr;
impl std::fmt::Display for UserErr {
    fn fmt(&self, f: &mut std::fmt::Formatter<'_>) -> std::fmt::Result {
        write!(f, "generated failure")
    }
}
impl std::error::Error for UserErr {}

struct Prog {
    on_start: H,
    on_stop: H,
    ev: Vec<H>,
    set: Vec<H>,
    upd: Vec<H>,
    rem: Vec<H>,
    clr: Vec<H>,
}

type Log = Arc<Mutex<Vec<String>>>;

#[derive(Clone)]
struct Lc {
    prog: Arc<Prog>,
    log: Log,
    probe: Log,
}

type Hb = LocalBoxEventHandler<'static, Ag>;

fn fmt_opt(v: Option<i64>) -> String {
    v.map(|x| x.to_string()).unwrap_or_else(|| "-".into())
}

fn fmt_map(m: &HashMap<i64, i64>) -> String {
    let mut es: Vec<(i64, i64)> = m.iter().map(|(k, v)| (*k, *v)).collect();
    es.sort();
    let body: Vec<String> = es.iter().map(|(k, v)| format!("{}={}", k, v)).collect();
    format!("{{{}}}", body.join(","))
}

impl Lc {
    fn emit(&self, ctx: HandlerContext<Ag>, tok: String) -> Hb {
        let log = self.log.clone();
        ctx.effect(move || log.lock().unwrap().push(tok)).boxed_local()
    }

    /// Interpret program text into real handlers (every node is a real combinator of the public API).
    fn build(&self, ctx: HandlerContext<Ag>, h: &H) -> Hb {
        match h {
            H::Emit(t) => self.emit(ctx, t.clone()),
            H::GetLog(l) => {
                let l = *l;
                let log = self.log.clone();
                ctx.get_value(vlane(l))
                    .and_then(move |v: i64| ctx.effect(move || log.lock().unwrap().push(format!("g{}:{}", l, v))))
                    .boxed_local()
            }
            H::Copy(s, d, k) => {
                let (d, k) = (*d, *k);
                let me = self.clone();
                ctx.get_value(vlane(*s))
                    .and_then(move |v: i64| me.build(ctx, &set_h(d, v + k)))
                    .boxed_local()
            }
            H::SetRaw(l, n) => ctx.set_value(vlane(*l), *n).boxed_local(),
            H::UpdRaw(m, k, n) => ctx.update(mlane(*m), *k, *n).boxed_local(),
            H::RemRaw(m, k) => ctx.remove(mlane(*m), *k).boxed_local(),
            H::ClrRaw(m) => ctx.clear(mlane(*m)).boxed_local(),
            H::MGetLog(m, k) => {
                let (m, k) = (*m, *k);
                let log = self.log.clone();
                ctx.get_entry(mlane(m), k)
                    .and_then(move |v: Option<i64>| {
                        ctx.effect(move || log.lock().unwrap().push(format!("q{}.{}:{}", m, k, fmt_opt(v))))
                    })
                    .boxed_local()
            }
            H::Fby(a, b) => self.build(ctx, a).followed_by(self.build(ctx, b)).boxed_local(),
            H::AndThen(a, b) => {
                let me = self.clone();
                let b = (**b).clone();
                self.build(ctx, a).and_then(move |_: ()| me.build(ctx, &b)).boxed_local()
            }
            H::Seq(hs) => {
                let v: Vec<Hb> = hs.iter().map(|h| self.build(ctx, h)).collect();
                Sequentially::new(v).boxed_local()
            }
            H::Left(a) => Either::<Hb, Hb>::Left(self.build(ctx, a)).boxed_local(),
            H::Right(a) => Either::<Hb, Hb>::Right(self.build(ctx, a)).boxed_local(),
            H::OptNone => None::<Hb>.discard().boxed_local(),
            H::OptSome(a) => Some(self.build(ctx, a)).discard().boxed_local(),
            H::FailRaw => ctx.fail::<(), UserErr>(UserErr).boxed_local(),
            H::StopRaw => ctx.stop().boxed_local(),
            H::Suspend(a) => {
                let me = self.clone();
                let a = (**a).clone();
                ctx.suspend(async move { me.bracket(ctx, "<Z".into(), ">Z".into(), &a) }).boxed_local()
            }
        }
    }

    /// `Sequentially [effect(enter), body, effect(exit)]`
    fn bracket(&self, ctx: HandlerContext<Ag>, enter: String, exit: String, body: &H) -> Hb {
        let v: Vec<Hb> = vec![self.emit(ctx, enter), self.build(ctx, body), self.emit(ctx, exit)];
        Sequentially::new(v).boxed_local()
    }

    fn probe_handler(&self, ctx: HandlerContext<Ag>) -> Hb {
        let mut v: Vec<Hb> = vec![];
        for l in 0..NV {
            let p = self.probe.clone();
            v.push(
                ctx.get_value(vlane(l))
                    .and_then(move |x: i64| ctx.effect(move || p.lock().unwrap().push(x.to_string())))
                    .boxed_local(),
            );
        }
        for m in 0..NM {
            let p = self.probe.clone();
            v.push(
                ctx.get_map(mlane(m))
                    .and_then(move |x: HashMap<i64, i64>| ctx.effect(move || p.lock().unwrap().push(fmt_map(&x))))
                    .boxed_local(),
            );
        }
        Sequentially::new(v).boxed_local()
    }
}

#[lifecycle(Ag)]
impl Lc {
    #[on_start]
    fn on_start(&self, ctx: HandlerContext<Ag>) -> impl EventHandler<Ag> {
        self.bracket(ctx, "<T".into(), ">T".into(), &self.prog.on_start)
    }

    #[on_stop]
    fn on_stop(&self, ctx: HandlerContext<Ag>) -> impl EventHandler<Ag> {
        self.bracket(ctx, "<P".into(), ">P".into(), &self.prog.on_stop)
    }

    #[on_command(cmd)]
    fn on_cmd(&self, ctx: HandlerContext<Ag>, text: &String) -> impl EventHandler<Ag> {
        if text == "probe" {
            self.probe_handler(ctx)
        } else {
            match parse_h(text) {
                Some(h) => self.bracket(ctx, "<C".into(), ">C".into(), &h),
                None => self.emit(ctx, "bad-program".into()),
            }
        }
    }

    #[on_event(v0)]
    fn ev0(&self, ctx: HandlerContext<Ag>, new: &i64) -> impl EventHandler<Ag> {
        self.bracket(ctx, format!("<E0({})", new), ">E0".into(), &self.prog.ev[0])
    }
    #[on_set(v0)]
    fn set0(&self, ctx: HandlerContext<Ag>, new: &i64, prev: Option<i64>) -> impl EventHandler<Ag> {
        self.bracket(ctx, format!("<S0({},{})", fmt_opt(prev), new), ">S0".into(), &self.prog.set[0])
    }
    #[on_event(v1)]
    fn ev1(&self, ctx: HandlerContext<Ag>, new: &i64) -> impl EventHandler<Ag> {
        self.bracket(ctx, format!("<E1({})", new), ">E1".into(), &self.prog.ev[1])
    }
    #[on_set(v1)]
    fn set1(&self, ctx: HandlerContext<Ag>, new: &i64, prev: Option<i64>) -> impl EventHandler<Ag> {
        self.bracket(ctx, format!("<S1({},{})", fmt_opt(prev), new), ">S1".into(), &self.prog.set[1])
    }
    #[on_event(v2)]
    fn ev2(&self, ctx: HandlerContext<Ag>, new: &i64) -> impl EventHandler<Ag> {
        self.bracket(ctx, format!("<E2({})", new), ">E2".into(), &self.prog.ev[2])
    }
    #[on_set(v2)]
    fn set2(&self, ctx: HandlerContext<Ag>, new: &i64, prev: Option<i64>) -> impl EventHandler<Ag> {
        self.bracket(ctx, format!("<S2({},{})", fmt_opt(prev), new), ">S2".into(), &self.prog.set[2])
    }

    #[on_update(m0)]
    fn up0(
        &self,
        ctx: HandlerContext<Ag>,
        _map: &HashMap<i64, i64>,
        key: i64,
        prev: Option<i64>,
        new: &i64,
    ) -> impl EventHandler<Ag> {
        self.bracket(ctx, format!("<U0.{}({},{})", key, fmt_opt(prev), new), ">U0".into(), &self.prog.upd[0])
    }
    #[on_remove(m0)]
    fn rm0(&self, ctx: HandlerContext<Ag>, _map: &HashMap<i64, i64>, key: i64, prev: i64) -> impl EventHandler<Ag> {
        self.bracket(ctx, format!("<R0.{}({})", key, prev), ">R0".into(), &self.prog.rem[0])
    }
    #[on_clear(m0)]
    fn cl0(&self, ctx: HandlerContext<Ag>, before: HashMap<i64, i64>) -> impl EventHandler<Ag> {
        self.bracket(ctx, format!("<X0{}", fmt_map(&before)), ">X0".into(), &self.prog.clr[0])
    }
    #[on_update(m1)]
    fn up1(
        &self,
        ctx: HandlerContext<Ag>,
        _map: &HashMap<i64, i64>,
        key: i64,
        prev: Option<i64>,
        new: &i64,
    ) -> impl EventHandler<Ag> {
        self.bracket(ctx, format!("<U1.{}({},{})", key, fmt_opt(prev), new), ">U1".into(), &self.prog.upd[1])
    }
    #[on_remove(m1)]
    fn rm1(&self, ctx: HandlerContext<Ag>, _map: &HashMap<i64, i64>, key: i64, prev: i64) -> impl EventHandler<Ag> {
        self.bracket(ctx, format!("<R1.{}({})", key, prev), ">R1".into(), &self.prog.rem[1])
    }
    #[on_clear(m1)]
    fn cl1(&self, ctx: HandlerContext<Ag>, before: HashMap<i64, i64>) -> impl EventHandler<Ag> {
        self.bracket(ctx, format!("<X1{}", fmt_map(&before)), ">X1".into(), &self.prog.clr[1])
    }
}

// ------------------------------------------------------------------------------------------------ E2E rig

const NODE: &str = "/node";

struct Rig {
    log: Log,
    probe: Log,
    task: Option<tokio::task::JoinHandle<Result<(), AgentExecError>>>,
    stop_tx: Option<trigger::Sender>,
    writer: Option<FramedWrite<ByteWriter, RawRequestMessageEncoder>>,
    remote: Uuid,
    _keep: Box<dyn std::any::Any>,
    ended: Option<&'static str>,
}

async fn quiesce() {
    // paused clock: the timer fires only when every task of the runtime is idle
    tokio::time::sleep(Duration::from_millis(20)).await;
}

fn nz(n: usize) -> NonZeroUsize {
    NonZeroUsize::new(n).unwrap()
}

impl Rig {
    async fn start(progs: Vec<H>) -> Rig {
        let mut it = progs.into_iter();
        let on_start = it.next().unwrap();
        let on_stop = it.next().unwrap();
        let mut ev = vec![];
        let mut set = vec![];
        for _ in 0..NV {
            ev.push(it.next().unwrap());
            set.push(it.next().unwrap());
        }
        let (mut upd, mut rem, mut clr) = (vec![], vec![], vec![]);
        for _ in 0..NM {
            upd.push(it.next().unwrap());
            rem.push(it.next().unwrap());
            clr.push(it.next().unwrap());
        }
        let log: Log = Default::default();
        let probe: Log = Default::default();
        let lc = Lc {
            prog: Arc::new(Prog { on_start, on_stop, ev, set, upd, rem, clr }),
            log: log.clone(),
            probe: probe.clone(),
        };
        let agent = AgentModel::new(Ag::default, lc.into_lifecycle());
        let (att_tx, att_rx) = mpsc::channel(8);
        let (http_tx, http_rx) = mpsc::channel(8);
        let (link_tx, link_rx) = mpsc::channel(8);
        let (stop_tx, stop_rx) = trigger::trigger();
        let lane_conf = LaneConfig { input_buffer_size: nz(16384), output_buffer_size: nz(16384), transient: true };
        let config = CombinedAgentConfig {
            agent_config: AgentConfig { default_lane_config: Some(lane_conf), ..Default::default() },
            runtime_config: AgentRuntimeConfig {
                inactive_timeout: Duration::from_secs(100_000),
                prune_remote_delay: Duration::from_secs(100_000),
                ..Default::default()
            },
        };
        let fut = AgentRouteTask::new(
            &agent,
            AgentRouteDescriptor { identity: Uuid::from_u128(1), route: NODE.parse().unwrap(), route_params: HashMap::new() },
            AgentRouteChannels::new(att_rx, http_rx, link_tx),
            stop_rx,
            config,
            None,
        )
        .run_agent();
        let task = tokio::spawn(fut);
        let remote = Uuid::from_u128(77);
        let (out_tx, out_rx) = byte_channel(nz(65536));
        let (in_tx, in_rx) = byte_channel(nz(65536));
        let (done_tx, done_rx) = trigger::promise::promise::<DisconnectionReason>();
        let (att_done_tx, att_done_rx) = trigger::trigger();
        let mut rig = Rig {
            log,
            probe,
            task: Some(task),
            stop_tx: Some(stop_tx),
            writer: None,
            remote,
            _keep: Box::new(()),
            ended: None,
        };
        let req = AgentAttachmentRequest::with_confirmation(remote, (out_tx, in_rx), done_tx, att_done_tx);
        let attached = att_tx.send(req).await.is_ok() && att_done_rx.await.is_ok();
        if attached {
            rig.writer = Some(FramedWrite::new(in_tx, RawRequestMessageEncoder));
        }
        // the remote never reads: keep the outgoing side alive and drain it in the background
        let drain = tokio::spawn(drain(out_rx));
        rig._keep = Box::new((att_tx, http_tx, link_rx, done_rx, drain));
        quiesce().await;
        rig
    }

    async fn send(&mut self, lane: &str, body: String) {
        if let Some(w) = self.writer.as_mut() {
            let msg: RequestMessage<&str, Bytes> =
                RequestMessage::command(self.remote, RelativeAddress::new(NODE, lane), Bytes::from(body));
            if w.send(msg).await.is_err() {
                self.writer = None;
            }
        }
    }

    fn take_log(&self) -> Vec<String> {
        std::mem::take(&mut *self.log.lock().unwrap())
    }

    /// Ask the agent for its lane values through the command lane; `None` when it no longer answers.
    async fn snapshot(&mut self) -> Option<String> {
        self.probe.lock().unwrap().clear();
        self.send("cmd", "\"probe\"".into()).await;
        quiesce().await;
        let p = std::mem::take(&mut *self.probe.lock().unwrap());
        if p.len() == NV + NM {
            Some(format!("v={} m0={} m1={}", p[..NV].join(","), p[NV], p[NV + 1]))
        } else {
            None
        }
    }

    /// Output of one op: status, trace, state.
    async fn report(&mut self) -> String {
        let trace = self.take_log();
        let snap = self.snapshot().await;
        let extra = self.take_log();
        let mut all = trace;
        all.extend(extra);
        let status = match &snap {
            Some(_) => "alive",
            None => self.finish().await,
        };
        // anything logged while shutting down (on_stop)
        all.extend(self.take_log());
        let t = if all.is_empty() { "-".to_string() } else { all.join(" ") };
        format!("{} {} | {}", status, t, snap.unwrap_or_else(|| "-".into()))
    }

    /// Stop (or collect the result of) the agent task.
    async fn finish(&mut self) -> &'static str {
        if let Some(e) = self.ended {
            return e;
        }
        if let Some(tx) = self.stop_tx.take() {
            tx.trigger();
        }
        self.writer = None;
        let r = match self.task.take() {
            Some(t) => match tokio::time::timeout(Duration::from_secs(1_000_000), t).await {
                Ok(Ok(Ok(()))) => "stopped",
                Ok(Ok(Err(AgentExecError::FailedInit(_)))) => "nostart",
                Ok(Ok(Err(_))) => "failed",
                Ok(Err(_)) => "panic",
                Err(_) => "hang",
            },
            None => "dead",
        };
        self.ended = Some(r);
        r
    }
}

async fn drain(mut rx: ByteReader) {
    use tokio::io::AsyncReadExt;
    let mut buf = [0u8; 4096];
    loop {
        match rx.read(&mut buf).await {
            Ok(0) | Err(_) => break,
            _ => {}
        }
    }
}

fn lane_cmd(parts: &[&str]) -> Option<(String, String)> {
    let num = |s: &str, lim: i64| s.parse::<i64>().ok().filter(|n| *n >= 0 && *n < lim && !s.starts_with('+'));
    let int = |s: &str| s.parse::<i64>().ok().filter(|_| !s.starts_with('+'));
    match parts {
        ["cmd", p] => parse_h(p).map(|_| ("cmd".to_string(), format!("\"{}\"", p))),
        ["vset", l, n] => Some((format!("v{}", num(l, NV as i64)?), int(n)?.to_string())),
        ["mupd", m, k, n] => {
            Some((format!("m{}", num(m, NM as i64)?), format!("@update(key:{}) {}", num(k, 10)?, int(n)?)))
        }
        ["mrem", m, k] => Some((format!("m{}", num(m, NM as i64)?), format!("@remove(key:{})", num(k, 10)?))),
        ["mclr", m] => Some((format!("m{}", num(m, NM as i64)?), "@clear".into())),
        _ => None,
    }
}

async fn run_case_async(ops: &[String]) -> Vec<String> {
    let mut outs = vec![];
    let mut rig: Option<Rig> = None;
    for op in ops {
        let parts: Vec<&str> = op.split_whitespace().collect();
        let out = match parts.as_slice() {
            ["agent", progs @ ..] if progs.len() == 2 + 2 * NV + 3 * NM => {
                let ps: Option<Vec<H>> = progs.iter().map(|p| parse_h(p)).collect();
                match ps {
                    Some(ps) => {
                        if let Some(mut old) = rig.take() {
                            old.finish().await;
                        }
                        let mut r = Rig::start(ps).await;
                        let o = r.report().await;
                        rig = Some(r);
                        o
                    }
                    None => "bad-op".into(),
                }
            }
            ["stop"] => match rig.as_mut() {
                Some(r) if r.ended.is_none() => {
                    r.take_log();
                    let st = r.finish().await;
                    let all = r.take_log();
                    format!("{} {} | -", st, if all.is_empty() { "-".to_string() } else { all.join(" ") })
                }
                Some(_) => "dead".into(),
                None => "bad-op".into(),
            },
            ["burst", items @ ..] => {
                // validate the whole burst before anything is sent
                let reqs: Option<Vec<(String, String)>> =
                    items.iter().map(|it| lane_cmd(&it.split(':').collect::<Vec<&str>>())).collect();
                match (rig.as_mut(), reqs) {
                    (Some(r), Some(reqs)) if r.ended.is_none() => {
                        for (lane, body) in reqs {
                            r.send(&lane, body).await;
                        }
                        quiesce().await;
                        r.report().await
                    }
                    (Some(_), Some(_)) => "dead".into(),
                    _ => "bad-op".into(),
                }
            }
            other => match (rig.as_mut(), lane_cmd(other)) {
                (Some(r), Some((lane, body))) if r.ended.is_none() => {
                    r.send(&lane, body).await;
                    quiesce().await;
                    r.report().await
                }
                (Some(_), Some(_)) => "dead".into(),
                _ => "bad-op".into(),
            },
        };
        outs.push(out);
    }
    if let Some(mut r) = rig.take() {
        r.finish().await;
    }
    outs
}

fn run_case(t: &mut Trace, ops: &[String]) {
    let ops2 = ops.to_vec();
    let res = std::panic::catch_unwind(move || {
        let rt = tokio::runtime::Builder::new_current_thread().enable_all().start_paused(true).build().unwrap();
        rt.block_on(run_case_async(&ops2))
    });
    match res {
        Ok(outs) => {
            for (op, o) in ops.iter().zip(outs) {
                t.op(op, o);
            }
        }
        Err(_) => {
            for op in ops {
                t.op(op, "panic");
            }
        }
    }
}

// ------------------------------------------------------------------------------------------------ generator

struct Gen {
    rng: Rng,
    susp: bool,
}

impl Gen {
    /// A handler that may modify only value lanes >= `vmin` and map lanes >= `mmin` (acyclic by construction:
    /// the handlers of value lane l get (l+1, 0); those of map lane m get (NV, m+1)).
    fn h(&mut self, depth: u64, vmin: usize, mmin: usize, top: bool) -> String {
        let r = self.rng.below(100);
        if depth == 0 || r < 38 {
            return self.leaf(vmin, mmin, top);
        }
        let d = depth - 1;
        match self.rng.below(100) {
            0..=24 => format!("F({},{})", self.h(d, vmin, mmin, top), self.h(d, vmin, mmin, top)),
            25..=39 => format!("A({},{})", self.h(d, vmin, mmin, top), self.h(d, vmin, mmin, top)),
            40..=69 => {
                let n = self.rng.below(5);
                let hs: Vec<String> = (0..n).map(|_| self.h(d, vmin, mmin, top)).collect();
                format!("Q[{}]", hs.join(","))
            }
            70..=77 => format!("L({})", self.h(d, vmin, mmin, top)),
            78..=85 => format!("R({})", self.h(d, vmin, mmin, top)),
            86..=92 => format!("O({})", self.h(d, vmin, mmin, top)),
            _ => {
                if self.susp && top {
                    format!("Z({})", self.h(d, vmin, mmin, false))
                } else {
                    format!("O({})", self.h(d, vmin, mmin, top))
                }
            }
        }
    }

    fn leaf(&mut self, vmin: usize, mmin: usize, _top: bool) -> String {
        let val = self.rng.range(0, 40) as i64 - 10;
        let key = self.rng.below(3);
        for _ in 0..8 {
            match self.rng.below(100) {
                0..=17 => return format!("e{}", self.rng.below(10)),
                18..=27 => return format!("g{}", self.rng.below(NV as u64)),
                28..=35 => return format!("q{}.{}", self.rng.below(NM as u64), key),
                36..=55 if vmin < NV => return format!("s{}={}", self.rng.range(vmin as u64, NV as u64 - 1), val),
                56..=64 if vmin < NV => {
                    let k = self.rng.range(0, 6) as i64 - 3;
                    return format!(
                        "c{}{}{}{}",
                        self.rng.below(NV as u64),
                        self.rng.range(vmin as u64, NV as u64 - 1),
                        if k < 0 { '-' } else { '+' },
                        k.abs()
                    );
                }
                65..=79 if mmin < NM => return format!("u{}.{}={}", self.rng.range(mmin as u64, NM as u64 - 1), key, val),
                80..=87 if mmin < NM => return format!("r{}.{}", self.rng.range(mmin as u64, NM as u64 - 1), key),
                88..=91 if mmin < NM => return format!("x{}", self.rng.range(mmin as u64, NM as u64 - 1)),
                92..=93 => return "N".into(),
                94..=96 => return "!".into(),
                97 => return "$".into(),
                _ => {}
            }
        }
        format!("e{}", self.rng.below(10))
    }

    fn lifecycle_h(&mut self, vmin: usize, mmin: usize) -> String {
        // lane handlers are small most of the time, so that cascades stay readable but do nest
        let d = if self.rng.chance(1, 3) { 0 } else { self.rng.range(1, 3) };
        if self.rng.chance(1, 4) {
            "Q[]".into()
        } else {
            self.h(d, vmin, mmin, true)
        }
    }

    fn agent(&mut self) -> String {
        let mut ps = vec![];
        // on_start / on_stop: mostly harmless (a failing on_start ends the case at once)
        let start = if self.rng.chance(1, 12) { self.h(2, 0, 0, true) } else { self.safe(2) };
        ps.push(start);
        let d = self.rng.range(0, 3);
        ps.push(self.h(d, 0, 0, false));
        for l in 0..NV {
            ps.push(self.lifecycle_h(l + 1, 0));
            ps.push(self.lifecycle_h(l + 1, 0));
        }
        for m in 0..NM {
            for _ in 0..3 {
                ps.push(self.lifecycle_h(NV, m + 1));
            }
        }
        format!("agent {}", ps.join(" "))
    }

    /// No fail / stop.
    fn safe(&mut self, depth: u64) -> String {
        for _ in 0..20 {
            let s = self.h(depth, 0, 0, true);
            if !s.contains('!') && !s.contains('$') {
                return s;
            }
        }
        "e0".into()
    }

    fn op(&mut self, depth: u64) -> String {
        if self.rng.chance(1, 60) {
            // malformed program text / out-of-range lanes: rejected by both sides before anything runs
            return (*self.rng.pick(&["cmd F(e1", "cmd s7=1", "cmd Q[e1,]", "cmd u2.1=5", "vset 3 1", "mupd 0 x 1", "cmd"]))
                .to_string();
        }
        match self.rng.below(100) {
            0..=69 => format!("cmd {}", self.h(depth, 0, 0, true)),
            70..=79 => format!("vset {} {}", self.rng.below(NV as u64), self.rng.range(0, 30)),
            80..=89 => format!("mupd {} {} {}", self.rng.below(NM as u64), self.rng.below(3), self.rng.range(0, 30)),
            90..=95 => format!("mrem {} {}", self.rng.below(NM as u64), self.rng.below(3)),
            _ => format!("mclr {}", self.rng.below(NM as u64)),
        }
    }
}

fn main() {
    match parse_args() {
        Mode::Gen { seed, cases, out } => {
            let mut t = Trace::create(&out);
            let extra: Vec<String> = std::env::args().skip(5).collect();
            let burst = extra.first().map(|s| s.as_str()) == Some("burst");
            let mut g = Gen { rng: Rng::new(seed), susp: true };
            for c in 0..cases {
                let mut ops = vec![g.agent()];
                let n = g.rng.range(1, 6);
                for _ in 0..n {
                    let depth = g.rng.range(1, 6);
                    if burst {
                        let k = g.rng.range(2, 5);
                        // a remove of an absent key leaves no trace: its position among requests to other lanes
                        // could not be recovered by the monitor, so bursts do not contain `mrem`
                        let items: Vec<String> = (0..k)
                            .map(|_| loop {
                                let o = g.op(depth.min(3));
                                if !o.starts_with("mrem") {
                                    break o.replace(' ', ":");
                                }
                            })
                            .collect();
                        ops.push(format!("burst {}", items.join(" ")));
                    } else {
                        ops.push(g.op(depth));
                    }
                }
                if g.rng.chance(3, 4) {
                    ops.push("stop".into());
                }
                t.case(format!("{} seed={}", c, seed));
                run_case(&mut t, &ops);
            }
            t.finish();
        }
        Mode::Replay { ops, out } => {
            let mut t = Trace::create(&out);
            for (i, c) in ops.iter().enumerate() {
                t.case(format!("replay {}", i));
                run_case(&mut t, c);
            }
            t.finish();
        }
    }
}
