//! C14 (agent-sent commands, end to end): the REAL agent (`c14_agent.rs`: `SendCommand` and `Commander`s) on the REAL
//! runtime (`AgentRouteTask::run_agent`): the agent task's `command_buffer` / `CommandWriter`, the ad hoc channel
//! (`command_msg_buffer` bytes), the runtime's `external_links_task` (`CommanderIds::set_id` / `endpoint_for`,
//! `CommandOutput`, `try_open_new`) and the per-target channels, which the harness serves through
//! `LinkRequest::Commander` and reads with the real request decoder. Public API only.
//! Supersession of overwritable commands depends on tokio's scheduling: judged by the Lean monitor (`adh`) only.
//!
//! ops:  new <command_msg_buffer> <target-channel-capacity> | cmd <v> (a remote commands lane `cmd`; `!cmd` = do not
//!       let the runtime settle) | take <t> <n> | drain
//! out:  ok | got <t>:<value>,… | all <t>:<value>,…      (`<t>!<node>:<value>` if a frame on target t's channel is
//!       addressed to another node)
use std::collections::{BTreeMap, HashMap};
use std::num::NonZeroUsize;
use std::sync::{Arc, Mutex};
use std::time::Duration;

use bytes::Bytes;
use futures::{SinkExt, StreamExt};
use svh::{parse_args, Mode, Rng, Trace};
use swimos::agent::agent_model::AgentModel;
use swimos_api::address::RelativeAddress;
use swimos_api::agent::{AgentConfig, LaneConfig};
use swimos_messages::protocol::{Operation, RawRequestMessageDecoder, RawRequestMessageEncoder, RequestMessage};
use swimos_runtime::agent::{
    AgentAttachmentRequest, AgentRouteChannels, AgentRouteDescriptor, AgentRouteTask, AgentRuntimeConfig,
    CombinedAgentConfig, CommanderKey, CommanderRequest, DisconnectionReason, LinkRequest,
};
use swimos_utilities::byte_channel::{byte_channel, ByteReader, ByteWriter};
use swimos_utilities::trigger::{self, promise};
use tokio::sync::mpsc;
use tokio_util::codec::{FramedRead, FramedWrite};
use uuid::Uuid;

#[path = "../c14_agent.rs"]
mod c14_agent;
use c14_agent::{Log, TestAgent, TestLifecycle};

type TargetRx = FramedRead<ByteReader, RawRequestMessageDecoder>;
/// channels handed out for `LinkRequest::Commander`, by target number, in the order they were requested
type Targets = Arc<Mutex<BTreeMap<String, Vec<TargetRx>>>>;

struct Rig {
    tx: FramedWrite<ByteWriter, RawRequestMessageEncoder>,
    id: Uuid,
    targets: Targets,
    _rx: ByteReader,
    _completion: promise::Receiver<DisconnectionReason>,
}

impl Rig {
    async fn settle(&self) {
        tokio::time::sleep(Duration::from_millis(40)).await;
    }

    async fn take(&mut self, t: &str, max: usize) -> Vec<String> {
        let mut out = vec![];
        // take the readers out so that no lock is held across an await
        let mut rxs = self.targets.lock().unwrap().remove(t).unwrap_or_default();
        'outer: for rx in rxs.iter_mut() {
            while out.len() < max {
                match tokio::time::timeout(Duration::from_millis(2), rx.next()).await {
                    Ok(Some(Ok(msg))) => {
                        let node = msg.path.node.as_str().to_string();
                        let lane_ok = msg.path.lane.as_str() == "in";
                        let body = match msg.envelope {
                            Operation::Command(b) => String::from_utf8_lossy(b.as_ref()).to_string(),
                            _ => "not-a-command".to_string(),
                        };
                        if node == format!("/t{}", t) && lane_ok {
                            out.push(format!("{}:{}", t, body));
                        } else {
                            out.push(format!("{}!{}:{}", t, node.trim_start_matches("/t"), body));
                        }
                    }
                    Ok(Some(Err(_))) => {
                        out.push(format!("{}:decode-error", t));
                        break;
                    }
                    Ok(None) => break,
                    Err(_) => break 'outer,
                }
            }
        }
        // channels opened meanwhile come after the ones we hold
        let mut guard = self.targets.lock().unwrap();
        let newer = guard.remove(t).unwrap_or_default();
        rxs.extend(newer);
        guard.insert(t.to_string(), rxs);
        out
    }

    async fn exec(&mut self, op: &str) -> String {
        let (op, nosettle) = match op.strip_prefix('!') {
            Some(rest) => (rest, true),
            None => (op, false),
        };
        let p: Vec<&str> = op.split_whitespace().collect();
        match p.as_slice() {
            ["cmd", v] => {
                let path = RelativeAddress::new("/node", "cmd");
                let msg: RequestMessage<&str, Bytes> =
                    RequestMessage::command(self.id, path, Bytes::from(v.as_bytes().to_vec()));
                let _ = tokio::time::timeout(Duration::from_secs(5), self.tx.send(msg)).await;
                if !nosettle {
                    self.settle().await;
                }
                "ok".into()
            }
            ["take", t, n] => {
                let f = self.take(t, n.parse().unwrap_or(0)).await;
                self.settle().await;
                format!("got {}", if f.is_empty() { "-".to_string() } else { f.join(",") })
            }
            ["drain"] => {
                let mut per: BTreeMap<String, Vec<String>> = BTreeMap::new();
                for _ in 0..400 {
                    self.settle().await;
                    let keys: Vec<String> = self.targets.lock().unwrap().keys().cloned().collect();
                    let mut got = false;
                    for t in keys {
                        let f = self.take(&t, 10000).await;
                        got |= !f.is_empty();
                        per.entry(t).or_default().extend(f);
                    }
                    if !got {
                        break;
                    }
                }
                let all: Vec<String> = per.into_values().flatten().collect();
                format!("all {}", if all.is_empty() { "-".to_string() } else { all.join(",") })
            }
            _ => "bad-op".into(),
        }
    }
}

async fn run_case_async(ops: Vec<String>) -> Vec<(String, String)> {
    let mut results = vec![];
    let first: Vec<&str> = ops.first().map(|s| s.split_whitespace().collect()).unwrap_or_default();
    let (cmd_buf, tcap) = match first.as_slice() {
        ["new", a, b] => (a.parse::<usize>().unwrap_or(4096).max(1), b.parse::<usize>().unwrap_or(4096).max(1)),
        _ => return ops.iter().map(|o| (o.clone(), "bad-op".to_string())).collect(),
    };
    results.push((ops[0].clone(), "ok".to_string()));
    let log: Log = Arc::new(Mutex::new(vec![]));
    let lc = TestLifecycle { log: log.clone(), commanders: Default::default() };
    let agent = AgentModel::new(TestAgent::default, lc.into_lifecycle());
    let (att_tx, att_rx) = mpsc::channel(16);
    let (_http_tx, http_rx) = mpsc::channel(16);
    let (link_tx, mut link_rx) = mpsc::channel(16);
    let (stop_tx, stop_rx) = trigger::trigger();
    let long = Duration::from_secs(3600 * 24);
    let config = CombinedAgentConfig {
        agent_config: AgentConfig {
            default_lane_config: Some(LaneConfig {
                input_buffer_size: NonZeroUsize::new(4096).unwrap(),
                output_buffer_size: NonZeroUsize::new(1 << 16).unwrap(),
                transient: true,
            }),
            ..AgentConfig::DEFAULT
        },
        runtime_config: AgentRuntimeConfig {
            inactive_timeout: long,
            prune_remote_delay: long,
            shutdown_timeout: Duration::from_secs(600),
            command_output_timeout: long,
            command_msg_buffer: NonZeroUsize::new(cmd_buf).unwrap(),
            ..Default::default()
        },
    };
    let task = AgentRouteTask::new(
        &agent,
        AgentRouteDescriptor {
            identity: Uuid::from_u128(1),
            route: "/node".parse().unwrap(),
            route_params: HashMap::new(),
        },
        AgentRouteChannels::new(att_rx, http_rx, link_tx),
        stop_rx,
        config,
        None,
    );
    let failed: Arc<Mutex<Option<String>>> = Arc::new(Mutex::new(None));
    let failed2 = failed.clone();
    let agent_fut = async move {
        let r = task.run_agent().await;
        *failed2.lock().unwrap() = Some(match r {
            Err(e) => format!("{:?}", e).replace(' ', "_"),
            Ok(()) => "agent-returned-early".to_string(),
        });
        futures::future::pending::<()>().await;
    };
    let targets: Targets = Default::default();
    let targets2 = targets.clone();
    // the plane: every commander request gets a fresh channel to "its" target
    let links = async move {
        while let Some(req) = link_rx.recv().await {
            if let LinkRequest::Commander(CommanderRequest { key, promise, .. }) = req {
                let name = match &key {
                    CommanderKey::Local(addr) => {
                        format!("{}{}", addr.node.as_str().trim_start_matches("/t"), if addr.lane.as_str() == "in" { "" } else { "?" })
                    }
                    CommanderKey::Remote(_) => "remote".to_string(),
                };
                let (tx, rx) = byte_channel(NonZeroUsize::new(tcap).unwrap());
                targets2.lock().unwrap().entry(name).or_default().push(FramedRead::new(rx, Default::default()));
                let _ = promise.send(Ok(tx));
            }
        }
        futures::future::pending::<()>().await;
    };
    let driver = async {
        let id = Uuid::from_u128(0x2001);
        let (to_agent_tx, to_agent_rx) = byte_channel(NonZeroUsize::new(1 << 16).unwrap());
        let (from_agent_tx, from_agent_rx) = byte_channel(NonZeroUsize::new(1 << 16).unwrap());
        let (ctx_tx, ctx_rx) = promise::promise();
        let (on_tx, on_rx) = trigger::trigger();
        let req = AgentAttachmentRequest::with_confirmation(id, (from_agent_tx, to_agent_rx), ctx_tx, on_tx);
        if att_tx.send(req).await.is_err() {
            return vec![("end".to_string(), "agent-gone".to_string())];
        }
        let _ = tokio::time::timeout(Duration::from_secs(5), on_rx).await;
        let mut rig = Rig {
            tx: FramedWrite::new(to_agent_tx, Default::default()),
            id,
            targets,
            _rx: from_agent_rx,
            _completion: ctx_rx,
        };
        let mut out = vec![];
        for op in ops.iter().skip(1) {
            let o = rig.exec(op).await;
            out.push((op.clone(), o));
        }
        stop_tx.trigger();
        out
    };
    tokio::select! {
        biased;
        out = driver => results.extend(out),
        _ = agent_fut => {},
        _ = links => {},
    }
    if let Some(why) = failed.lock().unwrap().clone() {
        results.push(("end".to_string(), format!("agent-failed {}", why)));
    }
    drop(log);
    results
}

fn run_case(t: &mut Trace, ops: &[String]) {
    let rt = tokio::runtime::Builder::new_current_thread()
        .enable_time()
        .start_paused(true)
        .build()
        .unwrap();
    let ops_v = ops.to_vec();
    let res = std::panic::catch_unwind(std::panic::AssertUnwindSafe(|| {
        rt.block_on(async move { tokio::time::timeout(Duration::from_secs(3600 * 48), run_case_async(ops_v)).await })
    }));
    match res {
        Ok(Ok(lines)) => {
            for (op, o) in lines {
                t.op(op, o);
            }
        }
        Ok(Err(_)) => t.op("end", "hang"),
        Err(_) => t.op("end", "panic"),
    }
}

fn gen_case(rng: &mut Rng) -> Vec<String> {
    let mut ops = vec![format!(
        "new {} {}",
        rng.pick(&[64usize, 256, 4096]),
        rng.pick(&[48usize, 256, 1 << 16])
    )];
    let len = rng.range(2, 14);
    let mut used: Vec<u64> = vec![];
    for _ in 0..len {
        let c = rng.below(100);
        if c < 62 {
            // distinct values per case (a value identifies its commands); now and then a burst (v % 11 = 0 or v % 13 = 0)
            let mut v = match rng.below(10) {
                0 => 11 * rng.range(1, 80),
                1 => 13 * rng.range(1, 70),
                _ => rng.below(1000),
            };
            while used.contains(&v) || used.contains(&(v + 1)) || (v > 0 && used.contains(&(v - 1))) {
                v = rng.below(1000);
            }
            used.push(v);
            ops.push(format!("{}cmd {}", if rng.chance(1, 3) { "!" } else { "" }, v));
        } else if c < 68 {
            ops.push(format!("cmd {}", rng.pick(&["zz", "1.5", "@a"])));
        } else if c < 90 {
            ops.push(format!("take {} {}", rng.below(4), rng.pick(&[1u32, 2, 5, 30])));
        } else {
            ops.push("drain".into());
        }
    }
    ops.push("drain".into());
    ops
}

fn main() {
    if std::env::var("SV_PANIC").is_err() {
        std::panic::set_hook(Box::new(|_| {}));
    }
    match parse_args() {
        Mode::Gen { seed, cases, out } => {
            let mut t = Trace::create(&out);
            let mut rng = Rng::new(seed);
            for c in 0..cases {
                let ops = gen_case(&mut rng);
                t.case(format!("{} seed={}", c, seed));
                run_case(&mut t, &ops);
            }
            t.finish();
        }
        Mode::Replay { ops, out } => {
            let mut t = Trace::create(&out);
            for (i, case) in ops.iter().enumerate() {
                t.case(i);
                run_case(&mut t, case);
            }
            t.finish();
        }
    }
}
