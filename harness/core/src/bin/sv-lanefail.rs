//! C04, clause "when a lane fails every open link is closed with unlinked": the glue
//! `lane output channel -> ResponseReceiver (FramedRead + raw decoders) -> Failed::{Lane,Store} -> WriteTaskEvent::{LaneFailed,
//! StoreFailed} -> remove_lane -> unlinked`, which neither `sv-wt` (injects `laneFailed` into `WriteTaskState` directly) nor
//! `sv-e2e` (the real agent never writes a bad frame) exercises.
//!
//! The REAL runtime (`AgentRouteTask::run_agent_with_store`: init task, read task, write task, attachment task) runs an
//! `Agent` implemented by the harness that registers value, map and supply lanes and value/map stores and hands their byte
//! channels to the harness, which plays the agent side of the lane/store protocols with the raw codecs — and, on scripted
//! steps, breaks ONE item's output channel in each way that interface allows.
//!
//! ops (first line `new`):
//!   new <lane,lane,…> <store,store,…|->   lane names: `v*` value, `m*` map, `s*` supply; stores: `vs*` value, `ms*` map
//!   link|sync|unlink <r> <lane>           request envelope from remote r (attached on first use)
//!   cmd <r> <lane> <n>                    command (map lanes: `@update(key:n) n`); the lane answers with an event
//!   ev <lane> <n>                         the lane publishes an event on its own
//!   sev <store> <n>                       the store publishes a change (persisted by the runtime)
//!   fail <lane> <how> [pre=<n>] [close]   the lane's output breaks: how =
//!        tag      one byte that is no response tag
//!        garbage  16 bytes 0xff
//!        inner    (map) EVENT tag + a map operation with an invalid operation tag; other kinds: as `garbage`
//!        keysz    (map) EVENT tag + an update whose key length exceeds the record; other kinds: as `garbage`
//!        trunc    the first bytes of a valid event frame, then the writer is dropped
//!        dropw    the writer is dropped (clean end of the stream)
//!        drop     writer and reader are dropped
//!      `pre=<n>`: a valid event n is written immediately before (no settling in between);
//!      `close`: the lane also drops both channel ends right after writing the bad bytes
//!   sfail <store> <how>                   the same for a store's output (tag | garbage | inner | trunc | drop)
//!   wait
//!   stop                                  external stop; waits for the runtime to finish
//! out:  f=<frames received by the remotes during the op, grouped by remote>  st=<store operations>  [extra]
//!   frame: r<r>:<lane>:linked | synced | unl:<none|closed|nf|raw…> | ev:<n>
use std::collections::{BTreeMap, HashMap};
use std::num::NonZeroUsize;
use std::sync::{Arc, Mutex};
use std::time::Duration;

use bytes::{BufMut, Bytes, BytesMut};
use futures::future::BoxFuture;
use futures::{FutureExt, SinkExt, StreamExt};
use svh::{hex, parse_args, Mode, Rng, Trace};
use swimos_agent_protocol::encoding::lane::{
    RawMapLaneRequestDecoder, RawMapLaneResponseEncoder, RawValueLaneRequestDecoder, RawValueLaneResponseEncoder,
};
use swimos_agent_protocol::encoding::map::RawMapOperationEncoder;
use swimos_agent_protocol::encoding::store::{RawMapStoreInitDecoder, RawValueStoreInitDecoder};
use swimos_agent_protocol::{LaneRequest, LaneResponse, MapMessage, MapOperation, StoreInitMessage};
use swimos_api::address::RelativeAddress;
use swimos_api::agent::{Agent, AgentConfig, AgentContext, AgentInitResult, LaneConfig, StoreKind, WarpLaneKind};
use swimos_api::error::{AgentTaskError, StoreError};
use swimos_api::persistence::{KeyValue, NodePersistence, RangeConsumer};
use swimos_messages::protocol::{
    Notification, RawRequestMessageEncoder, RawResponseMessageDecoder, RequestMessage,
};
use swimos_runtime::agent::{
    AgentAttachmentRequest, AgentRouteChannels, AgentRouteDescriptor, AgentRouteTask, AgentRuntimeConfig,
    CombinedAgentConfig, DisconnectionReason,
};
use swimos_utilities::byte_channel::{byte_channel, ByteReader, ByteWriter};
use swimos_utilities::routing::RouteUri;
use swimos_utilities::trigger::{self, promise};
use tokio::io::AsyncWriteExt;
use tokio::sync::{mpsc, oneshot};
use tokio_util::codec::{Encoder, FramedRead, FramedWrite};
use uuid::Uuid;

const NODE: &str = "/node";
const EVENT_TAG: u8 = 3;
const INITIALIZED_TAG: u8 = 5;

#[derive(Clone, Copy, PartialEq, Eq, Debug)]
enum Kind {
    Value,
    Map,
    Supply,
}

fn lane_kind(name: &str) -> Kind {
    match name.as_bytes().first() {
        Some(b'm') => Kind::Map,
        Some(b's') => Kind::Supply,
        _ => Kind::Value,
    }
}

fn store_is_map(name: &str) -> bool {
    name.starts_with('m')
}

type Io = Arc<Mutex<Vec<(String, ByteWriter, ByteReader)>>>;

/// Registers the lanes and stores, gives their channels to the harness, then idles until told to finish.
struct FailAgent {
    lanes: Vec<String>,
    stores: Vec<String>,
    lane_io: Io,
    store_io: Io,
    finish: Arc<Mutex<Option<oneshot::Receiver<()>>>>,
}

impl Agent for FailAgent {
    fn run(
        &self,
        _route: RouteUri,
        _route_params: HashMap<String, String>,
        _config: AgentConfig,
        context: Box<dyn AgentContext + Send>,
    ) -> BoxFuture<'static, AgentInitResult> {
        let lanes = self.lanes.clone();
        let stores = self.stores.clone();
        let lane_io = self.lane_io.clone();
        let store_io = self.store_io.clone();
        let finish = self.finish.lock().unwrap().take();
        async move {
            let buf = NonZeroUsize::new(4096).unwrap();
            for name in lanes {
                let kind = match lane_kind(&name) {
                    Kind::Value => WarpLaneKind::Value,
                    Kind::Map => WarpLaneKind::Map,
                    Kind::Supply => WarpLaneKind::Supply,
                };
                let cfg = LaneConfig { input_buffer_size: buf, output_buffer_size: buf, transient: true };
                let (tx, rx) = context.add_lane(&name, kind, cfg).await?;
                lane_io.lock().unwrap().push((name, tx, rx));
            }
            for name in stores {
                let map = store_is_map(&name);
                let (mut tx, rx) = match context
                    .add_store(&name, if map { StoreKind::Map } else { StoreKind::Value })
                    .await
                {
                    Ok(io) => io,
                    Err(_) => continue, // reported by the driver as `registration-incomplete`
                };
                // initialisation phase of the store protocol: (no state yet) InitComplete -> Initialized
                let rx = if map {
                    let mut fr = FramedRead::new(rx, RawMapStoreInitDecoder::default());
                    loop {
                        match fr.next().await {
                            Some(Ok(StoreInitMessage::InitComplete)) => break,
                            Some(Ok(_)) => {}
                            _ => break,
                        }
                    }
                    fr.into_inner()
                } else {
                    let mut fr = FramedRead::new(rx, RawValueStoreInitDecoder::default());
                    loop {
                        match fr.next().await {
                            Some(Ok(StoreInitMessage::InitComplete)) => break,
                            Some(Ok(_)) => {}
                            _ => break,
                        }
                    }
                    fr.into_inner()
                };
                let _ = tx.write_all(&[INITIALIZED_TAG]).await;
                store_io.lock().unwrap().push((name, tx, rx));
            }
            let task: BoxFuture<'static, Result<(), AgentTaskError>> = async move {
                let _keep = context;
                match finish {
                    Some(rx) => {
                        let _ = rx.await;
                    }
                    None => futures::future::pending::<()>().await,
                }
                Ok(())
            }
            .boxed();
            Ok(task)
        }
        .boxed()
    }
}

// ------------------------------------------------------------------------------------------------ store

#[derive(Clone, Default)]
struct MemStore {
    names: Arc<Mutex<Vec<String>>>,
    log: Arc<Mutex<Vec<String>>>,
}

struct NoEntries;

impl RangeConsumer for NoEntries {
    fn consume_next(&mut self) -> Result<Option<KeyValue<'_>>, StoreError> {
        Ok(None)
    }
}

fn num(bs: &[u8]) -> String {
    match std::str::from_utf8(bs).ok().and_then(|s| s.parse::<u64>().ok()) {
        Some(n) => n.to_string(),
        None => format!("x{}", hex(bs)),
    }
}

impl MemStore {
    fn name(&self, id: u64) -> String {
        self.names.lock().unwrap().get(id as usize).cloned().unwrap_or_else(|| format!("?{}", id))
    }
    fn note(&self, s: String) {
        self.log.lock().unwrap().push(s);
    }
}

impl NodePersistence for MemStore {
    type MapCon<'a> = NoEntries where Self: 'a;
    type LaneId = u64;

    fn id_for(&self, name: &str) -> Result<u64, StoreError> {
        let mut names = self.names.lock().unwrap();
        Ok(match names.iter().position(|n| n == name) {
            Some(i) => i,
            None => {
                names.push(name.to_string());
                names.len() - 1
            }
        } as u64)
    }

    fn get_value(&self, _id: u64, _buffer: &mut BytesMut) -> Result<Option<usize>, StoreError> {
        Ok(None)
    }

    fn put_value(&mut self, id: u64, value: &[u8]) -> Result<(), StoreError> {
        self.note(format!("{}:put:{}", self.name(id), num(value)));
        Ok(())
    }

    fn delete_value(&mut self, id: u64) -> Result<(), StoreError> {
        self.note(format!("{}:del", self.name(id)));
        Ok(())
    }

    fn update_map(&mut self, id: u64, key: &[u8], value: &[u8]) -> Result<(), StoreError> {
        self.note(format!("{}:upd:{}:{}", self.name(id), num(key), num(value)));
        Ok(())
    }

    fn remove_map(&mut self, id: u64, key: &[u8]) -> Result<(), StoreError> {
        self.note(format!("{}:rem:{}", self.name(id), num(key)));
        Ok(())
    }

    fn clear_map(&mut self, id: u64) -> Result<(), StoreError> {
        self.note(format!("{}:clr", self.name(id)));
        Ok(())
    }

    fn read_map(&self, _id: u64) -> Result<NoEntries, StoreError> {
        Ok(NoEntries)
    }
}

// ------------------------------------------------------------------------------------------------ rig

fn rid(r: u64) -> Uuid {
    Uuid::from_u128(0x3000 + r as u128)
}

fn render_body(kind: Kind, body: &[u8]) -> String {
    let s = String::from_utf8_lossy(body);
    if kind == Kind::Map {
        if let Some(rest) = s.strip_prefix("@update(key:") {
            if let Some((k, v)) = rest.split_once(')') {
                let v = v.trim_start();
                return if k == v { k.to_string() } else { format!("{}!{}", k, v) };
            }
        }
        return format!("x{}", hex(body));
    }
    match s.parse::<u64>() {
        Ok(n) => n.to_string(),
        Err(_) => format!("x{}", hex(body)),
    }
}

type Frames = Arc<Mutex<Vec<(u64, String)>>>;

async fn reader_task(r: u64, rx: ByteReader, frames: Frames) {
    let mut fr = FramedRead::new(rx, RawResponseMessageDecoder);
    loop {
        match fr.next().await {
            Some(Ok(msg)) => {
                let lane = msg.path.lane.as_str().to_string();
                let what = match &msg.envelope {
                    Notification::Linked => "linked".to_string(),
                    Notification::Synced => "synced".to_string(),
                    Notification::Unlinked(b) => {
                        let m = match b.as_ref().map(|b| b.as_ref()) {
                            None | Some(b"") => "none".to_string(),
                            Some(b"\"Link closed.\"") => "closed".to_string(),
                            Some(b"@laneNotFound") => "nf".to_string(),
                            Some(o) => format!("raw{}", hex(o)),
                        };
                        format!("unl:{}", m)
                    }
                    Notification::Event(b) => format!("ev:{}", render_body(lane_kind(&lane), b.as_ref())),
                };
                frames.lock().unwrap().push((r, format!("r{}:{}:{}", r, lane, what)));
            }
            Some(Err(_)) => {
                frames.lock().unwrap().push((r, format!("r{}:-:decode-error", r)));
                return;
            }
            None => return,
        }
    }
}

struct RemoteCtx {
    tx: FramedWrite<ByteWriter, RawRequestMessageEncoder>,
    completion: promise::Receiver<DisconnectionReason>,
}

enum LaneRx {
    Value(FramedRead<ByteReader, RawValueLaneRequestDecoder>),
    Map(FramedRead<ByteReader, RawMapLaneRequestDecoder>),
}

enum Req {
    Cmd(u64, u64),
    Sync(Uuid),
    Other,
    Closed,
}

fn parse_num(b: &[u8]) -> u64 {
    std::str::from_utf8(b).ok().and_then(|s| s.trim().parse::<u64>().ok()).unwrap_or(999_999)
}

impl LaneRx {
    async fn next(&mut self) -> Req {
        match self {
            LaneRx::Value(rx) => match rx.next().await {
                Some(Ok(LaneRequest::Command(b))) => {
                    let n = parse_num(b.as_ref());
                    Req::Cmd(n, n)
                }
                Some(Ok(LaneRequest::Sync(id))) => Req::Sync(id),
                Some(Ok(LaneRequest::InitComplete)) => Req::Other,
                Some(Err(_)) | None => Req::Closed,
            },
            LaneRx::Map(rx) => match rx.next().await {
                Some(Ok(LaneRequest::Command(MapMessage::Update { key, value }))) => {
                    Req::Cmd(parse_num(key.as_ref()), parse_num(value.as_ref()))
                }
                Some(Ok(LaneRequest::Command(_))) => Req::Other,
                Some(Ok(LaneRequest::Sync(id))) => Req::Sync(id),
                Some(Ok(LaneRequest::InitComplete)) => Req::Other,
                Some(Err(_)) | None => Req::Closed,
            },
        }
    }
}

struct Lane {
    name: String,
    kind: Kind,
    tx: Option<ByteWriter>,
    rx: Option<LaneRx>,
    /// the lane no longer plays the protocol (its output was broken on purpose)
    dead: bool,
    cur: u64,
    map: BTreeMap<u64, u64>,
}

fn enc_value(resp: LaneResponse<&[u8]>, dst: &mut BytesMut) {
    let mut e = RawValueLaneResponseEncoder::default();
    e.encode(resp, dst).expect("encode");
}

fn enc_map(resp: LaneResponse<MapOperation<Vec<u8>, Vec<u8>>>, dst: &mut BytesMut) {
    let mut e = RawMapLaneResponseEncoder::default();
    e.encode(resp, dst).expect("encode");
}

impl Lane {
    /// the frame of a standard event `n` (value-like: body n; map: update n -> n)
    fn event_frame(&mut self, k: u64, v: u64, dst: &mut BytesMut) {
        match self.kind {
            Kind::Map => {
                self.map.insert(k, v);
                enc_map(
                    LaneResponse::StandardEvent(MapOperation::Update {
                        key: k.to_string().into_bytes(),
                        value: v.to_string().into_bytes(),
                    }),
                    dst,
                );
            }
            _ => {
                self.cur = v;
                enc_value(LaneResponse::StandardEvent(v.to_string().as_bytes()), dst);
            }
        }
    }

    fn sync_frames(&self, id: Uuid, dst: &mut BytesMut) {
        match self.kind {
            Kind::Map => {
                for (k, v) in &self.map {
                    enc_map(
                        LaneResponse::SyncEvent(
                            id,
                            MapOperation::Update { key: k.to_string().into_bytes(), value: v.to_string().into_bytes() },
                        ),
                        dst,
                    );
                }
                enc_map(LaneResponse::Synced(id), dst);
            }
            Kind::Value => {
                enc_value(LaneResponse::SyncEvent(id, self.cur.to_string().as_bytes()), dst);
                enc_value(LaneResponse::<&[u8]>::Synced(id), dst);
            }
            Kind::Supply => enc_value(LaneResponse::<&[u8]>::Synced(id), dst),
        }
    }

    async fn write(&mut self, bytes: &[u8]) -> bool {
        match self.tx.as_mut() {
            Some(tx) => matches!(
                tokio::time::timeout(Duration::from_secs(5), tx.write_all(bytes)).await,
                Ok(Ok(()))
            ),
            None => false,
        }
    }
}

struct Store {
    name: String,
    map: bool,
    tx: Option<ByteWriter>,
    _rx: Option<ByteReader>,
}

fn store_frame(map: bool, n: u64, dst: &mut BytesMut) {
    dst.put_u8(EVENT_TAG);
    let s = n.to_string();
    if map {
        let mut e = RawMapOperationEncoder;
        e.encode(MapOperation::Update { key: s.as_bytes(), value: s.as_bytes() }, dst).expect("encode");
    } else {
        dst.put_u64(s.len() as u64);
        dst.put_slice(s.as_bytes());
    }
}

/// the bad bytes for `how` (None: not a byte-level failure)
fn bad_bytes(how: &str, map: bool, store: bool) -> Option<Vec<u8>> {
    match how {
        "tag" => Some(if store { vec![0xff, 0xff] } else { vec![0xff] }),
        "garbage" => Some(vec![0xff; 16]),
        "inner" if map => {
            let mut b = vec![EVENT_TAG];
            b.extend_from_slice(&1u64.to_be_bytes());
            b.push(9);
            Some(b)
        }
        "keysz" if map => {
            let mut b = vec![EVENT_TAG];
            b.extend_from_slice(&11u64.to_be_bytes());
            b.push(0);
            b.extend_from_slice(&100u64.to_be_bytes());
            b.extend_from_slice(b"77");
            Some(b)
        }
        "inner" | "keysz" => Some(vec![0xff; 16]),
        _ => None,
    }
}

struct Rig {
    att_tx: mpsc::Sender<AgentAttachmentRequest>,
    remotes: BTreeMap<u64, RemoteCtx>,
    lanes: Vec<Lane>,
    stores: Vec<Store>,
    frames: Frames,
    store_log: Arc<Mutex<Vec<String>>>,
    gone: bool,
}

impl Rig {
    async fn settle(&self) {
        tokio::time::sleep(Duration::from_millis(40)).await;
    }

    async fn remote(&mut self, r: u64) -> Option<&mut RemoteCtx> {
        if !self.remotes.contains_key(&r) {
            let (to_agent_tx, to_agent_rx) = byte_channel(NonZeroUsize::new(1 << 16).unwrap());
            let (from_agent_tx, from_agent_rx) = byte_channel(NonZeroUsize::new(1 << 16).unwrap());
            let (ctx_tx, ctx_rx) = promise::promise();
            let (on_tx, on_rx) = trigger::trigger();
            let req = AgentAttachmentRequest::with_confirmation(rid(r), (from_agent_tx, to_agent_rx), ctx_tx, on_tx);
            if self.att_tx.send(req).await.is_err() {
                return None;
            }
            let _ = tokio::time::timeout(Duration::from_secs(5), on_rx).await;
            tokio::spawn(reader_task(r, from_agent_rx, self.frames.clone()));
            self.remotes
                .insert(r, RemoteCtx { tx: FramedWrite::new(to_agent_tx, Default::default()), completion: ctx_rx });
        }
        self.remotes.get_mut(&r)
    }

    /// every live lane answers the requests that have reached it
    async fn pump(&mut self) {
        for lane in self.lanes.iter_mut() {
            if lane.dead {
                continue;
            }
            for _ in 0..64 {
                let req = match lane.rx.as_mut() {
                    Some(rx) => match tokio::time::timeout(Duration::from_millis(2), rx.next()).await {
                        Ok(q) => q,
                        Err(_) => break,
                    },
                    None => break,
                };
                let mut buf = BytesMut::new();
                match req {
                    Req::Cmd(k, v) => lane.event_frame(k, v, &mut buf),
                    Req::Sync(id) => lane.sync_frames(id, &mut buf),
                    Req::Other => {}
                    Req::Closed => {
                        lane.rx = None;
                        break;
                    }
                }
                if !buf.is_empty() {
                    lane.write(buf.as_ref()).await;
                }
            }
        }
    }

    fn collect(&self, extra: &str) -> String {
        let mut fs: Vec<(u64, String)> = std::mem::take(&mut *self.frames.lock().unwrap());
        fs.sort_by_key(|(r, _)| *r); // stable: per-remote order is kept
        let f: Vec<String> = fs.into_iter().map(|(_, s)| s).collect();
        let st: Vec<String> = std::mem::take(&mut *self.store_log.lock().unwrap());
        let mut out = format!(
            "f={} st={}",
            if f.is_empty() { "-".to_string() } else { f.join(",") },
            if st.is_empty() { "-".to_string() } else { st.join(",") }
        );
        if !extra.is_empty() {
            out.push(' ');
            out.push_str(extra);
        }
        out
    }

    async fn round(&mut self) {
        self.settle().await;
        self.pump().await;
        self.settle().await;
    }

    async fn exec(&mut self, op: &str) -> String {
        let p: Vec<&str> = op.split_whitespace().collect();
        match p.as_slice() {
            [what @ ("link" | "sync" | "unlink" | "cmd"), r, lane, rest @ ..] => {
                let r: u64 = match r.parse() {
                    Ok(r) => r,
                    Err(_) => return "bad-op".into(),
                };
                let kind = lane_kind(lane);
                let ctx = match self.remote(r).await {
                    Some(c) => c,
                    None => return "agent-gone".into(),
                };
                let path = RelativeAddress::new(NODE, *lane);
                let msg: RequestMessage<&str, Bytes> = match (*what, rest) {
                    ("link", []) => RequestMessage::link(rid(r), path),
                    ("sync", []) => RequestMessage::sync(rid(r), path),
                    ("unlink", []) => RequestMessage::unlink(rid(r), path),
                    ("cmd", [n]) => {
                        let body = if kind == Kind::Map { format!("@update(key:{}) {}", n, n) } else { n.to_string() };
                        RequestMessage::command(rid(r), path, Bytes::from(body.into_bytes()))
                    }
                    _ => return "bad-op".into(),
                };
                let _ = tokio::time::timeout(Duration::from_secs(5), ctx.tx.send(msg)).await;
                self.round().await;
                self.collect("")
            }
            ["ev", lane, n] => {
                let n: u64 = n.parse().unwrap_or(0);
                let mut wrote = false;
                if let Some(l) = self.lanes.iter_mut().find(|l| l.name == *lane) {
                    if !l.dead {
                        let mut buf = BytesMut::new();
                        l.event_frame(n, n, &mut buf);
                        wrote = l.write(buf.as_ref()).await;
                    }
                }
                self.round().await;
                self.collect(if wrote { "w=1" } else { "w=0" })
            }
            ["sev", store, n] => {
                let n: u64 = n.parse().unwrap_or(0);
                let mut wrote = false;
                if let Some(s) = self.stores.iter_mut().find(|s| s.name == *store) {
                    if let Some(tx) = s.tx.as_mut() {
                        let mut buf = BytesMut::new();
                        store_frame(s.map, n, &mut buf);
                        wrote = matches!(
                            tokio::time::timeout(Duration::from_secs(5), tx.write_all(buf.as_ref())).await,
                            Ok(Ok(()))
                        );
                    }
                }
                self.round().await;
                self.collect(if wrote { "w=1" } else { "w=0" })
            }
            ["fail", lane, how, flags @ ..] => {
                let pre: Option<u64> = flags.iter().find_map(|f| f.strip_prefix("pre=")).and_then(|n| n.parse().ok());
                let close = flags.contains(&"close");
                if let Some(l) = self.lanes.iter_mut().find(|l| l.name == *lane) {
                    if !l.dead {
                        let mut buf = BytesMut::new();
                        if let Some(n) = pre {
                            l.event_frame(n, n, &mut buf);
                        }
                        match *how {
                            "trunc" => {
                                let mut fr = BytesMut::new();
                                l.event_frame(4242, 4242, &mut fr);
                                buf.extend_from_slice(&fr[..fr.len() - 2]);
                                l.write(buf.as_ref()).await;
                                l.tx = None;
                            }
                            "dropw" => {
                                l.write(buf.as_ref()).await;
                                l.tx = None;
                            }
                            "drop" => {
                                l.write(buf.as_ref()).await;
                                l.tx = None;
                                l.rx = None;
                            }
                            _ => match bad_bytes(how, l.kind == Kind::Map, false) {
                                Some(bad) => {
                                    buf.extend_from_slice(&bad);
                                    l.write(buf.as_ref()).await;
                                }
                                None => return "bad-op".into(),
                            },
                        }
                        if close {
                            l.tx = None;
                            l.rx = None;
                        }
                        l.dead = true;
                    }
                }
                self.round().await;
                self.collect("")
            }
            ["sfail", store, how] => {
                if let Some(s) = self.stores.iter_mut().find(|s| s.name == *store) {
                    if let Some(tx) = s.tx.as_mut() {
                        match *how {
                            "trunc" => {
                                let mut fr = BytesMut::new();
                                store_frame(s.map, 4242, &mut fr);
                                let _ = tx.write_all(&fr[..fr.len() - 2]).await;
                            }
                            "drop" => {}
                            _ => match bad_bytes(how, s.map, true) {
                                Some(bad) => {
                                    let _ = tx.write_all(&bad).await;
                                }
                                None => return "bad-op".into(),
                            },
                        }
                        if matches!(*how, "trunc" | "drop") {
                            s.tx = None;
                        }
                    }
                }
                self.round().await;
                self.collect("")
            }
            ["wait"] => {
                self.round().await;
                self.collect("")
            }
            _ => "bad-op".into(),
        }
    }
}

fn split_names(s: &str) -> Vec<String> {
    if s == "-" {
        vec![]
    } else {
        s.split(',').filter(|x| !x.is_empty()).map(|x| x.to_string()).collect()
    }
}

async fn run_case_async(ops: Vec<String>) -> Vec<(String, String)> {
    let mut results = vec![];
    let ops_len = ops.len();
    let first: Vec<&str> = ops.first().map(|s| s.split_whitespace().collect()).unwrap_or_default();
    let (lane_names, store_names) = match first.as_slice() {
        ["new", l, s] => (split_names(l), split_names(s)),
        _ => return ops.iter().map(|o| (o.clone(), "bad-op".to_string())).collect(),
    };
    results.push((ops[0].clone(), "ok".to_string()));
    let lane_io: Io = Arc::new(Mutex::new(vec![]));
    let store_io: Io = Arc::new(Mutex::new(vec![]));
    let (finish_tx, finish_rx) = oneshot::channel();
    let agent = FailAgent {
        lanes: lane_names.clone(),
        stores: store_names.clone(),
        lane_io: lane_io.clone(),
        store_io: store_io.clone(),
        finish: Arc::new(Mutex::new(Some(finish_rx))),
    };
    let store = MemStore::default();
    let store_log = store.log.clone();
    let (att_tx, att_rx) = mpsc::channel(16);
    let (_http_tx, http_rx) = mpsc::channel(16);
    let (link_tx, mut link_rx) = mpsc::channel(16);
    let (stop_tx, stop_rx) = trigger::trigger();
    let long = Duration::from_secs(3600 * 24);
    let config = CombinedAgentConfig {
        agent_config: AgentConfig::DEFAULT,
        runtime_config: AgentRuntimeConfig {
            inactive_timeout: long,
            prune_remote_delay: long,
            shutdown_timeout: Duration::from_secs(600),
            ..Default::default()
        },
    };
    let task = AgentRouteTask::new(
        &agent,
        AgentRouteDescriptor { identity: Uuid::from_u128(1), route: NODE.parse().unwrap(), route_params: HashMap::new() },
        AgentRouteChannels::new(att_rx, http_rx, link_tx),
        stop_rx,
        config,
        None,
    );
    let ended: Arc<Mutex<Option<String>>> = Arc::new(Mutex::new(None));
    let ended2 = ended.clone();
    let agent_fut = async move {
        let r = task.run_agent_with_store(futures::future::ready(Ok(store))).await;
        *ended2.lock().unwrap() = Some(match r {
            Err(e) => format!("err:{:?}", e).replace(' ', "_"),
            Ok(()) => "ok".to_string(),
        });
        futures::future::pending::<()>().await;
    };
    let links = async move {
        while link_rx.recv().await.is_some() {}
        futures::future::pending::<()>().await;
    };
    let nl = lane_names.len();
    let ns = store_names.len();
    let ended3 = ended.clone();
    let driver = async move {
        for _ in 0..200 {
            tokio::time::sleep(Duration::from_millis(10)).await;
            if lane_io.lock().unwrap().len() == nl && store_io.lock().unwrap().len() == ns {
                break;
            }
            if ended3.lock().unwrap().is_some() {
                break;
            }
        }
        tokio::time::sleep(Duration::from_millis(40)).await;
        let lanes: Vec<Lane> = std::mem::take(&mut *lane_io.lock().unwrap())
            .into_iter()
            .map(|(name, tx, rx)| {
                let kind = lane_kind(&name);
                let rx = match kind {
                    Kind::Map => LaneRx::Map(FramedRead::new(rx, RawMapLaneRequestDecoder::default())),
                    _ => LaneRx::Value(FramedRead::new(rx, RawValueLaneRequestDecoder::default())),
                };
                Lane { name, kind, tx: Some(tx), rx: Some(rx), dead: false, cur: 0, map: BTreeMap::new() }
            })
            .collect();
        let stores: Vec<Store> = std::mem::take(&mut *store_io.lock().unwrap())
            .into_iter()
            .map(|(name, tx, rx)| {
                let map = store_is_map(&name);
                Store { name, map, tx: Some(tx), _rx: Some(rx) }
            })
            .collect();
        let mut out = vec![];
        if lanes.len() != nl || stores.len() != ns {
            out.push(("init".to_string(), format!("registration-incomplete lanes={} stores={}", lanes.len(), stores.len())));
            return out;
        }
        let mut rig = Rig {
            att_tx,
            remotes: BTreeMap::new(),
            lanes,
            stores,
            frames: Arc::new(Mutex::new(vec![])),
            store_log,
            gone: false,
        };
        let mut finish_tx = Some(finish_tx);
        let mut stop_tx = Some(stop_tx);
        for op in ops.iter().skip(1) {
            if op.trim() == "stop" {
                if let Some(s) = stop_tx.take() {
                    s.trigger();
                }
                rig.settle().await;
                rig.settle().await;
                if let Some(f) = finish_tx.take() {
                    let _ = f.send(());
                }
                // wait for the runtime to finish
                for _ in 0..100 {
                    if ended3.lock().unwrap().is_some() {
                        break;
                    }
                    rig.settle().await;
                }
                rig.settle().await;
                let mut reasons = vec![];
                for (r, ctx) in std::mem::take(&mut rig.remotes) {
                    let RemoteCtx { completion, tx } = ctx;
                    drop(tx);
                    let why = match tokio::time::timeout(Duration::from_millis(50), completion).await {
                        Ok(Ok(reason)) => format!("{:?}", reason),
                        Ok(Err(_)) => "dropped".to_string(),
                        Err(_) => "pending".to_string(),
                    };
                    reasons.push(format!("r{}:{}", r, why));
                }
                let e = ended3.lock().unwrap().clone().unwrap_or_else(|| "running".to_string());
                let extra = format!(
                    "ended={} d={}",
                    e,
                    if reasons.is_empty() { "-".to_string() } else { reasons.join(",") }
                );
                out.push((op.clone(), rig.collect(&extra)));
                rig.gone = true;
                continue;
            }
            if rig.gone {
                out.push((op.clone(), "agent-gone".to_string()));
                continue;
            }
            let o = rig.exec(op).await;
            out.push((op.clone(), o));
        }
        out
    };
    tokio::select! {
        biased;
        out = driver => results.extend(out),
        _ = agent_fut => {},
        _ = links => {},
    }
    if results.len() < ops_len {
        let e = ended.lock().unwrap().clone().unwrap_or_else(|| "running".to_string());
        results.push(("end".to_string(), format!("runtime-ended-early {}", e)));
    }
    results
}

fn run_case(t: &mut Trace, ops: &[String]) {
    let rt = tokio::runtime::Builder::new_current_thread().enable_time().start_paused(true).build().unwrap();
    let ops_v = ops.to_vec();
    let res = std::panic::catch_unwind(std::panic::AssertUnwindSafe(|| {
        rt.block_on(async move { tokio::time::timeout(Duration::from_secs(3600 * 48), run_case_async(ops_v)).await })
    }));
    match res {
        Ok(Ok(lines)) => {
            for (op, o) in lines {
                t.op(op, o);
            }
        }
        Ok(Err(_)) => t.op("end", "hang"),
        Err(_) => t.op("end", "panic"),
    }
}

// ------------------------------------------------------------------------------------------------ generator

const LANE_POOL: &[&str] = &["v0", "m0", "s0", "v1", "m1", "s1"];
const LANE_HOWS: &[&str] = &["tag", "garbage", "inner", "keysz", "trunc", "dropw", "drop"];
const STORE_HOWS: &[&str] = &["tag", "garbage", "inner", "trunc", "drop"];

fn gen_case(rng: &mut Rng) -> Vec<String> {
    // at least one lane of the kind that is going to fail; 3..6 lanes, 0..2 stores
    let nl = rng.range(3, 6) as usize;
    let lanes: Vec<&str> = LANE_POOL[..nl].to_vec();
    let stores: Vec<&str> = match rng.below(4) {
        0 => vec![],
        1 => vec!["vs0"],
        2 => vec!["ms0"],
        _ => vec!["vs0", "ms0"],
    };
    let mut ops = vec![format!(
        "new {} {}",
        lanes.join(","),
        if stores.is_empty() { "-".to_string() } else { stores.join(",") }
    )];
    let nr = rng.range(2, 3);
    let mut seq = 0u64;
    let mut next = |rng: &mut Rng| {
        seq += 1;
        rng.range(1, 9) * 1000 + seq
    };
    // phase 1: links and syncs from several remotes over several lanes
    let victim = *rng.pick(&lanes);
    for r in 1..=nr {
        for l in &lanes {
            let p = if *l == victim { 85 } else { 55 };
            if rng.chance(p, 100) {
                ops.push(format!("{} {} {}", if rng.chance(1, 3) { "sync" } else { "link" }, r, l));
            }
        }
    }
    let traffic = |rng: &mut Rng, ops: &mut Vec<String>, n: u64, next: &mut dyn FnMut(&mut Rng) -> u64| {
        for _ in 0..n {
            let c = rng.below(100);
            let l = if rng.chance(1, 15) { "zz" } else { *rng.pick(&lanes) };
            let r = rng.range(1, nr);
            if c < 30 {
                ops.push(format!("ev {} {}", l, next(rng)));
            } else if c < 50 {
                ops.push(format!("cmd {} {} {}", r, l, next(rng)));
            } else if c < 65 {
                ops.push(format!("link {} {}", r, l));
            } else if c < 78 {
                ops.push(format!("sync {} {}", r, l));
            } else if c < 86 {
                ops.push(format!("unlink {} {}", r, l));
            } else if c < 96 && !stores.is_empty() {
                ops.push(format!("sev {} {}", rng.pick(&stores), next(rng)));
            } else {
                ops.push("wait".into());
            }
        }
    };
    let n = rng.range(0, 6);
    traffic(rng, &mut ops, n, &mut next);
    // phase 2: one or two items fail
    let nfail = rng.range(1, 2);
    let mut failed: Vec<&str> = vec![];
    for i in 0..nfail {
        if !stores.is_empty() && rng.chance(1, 4) {
            ops.push(format!("sfail {} {}", rng.pick(&stores), rng.pick(STORE_HOWS)));
        } else {
            let l = if i == 0 { victim } else { *rng.pick(&lanes) };
            if failed.contains(&l) {
                continue;
            }
            failed.push(l);
            let mut op = format!("fail {} {}", l, rng.pick(LANE_HOWS));
            if rng.chance(1, 4) {
                op.push_str(&format!(" pre={}", next(rng)));
            }
            if rng.chance(1, 4) {
                op.push_str(" close");
            }
            ops.push(op);
        }
        // phase 3: the other lanes keep working; later requests to the failed lane
        for l in failed.clone() {
            if rng.chance(2, 3) {
                let r = rng.range(1, nr);
                let what = *rng.pick(&["link", "sync", "cmd", "unlink", "sync"]);
                if what == "cmd" {
                    ops.push(format!("cmd {} {} {}", r, l, next(rng)));
                } else {
                    ops.push(format!("{} {} {}", what, r, l));
                }
            }
        }
        let n = rng.range(2, 8);
        traffic(rng, &mut ops, n, &mut next);
    }
    if rng.chance(9, 10) {
        ops.push("stop".into());
    }
    ops
}

fn main() {
    std::panic::set_hook(Box::new(|_| {}));
    match parse_args() {
        Mode::Gen { seed, cases, out } => {
            let mut t = Trace::create(&out);
            let mut rng = Rng::new(seed);
            for c in 0..cases {
                let ops = gen_case(&mut rng);
                t.case(format!("{} seed={}", c, seed));
                run_case(&mut t, &ops);
            }
            t.finish();
        }
        Mode::Replay { ops, out } => {
            let mut t = Trace::create(&out);
            for (i, case) in ops.iter().enumerate() {
                t.case(i);
                run_case(&mut t, case);
            }
            t.finish();
        }
    }
}
