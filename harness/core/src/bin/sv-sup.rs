//! C14 (supply lanes, agent half): the REAL `SupplyLane<i32>` — `push` / `sync` (through the `verif_hooks` wrappers of
//! the crate-private methods the `Supply` / `SupplyLaneSync` handler actions call) and `LaneItem::write_to_buffer`;
//! the bytes written are decoded with the real lane response decoder.
//!
//! ops: new | push <n> | sync <r> | write          out (write): <done|more|nodata> <frame,…|->
use bytes::BytesMut;
use svh::{parse_args, Mode, Rng, Trace};
use swimos_agent::agent_model::WriteResult;
use swimos_agent::lanes::{LaneItem, SupplyLane};
use swimos_agent::verif::lanes::{supply_push, supply_sync};
use swimos_agent_protocol::encoding::lane::RawValueLaneResponseDecoder;
use swimos_agent_protocol::LaneResponse;
use tokio_util::codec::Decoder;
use uuid::Uuid;

fn exec(lane: &SupplyLane<i32>, op: &str) -> String {
    let p: Vec<&str> = op.split_whitespace().collect();
    match p.as_slice() {
        ["push", v] => match v.parse() {
            Ok(v) => {
                supply_push(lane, v);
                "ok".into()
            }
            Err(_) => "bad-op".into(),
        },
        ["sync", r] => match r.parse::<u128>() {
            Ok(r) => {
                supply_sync(lane, Uuid::from_u128(r));
                "ok".into()
            }
            Err(_) => "bad-op".into(),
        },
        ["write"] => {
            let mut buf = BytesMut::new();
            let res = match lane.write_to_buffer(&mut buf) {
                WriteResult::Done => "done",
                WriteResult::DataStillAvailable => "more",
                WriteResult::NoData => "nodata",
                WriteResult::RequiresEvent => "requires-event",
            };
            let mut dec = RawValueLaneResponseDecoder::default();
            let mut frames = vec![];
            loop {
                match dec.decode(&mut buf) {
                    Ok(Some(LaneResponse::StandardEvent(b))) => {
                        frames.push(format!("ev:{}", String::from_utf8_lossy(b.as_ref())))
                    }
                    Ok(Some(LaneResponse::SyncEvent(id, b))) => {
                        frames.push(format!("sync:{}:{}", id.as_u128(), String::from_utf8_lossy(b.as_ref())))
                    }
                    Ok(Some(LaneResponse::Synced(id))) => frames.push(format!("synced:{}", id.as_u128())),
                    Ok(Some(LaneResponse::Initialized)) => frames.push("initialized".into()),
                    Ok(None) => break,
                    Err(_) => {
                        frames.push("decode-error".into());
                        break;
                    }
                }
            }
            if !buf.is_empty() {
                frames.push("trailing-bytes".into());
            }
            format!("{} {}", res, if frames.is_empty() { "-".to_string() } else { frames.join(",") })
        }
        _ => "bad-op".into(),
    }
}

fn run_case(t: &mut Trace, ops: &[String]) {
    let mut lane: Option<SupplyLane<i32>> = None;
    for op in ops {
        if op == "new" {
            lane = Some(SupplyLane::new(0));
            t.op(op, "ok");
        } else if let Some(l) = lane.as_ref() {
            let o = std::panic::catch_unwind(std::panic::AssertUnwindSafe(|| exec(l, op)))
                .unwrap_or_else(|_| "panic".to_string());
            t.op(op, o);
        } else {
            t.op(op, "bad-op");
        }
    }
}

fn main() {
    std::panic::set_hook(Box::new(|_| {}));
    match parse_args() {
        Mode::Gen { seed, cases, out } => {
            let mut t = Trace::create(&out);
            let mut rng = Rng::new(seed);
            for c in 0..cases {
                let mut ops = vec!["new".to_string()];
                let len = rng.range(1, 40);
                // the share of writes decides how deep the queue gets: from "remote keeps up" to "bursts"
                let writes = rng.range(15, 70);
                let mut v = 0;
                for _ in 0..len {
                    let r = rng.below(100);
                    if r < writes {
                        ops.push("write".into());
                    } else if r < writes + 8 {
                        ops.push(format!("sync {}", rng.range(1, 4)));
                    } else {
                        v += 1;
                        ops.push(format!("push {}", v));
                    }
                }
                // drain
                for _ in 0..rng.range(0, 6) {
                    ops.push("write".into());
                }
                t.case(format!("{} seed={}", c, seed));
                run_case(&mut t, &ops);
            }
            t.finish();
        }
        Mode::Replay { ops, out } => {
            let mut t = Trace::create(&out);
            for (i, case) in ops.iter().enumerate() {
                t.case(i);
                run_case(&mut t, case);
            }
            t.finish();
        }
    }
}
