//! C05 end-to-end engine: a REAL agent (value lane, map lane, transient value lane, value store, map store,
//! transient value store, command lane) on the REAL agent runtime (`AgentRouteTask::run_agent_with_store`) with a
//! recording `NodePersistence` (public trait) that logs every call into one log shared with the remote-side
//! frame log. Runs are executed on a `current_thread` tokio runtime with paused time. A history is run to a
//! clean stop, to an inactivity time-out, and with a crash (everything dropped) after the n-th store operation /
//! after the n-th frame delivered to a remote / with a store failure at the n-th store operation, for EVERY n;
//! after each, a fresh agent is started against the same store and every lane is synced.
//!
//! Trace lines (`op ;; out`):
//!   cfg transient=<0|1> rbuf=<n>                  ;; ok        configuration of the case
//!   item <name> <value|map> <persistent> <default> ;; ok        the items of the agent (as configured)
//!   script <step…> / end <mode> [n]               ;; ok        the complete plan (what `replay` re-executes)
//!   do <step…>                                    ;; ok        a step of the script was executed
//!   idfor <name>                                  ;; id=<id>   NodePersistence::id_for
//!   store get <id> | store readmap <id>           ;; <state>   reads (initialisation)
//!   store put <id> <hex> | upd <id> <k> <v> | rem <id> <k> | clr <id>   ;; ok     writes
//!   storefail                                     ;; ok        the injected store error was returned
//!   send <remote> <lane> linked|synced|unlinked|event <body…>   ;; ok   a frame was delivered to a remote
//!   crash                                         ;; ok        the cut: everything is dropped here
//!   ended <how>                                   ;; ok        the agent task finished (ok / error kind / running)
//!   restart                                       ;; ok        a fresh agent is started against the same store
//!   live                                          ;; ok        restore checked; `script2` (if any) runs now, then a
//!                                                              clean stop and one more restart
//!   start                                         ;; at-start <name>=<state>…  what `on_start` saw in every item
//!   restored <item>                               ;; val=<hex> | map=<entries> | none   what a sync (or the probe) saw
//! (states: `val=<hex>` / `val=none`, `map=<khex>:<vhex>,…` sorted by key bytes, `map=-` when empty)
use std::cell::RefCell;
use std::collections::{BTreeMap, HashMap};
use std::future::Future;
use std::num::NonZeroUsize;
use std::pin::Pin;
use std::rc::Rc;
use std::sync::Arc;
use std::time::Duration;

use bytes::{Bytes, BytesMut};
use futures::future::ready;
use futures::{SinkExt, StreamExt};
use parking_lot::Mutex;
use svh::{hex, parse_args, Mode, Rng, Trace};
use swimos::agent::agent_lifecycle::HandlerContext;
use swimos::agent::agent_model::AgentModel;
use swimos::agent::event_handler::{EventHandler, HandlerActionExt, UnitHandler};
use swimos::agent::lanes::{CommandLane, MapLane, ValueLane};
use swimos::agent::stores::{MapStore, ValueStore};
use swimos::agent::{lifecycle, projections, AgentLaneModel};
use swimos_api::address::RelativeAddress;
use swimos_api::agent::{AgentConfig, LaneConfig};
use swimos_api::error::StoreError;
use swimos_api::persistence::{KeyValue, NodePersistence, RangeConsumer};
use swimos_messages::protocol::{
    Notification, RawRequestMessageEncoder, RawResponseMessageDecoder, RequestMessage,
};
use swimos_runtime::agent::{
    AgentAttachmentRequest, AgentExecError, AgentRouteChannels, AgentRouteDescriptor, AgentRouteTask,
    AgentRuntimeConfig, CombinedAgentConfig, DisconnectionReason,
};
use swimos_utilities::byte_channel::{byte_channel, ByteReader, ByteWriter};
use swimos_utilities::trigger::{self, promise};
use tokio::sync::{mpsc, watch, Notify};
use tokio::task::{JoinHandle, LocalSet};
use tokio_util::codec::{FramedRead, FramedWrite};
use uuid::Uuid;

// ------------------------------------------------------------------------------------------------ the agent

#[projections]
#[derive(AgentLaneModel)]
struct PAgent {
    v: ValueLane<i32>,
    m: MapLane<i32, i32>,
    #[item(transient)]
    t: ValueLane<i32>,
    vs: ValueStore<i32>,
    ms: MapStore<i32, i32>,
    #[item(transient)]
    ts: ValueStore<i32>,
    ctl: CommandLane<String>,
    #[item(transient)]
    rep: ValueLane<String>,
}

#[derive(Clone)]
struct PLife {
    log: Arc<Mutex<Log>>,
}

fn fmt_map(m: &HashMap<i32, i32>) -> String {
    let mut es: Vec<(Vec<u8>, Vec<u8>)> = m
        .iter()
        .map(|(k, v)| (k.to_string().into_bytes(), v.to_string().into_bytes()))
        .collect();
    es.sort();
    render_entries(&es)
}

fn render_entries(es: &[(Vec<u8>, Vec<u8>)]) -> String {
    if es.is_empty() {
        return "-".into();
    }
    es.iter()
        .map(|(k, v)| format!("{}:{}", hex(k), hex(v)))
        .collect::<Vec<_>>()
        .join(",")
}

fn hx(n: i32) -> String {
    hex(n.to_string().as_bytes())
}

#[lifecycle(PAgent)]
impl PLife {
    #[on_start]
    fn on_start(&self, context: HandlerContext<PAgent>) -> impl EventHandler<PAgent> {
        let log = self.log.clone();
        context.get_value(PAgent::V).and_then(move |v: i32| {
            context.get_map(PAgent::M).and_then(move |m: HashMap<i32, i32>| {
                context.get_value(PAgent::T).and_then(move |t: i32| {
                    context.get_value(PAgent::VS).and_then(move |vs: i32| {
                        context.get_map(PAgent::MS).and_then(move |ms: HashMap<i32, i32>| {
                            context.get_value(PAgent::TS).and_then(move |ts: i32| {
                                context.effect(move || {
                                    let line = format!(
                                        "at-start v={} m={} t={} vs={} ms={} ts={}",
                                        hx(v),
                                        fmt_map(&m),
                                        hx(t),
                                        hx(vs),
                                        fmt_map(&ms),
                                        hx(ts)
                                    );
                                    log.lock().push("start".into(), line);
                                })
                            })
                        })
                    })
                })
            })
        })
    }

    #[on_command(ctl)]
    fn on_ctl(&self, context: HandlerContext<PAgent>, cmd: &String) -> impl EventHandler<PAgent> {
        let parts: Vec<&str> = cmd.split(' ').collect();
        let num = |s: &str| s.parse::<i32>().unwrap_or(0);
        match parts.as_slice() {
            ["vs", n] => context.set_value(PAgent::VS, num(n)).boxed_local(),
            ["ts", n] => context.set_value(PAgent::TS, num(n)).boxed_local(),
            ["ms", "u", k, v] => context.update(PAgent::MS, num(k), num(v)).boxed_local(),
            ["ms", "r", k] => context.remove(PAgent::MS, num(k)).boxed_local(),
            ["ms", "c"] => context.clear(PAgent::MS).boxed_local(),
            ["probe"] => context
                .get_value(PAgent::VS)
                .and_then(move |vs: i32| {
                    context.get_map(PAgent::MS).and_then(move |ms: HashMap<i32, i32>| {
                        context.get_value(PAgent::TS).and_then(move |ts: i32| {
                            context.set_value(
                                PAgent::REP,
                                format!("vs={};ms={};ts={}", hx(vs), fmt_map(&ms), hx(ts)),
                            )
                        })
                    })
                })
                .boxed_local(),
            _ => UnitHandler::default().boxed_local(),
        }
    }
}

// ------------------------------------------------------------------------------------------------ shared log

#[derive(Clone, Copy, Debug, PartialEq, Eq)]
enum Cut {
    None,
    AfterStore(usize),
    AfterFrame(usize),
    FailStore(usize),
}

struct Log {
    lines: Vec<(String, String)>,
    nstore: usize,
    nframe: usize,
    cut: Cut,
    dead: bool,
    crash: Arc<Notify>,
    /// frames seen by each remote in the current phase: (remote, lane, rendered note)
    frames: Vec<(u64, String, String)>,
}

impl Log {
    fn new() -> Log {
        Log {
            lines: vec![],
            nstore: 0,
            nframe: 0,
            cut: Cut::None,
            dead: false,
            crash: Arc::new(Notify::new()),
            frames: vec![],
        }
    }
    fn push(&mut self, op: String, out: String) {
        if !self.dead {
            self.lines.push((op, out));
        }
    }
    fn die(&mut self) {
        self.lines.push(("crash".into(), "ok".into()));
        self.dead = true;
        self.crash.notify_one();
    }
    fn frame(&mut self, r: u64, lane: &str, note: String) {
        if self.dead {
            return;
        }
        self.nframe += 1;
        self.lines
            .push((format!("send {} {} {}", r, lane, note), "ok".into()));
        self.frames.push((r, lane.to_string(), note));
        if self.cut == Cut::AfterFrame(self.nframe) {
            self.die();
        }
    }
}

// ------------------------------------------------------------------------------------------------ the store

#[derive(Default)]
struct StoreInner {
    ids: Vec<String>,
    values: HashMap<u64, Vec<u8>>,
    maps: HashMap<u64, BTreeMap<Vec<u8>, Vec<u8>>>,
}

#[derive(Clone)]
struct RecStore {
    inner: Arc<Mutex<StoreInner>>,
    log: Arc<Mutex<Log>>,
}

struct MapSnap {
    entries: Vec<(Vec<u8>, Vec<u8>)>,
    pos: usize,
}

impl RangeConsumer for MapSnap {
    fn consume_next(&mut self) -> Result<Option<KeyValue<'_>>, StoreError> {
        if self.pos < self.entries.len() {
            let (k, v) = &self.entries[self.pos];
            self.pos += 1;
            Ok(Some((k.as_slice(), v.as_slice())))
        } else {
            Ok(None)
        }
    }
}

impl RecStore {
    fn mutate(&self, line: String, f: impl FnOnce(&mut StoreInner)) -> Result<(), StoreError> {
        let mut log = self.log.lock();
        if log.dead {
            // after the cut nothing reaches the store any more
            return Ok(());
        }
        if log.cut == Cut::FailStore(log.nstore + 1) {
            log.nstore += 1;
            log.cut = Cut::None;
            log.push("storefail".into(), "ok".into());
            return Err(StoreError::DelegateMessage("injected store failure".into()));
        }
        f(&mut self.inner.lock());
        log.nstore += 1;
        log.push(line, "ok".into());
        if log.cut == Cut::AfterStore(log.nstore) {
            log.die();
        }
        Ok(())
    }
}

impl NodePersistence for RecStore {
    type MapCon<'a> = MapSnap where Self: 'a;
    type LaneId = u64;

    fn id_for(&self, name: &str) -> Result<u64, StoreError> {
        let mut inner = self.inner.lock();
        let id = match inner.ids.iter().position(|n| n == name) {
            Some(i) => i,
            None => {
                inner.ids.push(name.to_string());
                inner.ids.len() - 1
            }
        } as u64;
        self.log.lock().push(format!("idfor {}", name), format!("id={}", id));
        Ok(id)
    }

    fn get_value(&self, id: u64, buffer: &mut BytesMut) -> Result<Option<usize>, StoreError> {
        let inner = self.inner.lock();
        let r = inner.values.get(&id);
        self.log.lock().push(
            format!("store get {}", id),
            format!("val={}", r.map(|v| hex(v)).unwrap_or_else(|| "none".into())),
        );
        Ok(r.map(|v| {
            buffer.extend_from_slice(v);
            v.len()
        }))
    }

    fn put_value(&mut self, id: u64, value: &[u8]) -> Result<(), StoreError> {
        let v = value.to_vec();
        self.mutate(format!("store put {} {}", id, hex(value)), move |s| {
            s.values.insert(id, v);
        })
    }

    fn delete_value(&mut self, id: u64) -> Result<(), StoreError> {
        self.mutate(format!("store del {}", id), move |s| {
            s.values.remove(&id);
        })
    }

    fn update_map(&mut self, id: u64, key: &[u8], value: &[u8]) -> Result<(), StoreError> {
        let (k, v) = (key.to_vec(), value.to_vec());
        self.mutate(format!("store upd {} {} {}", id, hex(key), hex(value)), move |s| {
            s.maps.entry(id).or_default().insert(k, v);
        })
    }

    fn remove_map(&mut self, id: u64, key: &[u8]) -> Result<(), StoreError> {
        let k = key.to_vec();
        self.mutate(format!("store rem {} {}", id, hex(key)), move |s| {
            if let Some(m) = s.maps.get_mut(&id) {
                m.remove(&k);
            }
        })
    }

    fn clear_map(&mut self, id: u64) -> Result<(), StoreError> {
        self.mutate(format!("store clr {}", id), move |s| {
            s.maps.remove(&id);
        })
    }

    fn read_map(&self, id: u64) -> Result<MapSnap, StoreError> {
        let inner = self.inner.lock();
        let entries: Vec<(Vec<u8>, Vec<u8>)> = inner
            .maps
            .get(&id)
            .map(|m| m.iter().map(|(k, v)| (k.clone(), v.clone())).collect())
            .unwrap_or_default();
        self.log
            .lock()
            .push(format!("store readmap {}", id), format!("map={}", render_entries(&entries)));
        Ok(MapSnap { entries, pos: 0 })
    }
}

// ------------------------------------------------------------------------------------------------ frames

const NODE: &str = "/node";
const MAP_LANES: &[&str] = &["m"];

fn rid(r: u64) -> Uuid {
    Uuid::from_u128(0x1000 + r as u128)
}

fn render_map_body(body: &[u8]) -> Option<String> {
    if body == b"@clear" {
        return Some("clr".into());
    }
    if let Some(rest) = body.strip_prefix(b"@update(key:") {
        let close = rest.iter().position(|b| *b == b')')?;
        let key = &rest[..close];
        let mut val = &rest[close + 1..];
        if let Some(v) = val.strip_prefix(b" ") {
            val = v;
        }
        return Some(format!("upd {} {}", hex(key), hex(val)));
    }
    if let Some(rest) = body.strip_prefix(b"@remove(key:") {
        let key = rest.strip_suffix(b")")?;
        return Some(format!("rem {}", hex(key)));
    }
    None
}

fn render_note(lane: &str, env: &Notification<Bytes, Bytes>) -> String {
    match env {
        Notification::Linked => "linked".into(),
        Notification::Synced => "synced".into(),
        Notification::Unlinked(_) => "unlinked".into(),
        Notification::Event(b) => {
            if MAP_LANES.contains(&lane) {
                match render_map_body(b.as_ref()) {
                    Some(s) => format!("event {}", s),
                    None => format!("event ?{}", hex(b.as_ref())),
                }
            } else {
                format!("event {}", hex(b.as_ref()))
            }
        }
    }
}

async fn reader_task(r: u64, rx: ByteReader, mut gate: watch::Receiver<bool>, log: Arc<Mutex<Log>>) {
    let mut fr = FramedRead::new(rx, RawResponseMessageDecoder);
    loop {
        while *gate.borrow() {
            if gate.changed().await.is_err() {
                return;
            }
        }
        match fr.next().await {
            Some(Ok(msg)) => {
                let lane = msg.path.lane.as_str().to_string();
                let note = render_note(&lane, &msg.envelope);
                log.lock().frame(r, &lane, note);
            }
            _ => return,
        }
    }
}

// ------------------------------------------------------------------------------------------------ one agent run

struct RemoteH {
    tx: FramedWrite<ByteWriter, RawRequestMessageEncoder>,
    gate: watch::Sender<bool>,
    reader: JoinHandle<()>,
    _completion: promise::Receiver<DisconnectionReason>,
}

type AgentFut = Pin<Box<dyn Future<Output = Result<(), AgentExecError>>>>;

struct Run {
    log: Arc<Mutex<Log>>,
    crash: Arc<Notify>,
    agent: AgentFut,
    ended: Option<String>,
    att_tx: mpsc::Sender<AgentAttachmentRequest>,
    stop_tx: Option<trigger::Sender>,
    remotes: BTreeMap<u64, RemoteH>,
    rbuf: usize,
    _keep: Rc<RefCell<Vec<Box<dyn std::any::Any>>>>,
}

const INACTIVE: Duration = Duration::from_secs(5);

fn err_kind(e: &AgentExecError) -> &'static str {
    match e {
        AgentExecError::FailedInit(_) => "failed-init",
        AgentExecError::FailedTask(_) => "failed-task",
        AgentExecError::FailedDownlinkRequest => "failed-downlink",
        AgentExecError::FailedRestoration { .. } => "failed-restoration",
        AgentExecError::PersistenceFailure(_) => "persistence-failure",
    }
}

impl Run {
    fn start(log: Arc<Mutex<Log>>, store: RecStore, transient: bool, rbuf: usize) -> Run {
        let crash = log.lock().crash.clone();
        let life = PLife { log: log.clone() };
        let agent = AgentModel::new(PAgent::default, life.into_lifecycle());
        let (att_tx, att_rx) = mpsc::channel(8);
        let (http_tx, http_rx) = mpsc::channel(8);
        let (link_tx, link_rx) = mpsc::channel(8);
        let (stop_tx, stop_rx) = trigger::trigger();
        let buf = NonZeroUsize::new(4096).unwrap();
        let config = CombinedAgentConfig {
            agent_config: AgentConfig {
                default_lane_config: Some(LaneConfig {
                    input_buffer_size: buf,
                    output_buffer_size: buf,
                    transient,
                }),
                ..Default::default()
            },
            runtime_config: AgentRuntimeConfig {
                inactive_timeout: INACTIVE,
                prune_remote_delay: INACTIVE,
                shutdown_timeout: INACTIVE,
                ..Default::default()
            },
        };
        let task = AgentRouteTask::new(
            &agent,
            AgentRouteDescriptor {
                identity: Uuid::from_u128(1),
                route: NODE.parse().unwrap(),
                route_params: HashMap::new(),
            },
            AgentRouteChannels::new(att_rx, http_rx, link_tx),
            stop_rx,
            config,
            None,
        );
        let fut = task.run_agent_with_store(ready(Ok(store)));
        let keep: Vec<Box<dyn std::any::Any>> = vec![Box::new(http_tx), Box::new(link_rx)];
        Run {
            log,
            crash,
            agent: Box::pin(fut),
            ended: None,
            att_tx,
            stop_tx: Some(stop_tx),
            remotes: BTreeMap::new(),
            rbuf,
            _keep: Rc::new(RefCell::new(keep)),
        }
    }

    fn note_end(&mut self, r: Result<(), AgentExecError>) {
        let how = match &r {
            Ok(()) => "ok".to_string(),
            Err(e) => err_kind(e).to_string(),
        };
        self.log.lock().push(format!("ended {}", how), "ok".into());
        self.ended = Some(how);
    }
}

/// Run `f` while polling the agent alongside; `None` = the crash cut was reached (stop polling everything).
async fn drive<T>(
    crash: &Notify,
    agent: &mut AgentFut,
    ended: &mut Option<Result<(), AgentExecError>>,
    f: impl Future<Output = T>,
) -> Option<T> {
    tokio::pin!(f);
    loop {
        tokio::select! {
            biased;
            _ = crash.notified() => return None,
            r = agent.as_mut(), if ended.is_none() => { *ended = Some(r); }
            x = &mut f => return Some(x),
        }
    }
}

impl Run {
    async fn with<T>(&mut self, f: impl Future<Output = T>) -> Option<T> {
        let mut e: Option<Result<(), AgentExecError>> = None;
        let crash = self.crash.clone();
        let r = if self.ended.is_some() {
            // the agent has finished: only the crash signal and the step itself
            let mut never: AgentFut = Box::pin(futures::future::pending());
            let mut done = Some(Ok(()));
            drive(&crash, &mut never, &mut done, f).await
        } else {
            drive(&crash, &mut self.agent, &mut e, f).await
        };
        if let Some(res) = e {
            self.note_end(res);
        }
        if self.log.lock().dead {
            return None;
        }
        r
    }

    async fn attach(&mut self, r: u64) -> Option<()> {
        let size = NonZeroUsize::new(self.rbuf).unwrap();
        let (in_tx, in_rx) = byte_channel(NonZeroUsize::new(4096).unwrap());
        let (out_tx, out_rx) = byte_channel(size);
        let (comp_tx, comp_rx) = promise::promise();
        let (on_tx, on_rx) = trigger::trigger();
        let req = AgentAttachmentRequest::with_confirmation(rid(r), (out_tx, in_rx), comp_tx, on_tx);
        let att = self.att_tx.clone();
        self.with(async move {
            let _ = att.send(req).await;
            let _ = on_rx.await;
        })
        .await?;
        let (gate_tx, gate_rx) = watch::channel(false);
        let reader = tokio::task::spawn_local(reader_task(r, out_rx, gate_rx, self.log.clone()));
        if let Some(old) = self.remotes.insert(
            r,
            RemoteH {
                tx: FramedWrite::new(in_tx, RawRequestMessageEncoder),
                gate: gate_tx,
                reader,
                _completion: comp_rx,
            },
        ) {
            old.reader.abort();
        }
        Some(())
    }

    async fn request(&mut self, r: u64, msg: RequestMessage<&str, Bytes>) -> Option<()> {
        let mut h = match self.remotes.remove(&r) {
            Some(h) => h,
            None => return Some(()),
        };
        let res = self
            .with(async {
                let _ = h.tx.send(msg).await;
            })
            .await;
        self.remotes.insert(r, h);
        res
    }

    async fn step(&mut self, step: &str) -> Option<()> {
        let parts: Vec<&str> = step.split_whitespace().collect();
        let addr = |lane| RelativeAddress::new(NODE, lane);
        let r = match parts.as_slice() {
            ["attach", r] => self.attach(r.parse().ok()?).await,
            ["link", r, lane] => {
                let r: u64 = r.parse().ok()?;
                self.request(r, RequestMessage::link(rid(r), addr(*lane))).await
            }
            ["sync", r, lane] => {
                let r: u64 = r.parse().ok()?;
                self.request(r, RequestMessage::sync(rid(r), addr(*lane))).await
            }
            ["unlink", r, lane] => {
                let r: u64 = r.parse().ok()?;
                self.request(r, RequestMessage::unlink(rid(r), addr(*lane))).await
            }
            ["cmd", r, lane, body] => {
                let r: u64 = r.parse().ok()?;
                let body = Bytes::from(svh::unhex(body)?);
                self.request(r, RequestMessage::command(rid(r), addr(*lane), body)).await
            }
            ["stall", r] => {
                if let Some(h) = self.remotes.get(&r.parse().ok()?) {
                    let _ = h.gate.send(true);
                }
                Some(())
            }
            ["resume", r] => {
                if let Some(h) = self.remotes.get(&r.parse().ok()?) {
                    let _ = h.gate.send(false);
                }
                Some(())
            }
            ["drop", r] => {
                if let Some(h) = self.remotes.remove(&r.parse().ok()?) {
                    h.reader.abort();
                }
                Some(())
            }
            ["wait"] => self.with(tokio::time::sleep(Duration::from_millis(50))).await,
            _ => Some(()),
        };
        r
    }

    /// Clean stop: trigger the stop signal and wait for the agent task to finish.
    async fn stop(&mut self) -> Option<()> {
        if let Some(s) = self.stop_tx.take() {
            s.trigger();
        }
        self.with(tokio::time::sleep(Duration::from_secs(2))).await?;
        self.with(tokio::time::sleep(INACTIVE * 3)).await
    }

    async fn finish(&mut self) {
        if self.ended.is_none() && !self.log.lock().dead {
            self.log.lock().push("ended running".into(), "ok".into());
        }
        for (_, h) in std::mem::take(&mut self.remotes) {
            h.reader.abort();
        }
    }
}

// ------------------------------------------------------------------------------------------------ cases

#[derive(Clone, Debug)]
struct Plan {
    transient: bool,
    rbuf: usize,
    script: Vec<String>,
    end: String, // stop | idle | crashS n | crashF n | fail n
    /// commands issued (through remote 9) after the restart, followed by a second restart
    script2: Vec<String>,
}

const ITEMS: &[(&str, &str, bool, bool)] = &[
    // name, kind, is lane, flagged transient
    ("v", "value", true, false),
    ("m", "map", true, false),
    ("t", "value", true, true),
    ("vs", "value", false, false),
    ("ms", "map", false, false),
    ("ts", "value", false, true),
];

fn in_rt<T>(f: impl FnOnce(&tokio::runtime::Runtime, &LocalSet) -> T) -> T {
    let rt = tokio::runtime::Builder::new_current_thread()
        .enable_time()
        .start_paused(true)
        .build()
        .unwrap();
    let local = LocalSet::new();
    let r = f(&rt, &local);
    drop(local);
    drop(rt);
    r
}

/// Restart a fresh agent against the same store, let `on_start` report, probe the stores and sync every lane
/// (`restored` lines); then run `tail` (more commands through remote 9) and stop cleanly.
fn restart_phase(log: &Arc<Mutex<Log>>, store: &RecStore, transient: bool, tail: &[String]) {
    {
        let mut l = log.lock();
        l.dead = false;
        l.cut = Cut::None;
        l.crash = Arc::new(Notify::new());
        l.frames.clear();
        l.push("restart".into(), "ok".into());
    }
    in_rt(|rt, local| {
        local.block_on(rt, async {
            let mut run = Run::start(log.clone(), store.clone(), transient, 4096);
            let probe = hex(b"\"probe\"");
            let steps = vec![
                "attach 9".to_string(),
                format!("cmd 9 ctl {}", probe),
                "wait".to_string(),
                "sync 9 v".to_string(),
                "sync 9 m".to_string(),
                "sync 9 t".to_string(),
                "sync 9 rep".to_string(),
                "wait".to_string(),
            ];
            for s in &steps {
                log.lock().push(format!("do {}", s), "ok".into());
                if run.step(s).await.is_none() {
                    break;
                }
            }
            // what remote 9 saw
            let frames = log.lock().frames.clone();
            for lane in ["v", "m", "t"] {
                let mut synced = false;
                let mut val: Option<String> = None;
                let mut map: BTreeMap<String, String> = BTreeMap::new();
                for (r, l, note) in &frames {
                    if *r != 9 || l != lane || synced {
                        continue;
                    }
                    let w: Vec<&str> = note.split_whitespace().collect();
                    match w.as_slice() {
                        ["synced"] => synced = true,
                        ["event", "upd", k, v] => {
                            map.insert(k.to_string(), v.to_string());
                        }
                        ["event", "rem", k] => {
                            map.remove(*k);
                        }
                        ["event", "clr"] => map.clear(),
                        ["event", b] => val = Some(b.to_string()),
                        _ => {}
                    }
                }
                let state = if !synced {
                    "none".to_string()
                } else if lane == "m" {
                    if map.is_empty() {
                        "map=-".into()
                    } else {
                        format!("map={}", map.iter().map(|(k, v)| format!("{}:{}", k, v)).collect::<Vec<_>>().join(","))
                    }
                } else {
                    val.map(|v| format!("val={}", v)).unwrap_or_else(|| "none".into())
                };
                log.lock().push(format!("restored {}", lane), state);
            }
            // the stores, through the probe report
            let mut rep: Option<String> = None;
            let mut rep_synced = false;
            for (r, l, note) in &frames {
                if *r == 9 && l == "rep" && !rep_synced {
                    let w: Vec<&str> = note.split_whitespace().collect();
                    match w.as_slice() {
                        ["synced"] => rep_synced = true,
                        ["event", b] => rep = svh::unhex(b).and_then(|x| String::from_utf8(x).ok()),
                        _ => {}
                    }
                }
            }
            let fields: HashMap<String, String> = rep
                .filter(|_| rep_synced)
                .map(|s| {
                    s.trim_matches('"')
                        .split(';')
                        .filter_map(|kv| kv.split_once('=').map(|(k, v)| (k.to_string(), v.to_string())))
                        .collect()
                })
                .unwrap_or_default();
            for st in ["vs", "ms", "ts"] {
                let state = fields
                    .get(st)
                    .map(|x| format!("{}={}", if st == "ms" { "map" } else { "val" }, x))
                    .unwrap_or_else(|| "none".into());
                log.lock().push(format!("restored {}", st), state);
            }
            // the restarted agent is live again: it keeps working (and persisting) after the restore
            log.lock().push("live".into(), "ok".into());
            for s in tail {
                log.lock().push(format!("do {}", s), "ok".into());
                if run.step(s).await.is_none() {
                    break;
                }
            }
            let _ = run.stop().await;
            run.finish().await;
        })
    });
}

/// Executes one plan; returns the log lines and the number of (store ops, frames) of the first phase.
fn run_plan(plan: &Plan) -> (Vec<(String, String)>, usize, usize) {
    let log = Arc::new(Mutex::new(Log::new()));
    let store = RecStore { inner: Arc::new(Mutex::new(StoreInner::default())), log: log.clone() };
    {
        let mut l = log.lock();
        l.push(format!("cfg transient={} rbuf={}", plan.transient as u8, plan.rbuf), "ok".into());
        for (name, kind, lane, flagged) in ITEMS {
            let persistent = !*flagged && !(*lane && plan.transient);
            let def = if *kind == "value" { hx(0) } else { "-".to_string() };
            l.push(format!("item {} {} {} {}", name, kind, persistent as u8, def), "ok".into());
        }
        for s in &plan.script {
            l.push(format!("script {}", s), "ok".into());
        }
        for s in &plan.script2 {
            l.push(format!("script2 {}", s), "ok".into());
        }
        l.push(format!("end {}", plan.end), "ok".into());
        let e: Vec<&str> = plan.end.split_whitespace().collect();
        l.cut = match e.as_slice() {
            ["crashS", n] => Cut::AfterStore(n.parse().unwrap_or(0)),
            ["crashF", n] => Cut::AfterFrame(n.parse().unwrap_or(0)),
            ["fail", n] => Cut::FailStore(n.parse().unwrap_or(0)),
            _ => Cut::None,
        };
    }
    // ---- phase 1
    in_rt(|rt, local| {
        local.block_on(rt, async {
            let mut run = Run::start(log.clone(), store.clone(), plan.transient, plan.rbuf);
            let mut alive = true;
            for s in &plan.script {
                log.lock().push(format!("do {}", s), "ok".into());
                if run.step(s).await.is_none() {
                    alive = false;
                    break;
                }
            }
            if alive {
                let end = plan.end.split_whitespace().next().unwrap_or("stop").to_string();
                match end.as_str() {
                    "idle" => {
                        // nothing happens for much longer than the inactivity time-out
                        let _ = run.with(tokio::time::sleep(INACTIVE * 4)).await;
                    }
                    _ => {
                        let _ = run.stop().await;
                    }
                }
            }
            run.finish().await;
        })
    });
    let (ns, nf) = {
        let l = log.lock();
        (l.nstore, l.nframe)
    };
    // ---- phase 2: restart against the same store, sync everything, then go on working
    restart_phase(&log, &store, plan.transient, &plan.script2);
    if !plan.script2.is_empty() {
        // ---- phase 3: the work done after the restore must itself survive a restart
        restart_phase(&log, &store, plan.transient, &[]);
    }
    let lines = std::mem::take(&mut log.lock().lines);
    (lines, ns, nf)
}

fn emit(t: &mut Trace, id: String, lines: &[(String, String)]) {
    t.case(id);
    for (op, out) in lines {
        t.op(op, out);
    }
}

// ------------------------------------------------------------------------------------------------ generator

fn recon_str(s: &str) -> String {
    hex(format!("\"{}\"", s).as_bytes())
}

/// One command: to the value lane, the map lane, the transient lane, or (through `ctl`) to a store.
fn gen_cmd(rng: &mut Rng, present: &mut Vec<i64>, ms_present: &mut Vec<i64>) -> (&'static str, String) {
    let val = if rng.chance(1, 10) { rng.below(100000) as i64 - 50000 } else { rng.below(40) as i64 - 5 };
    let key = rng.range(1, 3) as i64;
    let y = rng.below(100);
    if y < 22 {
        ("v", hex(val.to_string().as_bytes()))
    } else if y < 42 {
        present.retain(|k| *k != key);
        present.push(key);
        ("m", hex(format!("@update(key:{}) {}", key, val).as_bytes()))
    } else if y < 50 && present.is_empty() && rng.chance(11, 12) {
        // (removing an absent key silences the lane for good — F18 — so it is kept rare)
        present.push(key);
        ("m", hex(format!("@update(key:{}) {}", key, val).as_bytes()))
    } else if y < 50 {
        let k = if !present.is_empty() && rng.chance(11, 12) { *rng.pick(&present) } else { key };
        present.retain(|q| *q != k);
        ("m", hex(format!("@remove(key:{})", k).as_bytes()))
    } else if y < 52 {
        present.clear();
        ("m", hex(b"@clear"))
    } else if y < 54 && present.len() >= 2 {
        // keep / drop the first key(s): the lane turns it into removes (the known contents become approximate)
        let verb = if rng.chance(1, 2) { "take" } else { "drop" };
        present.clear();
        ("m", hex(format!("@{}(1)", verb).as_bytes()))
    } else if y < 54 {
        ("v", hex(val.to_string().as_bytes()))
    } else if y < 62 {
        ("t", hex(val.to_string().as_bytes()))
    } else if y < 74 {
        ("ctl", recon_str(&format!("vs {}", val)))
    } else if y < 88 {
        ms_present.retain(|k| *k != key);
        ms_present.push(key);
        ("ctl", recon_str(&format!("ms u {} {}", key, val)))
    } else if y < 93 && ms_present.is_empty() && rng.chance(11, 12) {
        ms_present.push(key);
        ("ctl", recon_str(&format!("ms u {} {}", key, val)))
    } else if y < 93 {
        let k = if !ms_present.is_empty() && rng.chance(11, 12) { *rng.pick(&ms_present) } else { key };
        ms_present.retain(|q| *q != k);
        ("ctl", recon_str(&format!("ms r {}", k)))
    } else if y < 96 {
        ms_present.clear();
        ("ctl", recon_str("ms c"))
    } else {
        ("ctl", recon_str(&format!("ts {}", val)))
    }
}

fn gen_plan(rng: &mut Rng) -> Plan {
    let transient = rng.chance(1, 8);
    let rbuf = *rng.pick(&[40usize, 96, 4096, 4096]);
    let two = rng.chance(1, 2);
    let mut script: Vec<String> = vec!["attach 1".into()];
    if two {
        script.push("attach 2".into());
    }
    let remotes: Vec<u64> = if two { vec![1, 2] } else { vec![1] };
    let lanes = ["v", "m", "t", "v", "m"];
    for r in &remotes {
        for _ in 0..rng.range(1, 3) {
            let lane = *rng.pick(&lanes);
            let verb = if rng.chance(1, 2) { "link" } else { "sync" };
            script.push(format!("{} {} {}", verb, r, lane));
        }
    }
    if rng.chance(2, 3) {
        script.push("wait".into());
    }
    let mut present: Vec<i64> = vec![];
    let mut ms_present: Vec<i64> = vec![];
    let n = rng.range(4, 22);
    for _ in 0..n {
        let r = *rng.pick(&remotes);
        let x = rng.below(100);
        if x < 62 {
            let (lane, body) = gen_cmd(rng, &mut present, &mut ms_present);
            script.push(format!("cmd {} {} {}", r, lane, body));
        } else if x < 82 {
            script.push("wait".into());
        } else if x < 93 {
            let lane = *rng.pick(&lanes);
            let verb = *rng.pick(&["link", "sync", "sync", "unlink"]);
            script.push(format!("{} {} {}", verb, r, lane));
        } else if x < 98 {
            script.push(format!("{} {}", if rng.chance(1, 2) { "stall" } else { "resume" }, r));
        } else {
            script.push(format!("drop {}", r));
        }
    }
    if rng.chance(4, 5) {
        script.push("wait".into());
    }
    // after the restart: a few more commands (the known map contents are carried over only approximately)
    let mut script2: Vec<String> = vec![];
    if rng.chance(3, 4) {
        for _ in 0..rng.range(1, 5) {
            let (lane, body) = gen_cmd(rng, &mut present, &mut ms_present);
            script2.push(format!("cmd 9 {} {}", lane, body));
            if rng.chance(1, 4) {
                script2.push("wait".into());
            }
        }
        script2.push("wait".into());
    }
    Plan { transient, rbuf, script, end: "stop".into(), script2 }
}

/// A history and all its cuts.
fn run_family(t: &mut Trace, base: &Plan, tag: &str, max_cuts: usize, rng: &mut Rng) {
    let (lines, ns, nf) = run_plan(base);
    emit(t, format!("{} stop", tag), &lines);
    let mut idle = base.clone();
    idle.end = "idle".into();
    emit(t, format!("{} idle", tag), &run_plan(&idle).0);
    let mut cuts: Vec<String> = vec![];
    for n in 1..=ns {
        cuts.push(format!("crashS {}", n));
        cuts.push(format!("fail {}", n));
    }
    for n in 1..=nf {
        cuts.push(format!("crashF {}", n));
    }
    if cuts.len() > max_cuts {
        // keep a random subset of the requested size (thorough runs use all)
        for i in 0..max_cuts {
            let j = i + rng.below((cuts.len() - i) as u64) as usize;
            cuts.swap(i, j);
        }
        cuts.truncate(max_cuts);
    }
    for c in cuts {
        let mut p = base.clone();
        p.end = c.clone();
        emit(t, format!("{} {}", tag, c), &run_plan(&p).0);
    }
}

fn plan_of_ops(ops: &[String]) -> Plan {
    let mut p = Plan { transient: false, rbuf: 4096, script: vec![], end: "stop".into(), script2: vec![] };
    for op in ops {
        let w: Vec<&str> = op.split_whitespace().collect();
        match w.as_slice() {
            ["cfg", a, b] => {
                p.transient = a.ends_with("=1");
                p.rbuf = b.split('=').nth(1).and_then(|s| s.parse().ok()).unwrap_or(4096);
            }
            ["script", rest @ ..] => p.script.push(rest.join(" ")),
            ["script2", rest @ ..] => p.script2.push(rest.join(" ")),
            ["end", rest @ ..] => p.end = rest.join(" "),
            _ => {}
        }
    }
    p
}

fn main() {
    match parse_args() {
        Mode::Gen { seed, cases, out } => {
            let extra: Vec<String> = std::env::args().skip(5).collect();
            let max_cuts: usize = extra.first().and_then(|s| s.parse().ok()).unwrap_or(usize::MAX);
            let mut t = Trace::create(&out);
            let mut rng = Rng::new(seed);
            for c in 0..cases {
                let plan = gen_plan(&mut rng);
                run_family(&mut t, &plan, &format!("{} seed={}", c, seed), max_cuts, &mut rng);
            }
            t.finish();
        }
        Mode::Replay { ops, out } => {
            let mut t = Trace::create(&out);
            for (i, case) in ops.iter().enumerate() {
                let plan = plan_of_ops(case);
                emit(&mut t, i.to_string(), &run_plan(&plan).0);
            }
            t.finish();
        }
    }
}
