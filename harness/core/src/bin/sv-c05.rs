//! C05 end-to-end engine: a REAL agent (value lane, map lane, transient value lane, value store, map store,
//! transient value store, command lane) on the REAL agent runtime (`AgentRouteTask::run_agent_with_store`) with a
//! recording `NodePersistence` (public trait) that logs every call into one log shared with the remote-side
//! frame log. Runs are executed on a `current_thread` tokio runtime with paused time. A history is run to a
//! clean stop, to an inactivity time-out, and with a crash (everything dropped) after the n-th store operation /
//! after the n-th frame delivered to a remote / with a store failure at the n-th store operation, for EVERY n;
//! after each, a fresh agent is started against the same store and every lane is synced.
//!
//! Trace lines (`op ;; out`):
//!   cfg transient=<0|1> rbuf=<n>                  ;; ok        configuration of the case
//!   item <name> <value|map> <persistent> <default> ;; ok        the items of the agent (as configured)
//!   script <step…> / end <mode> [n]               ;; ok        the complete plan (what `replay` re-executes)
//!   do <step…>                                    ;; ok        a step of the script was executed
//!   idfor <name>                                  ;; id=<id>   NodePersistence::id_for
//!   store get <id> | store readmap <id>           ;; <state>   reads (initialisation)
//!   store put <id> <hex> | upd <id> <k> <v> | rem <id> <k> | clr <id>   ;; ok     writes
//!   storefail                                     ;; ok        the injected store error was returned
//!   send <remote> <lane> linked|synced|unlinked|event <body…>   ;; ok   a frame was delivered to a remote
//!   crash                                         ;; ok        the cut: everything is dropped here
//!   ended <how>                                   ;; ok        the agent task finished (ok / error kind / running)
//!   restart                                       ;; ok        a fresh agent is started against the same store
//!   live                                          ;; ok        restore checked; `script2` (if any) runs now, then a
//!                                                              clean stop and one more restart
//!   start                                         ;; at-start <name>=<state>…  what `on_start` saw in every item
//!   restored <item>                               ;; val=<hex> | map=<entries> | none   what a sync (or the probe) saw
//! (states: `val=<hex>` / `val=none`, `map=<khex>:<vhex>,…` sorted by key bytes, `map=-` when empty)
//!
//! The `late` rig (`cfg late …`): the agent is a harness-implemented `Agent` (`LateAgent`) run by the same real
//! runtime. It registers the lanes `iv` (value) and `im` (map) during the initialisation phase and, on the scripted
//! step `addlane <name> <value|map> <transient>`, calls `AgentContext::add_lane` WHILE THE AGENT IS RUNNING
//! (→ `WriteTaskMessage::Lane` → `handle_task_message` → `Initialization::add_lane` → `TaskMessageResult::AddLane`);
//! the harness plays the lane side of the protocol on the returned channels (initialisation from the store:
//! `Command`* `InitComplete` → `Initialized`; commands → `StandardEvent`; `Sync` → `SyncEvent`* `Synced`).
//!   added <name> <ok|err>   ;; ok     `add_lane` returned the channels / an error
//!   init <name>    ;; val=… | map=…       what the lane held when its initialisation was complete
//! After the cut / stop a fresh agent is started on the same store, the same lanes are registered again (at run
//! time, or — `reinit=early` — during initialisation), and every lane is synced (`restored` lines).
use std::cell::RefCell;
use std::collections::{BTreeMap, HashMap};
use std::future::Future;
use std::num::NonZeroUsize;
use std::pin::Pin;
use std::rc::Rc;
use std::sync::Arc;
use std::time::Duration;

use bytes::{Bytes, BytesMut};
use futures::future::{ready, BoxFuture};
use futures::stream::FuturesUnordered;
use futures::{FutureExt, SinkExt, StreamExt};
use parking_lot::Mutex;
use svh::{hex, parse_args, Mode, Rng, Trace};
use swimos::agent::agent_lifecycle::HandlerContext;
use swimos::agent::agent_model::{AgentDescription, AgentModel};
use swimos::agent::event_handler::{EventHandler, HandlerActionExt, UnitHandler};
use swimos::agent::lanes::{CommandLane, MapLane, ValueLane};
use swimos::agent::stores::{MapStore, ValueStore};
use swimos::agent::{lifecycle, projections, AgentLaneModel};
use swimos_api::address::RelativeAddress;
use swimos_agent_protocol::encoding::lane::{
    RawMapLaneRequestDecoder, RawMapLaneResponseEncoder, RawValueLaneRequestDecoder, RawValueLaneResponseEncoder,
};
use swimos_agent_protocol::encoding::store::{RawValueStoreInitDecoder, StoreInitializedCodec};
use swimos_agent_protocol::{
    LaneRequest, LaneResponse, MapMessage, MapOperation, StoreInitMessage, StoreInitialized,
};
use swimos_api::agent::StoreKind;
use swimos_api::agent::{Agent, AgentConfig, AgentContext, AgentInitResult, LaneConfig, WarpLaneKind};
use swimos_api::error::AgentTaskError;
use swimos_utilities::routing::RouteUri;
use swimos_api::error::StoreError;
use swimos_api::persistence::{KeyValue, NodePersistence, RangeConsumer};
use swimos_messages::protocol::{
    Notification, RawRequestMessageEncoder, RawResponseMessageDecoder, RequestMessage,
};
use swimos_runtime::agent::{
    AgentAttachmentRequest, AgentExecError, AgentRouteChannels, AgentRouteDescriptor, AgentRouteTask,
    AgentRuntimeConfig, CombinedAgentConfig, DisconnectionReason,
};
use swimos_utilities::byte_channel::{byte_channel, ByteReader, ByteWriter};
use swimos_utilities::trigger::{self, promise};
use tokio::sync::{mpsc, oneshot, watch, Notify};
use tokio::task::{JoinHandle, LocalSet};
use tokio_util::codec::{FramedRead, FramedWrite};
use uuid::Uuid;

// ------------------------------------------------------------------------------------------------ the agent

#[projections]
#[derive(AgentLaneModel)]
struct PAgent {
    // `Option<i32>`: the Recon of `None` is the EMPTY byte string - an empty value is an ordinary value
    // (stored with an empty payload, restored by an init command with an empty body, never a delete / remove)
    v: ValueLane<Option<i32>>,
    m: MapLane<i32, Option<i32>>,
    #[item(transient)]
    t: ValueLane<i32>,
    vs: ValueStore<Option<i32>>,
    ms: MapStore<i32, Option<i32>>,
    // large state: values of several KB (restored across several reads of the init channel)
    b: ValueLane<String>,
    bs: ValueStore<String>,
    #[item(transient)]
    ts: ValueStore<i32>,
    ctl: CommandLane<String>,
    #[item(transient)]
    rep: ValueLane<String>,
}

#[derive(Clone)]
struct PLife {
    log: Arc<Mutex<Log>>,
}

/// The agent with `v` and `vs` starting at `Some(0)`: their default must differ from the empty value, otherwise
/// "the empty value was not restored" could not be told from "restored".
fn make_pagent() -> PAgent {
    let mut a = PAgent::default();
    let id_of = |a: &PAgent, name: &str| {
        (0..32u64)
            .find(|i| a.item_name(*i).map(|n| n == name).unwrap_or(false))
            .expect("item id")
    };
    a.v = ValueLane::new(id_of(&a, "v"), Some(0));
    a.vs = ValueStore::new(id_of(&a, "vs"), Some(0));
    a
}

/// `n` characters, not all equal (so that a shifted / truncated restore is visible).
fn big_string(n: usize, c: char) -> String {
    (0..n).map(|i| if i % 97 == 0 { 'Q' } else { c }).collect()
}

fn opt_bytes(v: &Option<i32>) -> Vec<u8> {
    v.map(|n| n.to_string().into_bytes()).unwrap_or_default()
}

/// The Recon bytes of a string value (what the store holds for it), in hex.
fn hxs(v: &str) -> String {
    hex(format!("{}", swimos_recon::print_recon_compact(&v.to_string())).as_bytes())
}

fn hxo(v: Option<i32>) -> String {
    hex(&opt_bytes(&v))
}

fn fmt_map(m: &HashMap<i32, Option<i32>>) -> String {
    let mut es: Vec<(Vec<u8>, Vec<u8>)> = m
        .iter()
        .map(|(k, v)| (k.to_string().into_bytes(), opt_bytes(v)))
        .collect();
    es.sort();
    render_entries(&es)
}

fn render_entries(es: &[(Vec<u8>, Vec<u8>)]) -> String {
    if es.is_empty() {
        return "-".into();
    }
    es.iter()
        .map(|(k, v)| format!("{}:{}", hex(k), hex(v)))
        .collect::<Vec<_>>()
        .join(",")
}

fn hx(n: i32) -> String {
    hex(n.to_string().as_bytes())
}

#[lifecycle(PAgent)]
impl PLife {
    #[on_start]
    fn on_start(&self, context: HandlerContext<PAgent>) -> impl EventHandler<PAgent> {
        let log = self.log.clone();
        context.get_value(PAgent::V).and_then(move |v: Option<i32>| {
            context.get_map(PAgent::M).and_then(move |m: HashMap<i32, Option<i32>>| {
                context.get_value(PAgent::T).and_then(move |t: i32| {
                    context.get_value(PAgent::VS).and_then(move |vs: Option<i32>| {
                        context.get_map(PAgent::MS).and_then(move |ms: HashMap<i32, Option<i32>>| {
                            context.get_value(PAgent::TS).and_then(move |ts: i32| {
                                context.get_value(PAgent::B).and_then(move |b: String| {
                                    context.get_value(PAgent::BS).and_then(move |bs: String| {
                                        context.effect(move || {
                                            let line = format!(
                                                "at-start v={} m={} t={} vs={} ms={} ts={} b={} bs={}",
                                                hxo(v),
                                                fmt_map(&m),
                                                hx(t),
                                                hxo(vs),
                                                fmt_map(&ms),
                                                hx(ts),
                                                hxs(&b),
                                                hxs(&bs)
                                            );
                                            log.lock().push("start".into(), line);
                                        })
                                    })
                                })
                            })
                        })
                    })
                })
            })
        })
    }

    #[on_command(ctl)]
    fn on_ctl(&self, context: HandlerContext<PAgent>, cmd: &String) -> impl EventHandler<PAgent> {
        let parts: Vec<&str> = cmd.split(' ').collect();
        let num = |s: &str| s.parse::<i32>().unwrap_or(0);
        // `none`: the value with the empty encoding
        let opt = |s: &str| if s == "none" { None } else { Some(s.parse::<i32>().unwrap_or(0)) };
        match parts.as_slice() {
            ["vs", n] => context.set_value(PAgent::VS, opt(n)).boxed_local(),
            ["ts", n] => context.set_value(PAgent::TS, num(n)).boxed_local(),
            ["ms", "u", k, v] => context.update(PAgent::MS, num(k), opt(v)).boxed_local(),
            ["ms", "r", k] => context.remove(PAgent::MS, num(k)).boxed_local(),
            ["ms", "c"] => context.clear(PAgent::MS).boxed_local(),
            // a string of `n` characters (large state)
            ["bs", n] => context
                .set_value(PAgent::BS, big_string(n.parse::<usize>().unwrap_or(0), 'y'))
                .boxed_local(),
            ["probe"] => context
                .get_value(PAgent::VS)
                .and_then(move |vs: Option<i32>| {
                    context.get_map(PAgent::MS).and_then(move |ms: HashMap<i32, Option<i32>>| {
                        context.get_value(PAgent::TS).and_then(move |ts: i32| {
                            context.get_value(PAgent::BS).and_then(move |bs: String| {
                                context.set_value(
                                    PAgent::REP,
                                    format!("vs={};ms={};ts={};bs={}", hxo(vs), fmt_map(&ms), hx(ts), hxs(&bs)),
                                )
                            })
                        })
                    })
                })
                .boxed_local(),
            _ => UnitHandler::default().boxed_local(),
        }
    }
}

// ------------------------------------------------------------------------------------------------ the late rig

/// Lanes of the late rig: (name, is map, transient, registered during the initialisation phase).
const LATE_LANES: &[(&str, bool, bool, bool)] = &[
    ("iv", false, false, true),
    ("im", true, false, true),
    ("lv", false, false, false),
    ("lw", false, false, false),
    ("lm", true, false, false),
    ("lt", false, true, false),
    ("lmt", true, true, false),
];

enum AgentCmd {
    /// call `AgentContext::add_lane` now (the agent is running); `done` fires when the lane is initialised
    AddLane { name: String, map: bool, transient: bool, done: oneshot::Sender<()> },
    /// call `AgentContext::add_store` now (a value store); `done` fires when it is initialised
    AddStore { name: String, done: oneshot::Sender<()> },
    /// the store publishes a new value (raw bytes)
    SetStore { name: String, value: Vec<u8> },
}

/// The agent side of the (value) store protocol: `Command*` `InitComplete` → `StoreInitialized`, then one
/// `StoreResponse` per change (same framing as a lane's `StandardEvent`).
async fn value_store(
    name: String,
    io: (ByteWriter, ByteReader),
    log: Arc<Mutex<Log>>,
    done: oneshot::Sender<()>,
    mut sets: mpsc::UnboundedReceiver<Vec<u8>>,
) {
    let (tx, rx) = io;
    let mut state: Vec<u8> = b"0".to_vec();
    {
        let mut rd = FramedRead::new(rx, RawValueStoreInitDecoder::default());
        loop {
            match rd.next().await {
                Some(Ok(StoreInitMessage::Command(b))) => state = b.to_vec(),
                Some(Ok(StoreInitMessage::InitComplete)) => break,
                _ => return,
            }
        }
    }
    let mut tx = tx;
    {
        let mut ack = FramedWrite::new(&mut tx, StoreInitializedCodec);
        if ack.send(StoreInitialized).await.is_err() {
            return;
        }
    }
    log.lock().push(format!("init {}", name), format!("val={}", hex(&state)));
    let _ = done.send(());
    let mut wr = FramedWrite::new(tx, RawValueLaneResponseEncoder::default());
    while let Some(v) = sets.recv().await {
        if wr.send(LaneResponse::StandardEvent(v.as_slice())).await.is_err() {
            return;
        }
    }
}

/// An `Agent` implemented by the harness: registers `early` during initialisation, further lanes on command.
struct LateAgent {
    log: Arc<Mutex<Log>>,
    /// input buffer of every lane
    ibuf: usize,
    early: Vec<(String, bool, bool)>,
    cmds: Arc<Mutex<Option<mpsc::UnboundedReceiver<AgentCmd>>>>,
}

fn lane_cfg(transient: bool, ibuf: usize) -> LaneConfig {
    LaneConfig {
        input_buffer_size: NonZeroUsize::new(ibuf.max(1)).unwrap(),
        output_buffer_size: NonZeroUsize::new(4096).unwrap(),
        transient,
    }
}

/// The lane side of the value-lane protocol (state = raw bytes, default `0`).
async fn value_lane(
    name: String,
    transient: bool,
    io: (ByteWriter, ByteReader),
    log: Arc<Mutex<Log>>,
    done: Option<oneshot::Sender<()>>,
) {
    let (tx, rx) = io;
    let mut rd = FramedRead::new(rx, RawValueLaneRequestDecoder::default());
    let mut wr = FramedWrite::new(tx, RawValueLaneResponseEncoder::default());
    let mut state: Vec<u8> = b"0".to_vec();
    if !transient {
        // initialisation from the store: the stored value (if any) as a command, then `InitComplete`
        loop {
            match rd.next().await {
                Some(Ok(LaneRequest::Command(b))) => state = b.to_vec(),
                Some(Ok(LaneRequest::InitComplete)) => break,
                Some(Ok(LaneRequest::Sync(_))) => {}
                _ => return,
            }
        }
        if wr.send(LaneResponse::<&[u8]>::Initialized).await.is_err() {
            return;
        }
    }
    log.lock().push(format!("init {}", name), format!("val={}", hex(&state)));
    if let Some(d) = done {
        let _ = d.send(());
    }
    loop {
        match rd.next().await {
            Some(Ok(LaneRequest::Command(b))) => {
                state = b.to_vec();
                if wr.send(LaneResponse::StandardEvent(state.as_slice())).await.is_err() {
                    return;
                }
            }
            Some(Ok(LaneRequest::Sync(id))) => {
                if wr.send(LaneResponse::SyncEvent(id, state.as_slice())).await.is_err()
                    || wr.send(LaneResponse::<&[u8]>::Synced(id)).await.is_err()
                {
                    return;
                }
            }
            Some(Ok(LaneRequest::InitComplete)) => {}
            _ => return,
        }
    }
}

type MapSt = BTreeMap<Vec<u8>, Vec<u8>>;

/// Applies a map message; returns the operations the lane publishes for it.
fn map_apply(state: &mut MapSt, msg: MapMessage<BytesMut, BytesMut>) -> Vec<MapOperation<Vec<u8>, Vec<u8>>> {
    match msg {
        MapMessage::Update { key, value } => {
            state.insert(key.to_vec(), value.to_vec());
            vec![MapOperation::Update { key: key.to_vec(), value: value.to_vec() }]
        }
        MapMessage::Remove { key } => {
            state.remove(key.as_ref());
            vec![MapOperation::Remove { key: key.to_vec() }]
        }
        MapMessage::Clear => {
            state.clear();
            vec![MapOperation::Clear]
        }
        MapMessage::Take(n) => {
            let gone: Vec<Vec<u8>> = state.keys().skip(n as usize).cloned().collect();
            gone.into_iter()
                .map(|k| {
                    state.remove(&k);
                    MapOperation::Remove { key: k }
                })
                .collect()
        }
        MapMessage::Drop(n) => {
            let gone: Vec<Vec<u8>> = state.keys().take(n as usize).cloned().collect();
            gone.into_iter()
                .map(|k| {
                    state.remove(&k);
                    MapOperation::Remove { key: k }
                })
                .collect()
        }
    }
}

/// The lane side of the map-lane protocol.
async fn map_lane(
    name: String,
    transient: bool,
    io: (ByteWriter, ByteReader),
    log: Arc<Mutex<Log>>,
    done: Option<oneshot::Sender<()>>,
) {
    let (tx, rx) = io;
    let mut rd = FramedRead::new(rx, RawMapLaneRequestDecoder::default());
    let mut wr = FramedWrite::new(tx, RawMapLaneResponseEncoder::default());
    let mut state: MapSt = BTreeMap::new();
    if !transient {
        loop {
            match rd.next().await {
                Some(Ok(LaneRequest::Command(msg))) => {
                    map_apply(&mut state, msg);
                }
                Some(Ok(LaneRequest::InitComplete)) => break,
                Some(Ok(LaneRequest::Sync(_))) => {}
                _ => return,
            }
        }
        if wr.send(LaneResponse::<MapOperation<Vec<u8>, Vec<u8>>>::Initialized).await.is_err() {
            return;
        }
    }
    {
        let es: Vec<(Vec<u8>, Vec<u8>)> = state.iter().map(|(k, v)| (k.clone(), v.clone())).collect();
        log.lock().push(format!("init {}", name), format!("map={}", render_entries(&es)));
    }
    if let Some(d) = done {
        let _ = d.send(());
    }
    loop {
        match rd.next().await {
            Some(Ok(LaneRequest::Command(msg))) => {
                for op in map_apply(&mut state, msg) {
                    if wr.send(LaneResponse::StandardEvent(op)).await.is_err() {
                        return;
                    }
                }
            }
            Some(Ok(LaneRequest::Sync(id))) => {
                for (k, v) in state.iter() {
                    let op = MapOperation::Update { key: k.clone(), value: v.clone() };
                    if wr.send(LaneResponse::SyncEvent(id, op)).await.is_err() {
                        return;
                    }
                }
                if wr.send(LaneResponse::<MapOperation<Vec<u8>, Vec<u8>>>::Synced(id)).await.is_err() {
                    return;
                }
            }
            Some(Ok(LaneRequest::InitComplete)) => {}
            _ => return,
        }
    }
}

fn lane_task(
    name: String,
    map: bool,
    transient: bool,
    io: (ByteWriter, ByteReader),
    log: Arc<Mutex<Log>>,
    done: Option<oneshot::Sender<()>>,
) -> BoxFuture<'static, ()> {
    if map {
        map_lane(name, transient, io, log, done).boxed()
    } else {
        value_lane(name, transient, io, log, done).boxed()
    }
}

fn warp_kind(map: bool) -> WarpLaneKind {
    if map {
        WarpLaneKind::Map
    } else {
        WarpLaneKind::Value
    }
}

impl Agent for LateAgent {
    fn run(
        &self,
        _route: RouteUri,
        _route_params: HashMap<String, String>,
        _config: AgentConfig,
        context: Box<dyn AgentContext + Send>,
    ) -> BoxFuture<'static, AgentInitResult> {
        let log = self.log.clone();
        let ibuf = self.ibuf;
        let early = self.early.clone();
        let mut cmd_rx = self.cmds.lock().take();
        async move {
            // ---- initialisation phase: register the early lanes and initialise them (as `AgentModel` does)
            let mut pending: Vec<BoxFuture<'static, ()>> = vec![];
            for (name, map, transient) in early {
                let io = context.add_lane(&name, warp_kind(map), lane_cfg(transient, ibuf)).await?;
                log.lock().push(format!("added {} ok", name), "ok".into());
                let (done_tx, done_rx) = oneshot::channel();
                let mut lane = lane_task(name, map, transient, io, log.clone(), Some(done_tx));
                // drive the lane until its initialisation is complete
                tokio::select! {
                    biased;
                    _ = done_rx => {}
                    _ = &mut lane => {}
                }
                pending.push(lane);
            }
            let task: BoxFuture<'static, Result<(), AgentTaskError>> = async move {
                let lanes: FuturesUnordered<BoxFuture<'static, ()>> = pending.into_iter().collect();
                let mut lanes = lanes;
                let mut store_sets: HashMap<String, mpsc::UnboundedSender<Vec<u8>>> = HashMap::new();
                // (stores do not hear about the runtime stopping: the task ends when every LANE is closed)
                let mut stores: FuturesUnordered<BoxFuture<'static, ()>> = FuturesUnordered::new();
                loop {
                    tokio::select! {
                        cmd = async {
                            match cmd_rx.as_mut() {
                                Some(rx) => rx.recv().await,
                                None => futures::future::pending().await,
                            }
                        } => {
                            match cmd {
                                Some(AgentCmd::AddLane { name, map, transient, done }) => {
                                    // ---- a lane registered WHILE THE AGENT IS RUNNING
                                    let fut = context.add_lane(&name, warp_kind(map), lane_cfg(transient, ibuf));
                                    let log = log.clone();
                                    lanes.push(async move {
                                        match fut.await {
                                            Ok(io) => {
                                                log.lock().push(format!("added {} ok", name), "ok".into());
                                                lane_task(name, map, transient, io, log, Some(done)).await
                                            }
                                            Err(_) => log.lock().push(format!("added {} err", name), "ok".into()),
                                        }
                                    }.boxed());
                                }
                                Some(AgentCmd::AddStore { name, done }) => {
                                    // ---- a store registered WHILE THE AGENT IS RUNNING
                                    let fut = context.add_store(&name, StoreKind::Value);
                                    let log = log.clone();
                                    let (set_tx, set_rx) = mpsc::unbounded_channel();
                                    store_sets.insert(name.clone(), set_tx);
                                    stores.push(async move {
                                        match fut.await {
                                            Ok(io) => {
                                                log.lock().push(format!("added {} ok", name), "ok".into());
                                                value_store(name, io, log, done, set_rx).await
                                            }
                                            Err(_) => log.lock().push(format!("added {} err", name), "ok".into()),
                                        }
                                    }.boxed());
                                }
                                Some(AgentCmd::SetStore { name, value }) => {
                                    if let Some(tx) = store_sets.get(&name) {
                                        let _ = tx.send(value);
                                    }
                                }
                                None => cmd_rx = None,
                            }
                        }
                        _ = stores.next(), if !stores.is_empty() => {}
                        _ = lanes.next(), if !lanes.is_empty() => {
                            if lanes.is_empty() {
                                // every lane's channels are closed: the runtime has stopped
                                break;
                            }
                        }
                    }
                }
                Ok(())
            }
            .boxed();
            Ok(task)
        }
        .boxed()
    }
}

// ------------------------------------------------------------------------------------------------ shared log

#[derive(Clone, Copy, Debug, PartialEq, Eq)]
enum Cut {
    None,
    AfterStore(usize),
    AfterFrame(usize),
    FailStore(usize),
    /// the n-th `id_for` call of the phase fails
    FailId(usize),
}

struct Log {
    lines: Vec<(String, String)>,
    nstore: usize,
    nframe: usize,
    /// `id_for` calls of the current phase
    nid: usize,
    cut: Cut,
    dead: bool,
    crash: Arc<Notify>,
    /// frames seen by each remote in the current phase: (remote, lane, rendered note)
    frames: Vec<(u64, String, String)>,
}

impl Log {
    fn new() -> Log {
        Log {
            lines: vec![],
            nstore: 0,
            nframe: 0,
            nid: 0,
            cut: Cut::None,
            dead: false,
            crash: Arc::new(Notify::new()),
            frames: vec![],
        }
    }
    fn push(&mut self, op: String, out: String) {
        if !self.dead {
            self.lines.push((op, out));
        }
    }
    fn die(&mut self) {
        self.lines.push(("crash".into(), "ok".into()));
        self.dead = true;
        self.crash.notify_one();
    }
    fn frame(&mut self, r: u64, lane: &str, note: String) {
        if self.dead {
            return;
        }
        self.nframe += 1;
        self.lines
            .push((format!("send {} {} {}", r, lane, note), "ok".into()));
        self.frames.push((r, lane.to_string(), note));
        if self.cut == Cut::AfterFrame(self.nframe) {
            self.die();
        }
    }
}

// ------------------------------------------------------------------------------------------------ the store

#[derive(Default)]
struct StoreInner {
    ids: Vec<String>,
    values: HashMap<u64, Vec<u8>>,
    maps: HashMap<u64, BTreeMap<Vec<u8>, Vec<u8>>>,
}

#[derive(Clone)]
struct RecStore {
    inner: Arc<Mutex<StoreInner>>,
    log: Arc<Mutex<Log>>,
}

struct MapSnap {
    entries: Vec<(Vec<u8>, Vec<u8>)>,
    pos: usize,
}

impl RangeConsumer for MapSnap {
    fn consume_next(&mut self) -> Result<Option<KeyValue<'_>>, StoreError> {
        if self.pos < self.entries.len() {
            let (k, v) = &self.entries[self.pos];
            self.pos += 1;
            Ok(Some((k.as_slice(), v.as_slice())))
        } else {
            Ok(None)
        }
    }
}

impl RecStore {
    fn mutate(&self, line: String, f: impl FnOnce(&mut StoreInner)) -> Result<(), StoreError> {
        let mut log = self.log.lock();
        if log.dead {
            // after the cut nothing reaches the store any more
            return Ok(());
        }
        if log.cut == Cut::FailStore(log.nstore + 1) {
            log.nstore += 1;
            log.cut = Cut::None;
            log.push("storefail".into(), "ok".into());
            return Err(StoreError::DelegateMessage("injected store failure".into()));
        }
        f(&mut self.inner.lock());
        log.nstore += 1;
        log.push(line, "ok".into());
        if log.cut == Cut::AfterStore(log.nstore) {
            log.die();
        }
        Ok(())
    }
}

impl NodePersistence for RecStore {
    type MapCon<'a> = MapSnap where Self: 'a;
    type LaneId = u64;

    fn id_for(&self, name: &str) -> Result<u64, StoreError> {
        {
            let mut log = self.log.lock();
            if !log.dead {
                log.nid += 1;
                if log.cut == Cut::FailId(log.nid) {
                    // an error that is NOT `NoStoreAvailable`: the id table cannot be read
                    log.cut = Cut::None;
                    log.push(format!("idfail {}", name), "ok".into());
                    return Err(StoreError::DelegateMessage("injected id failure".into()));
                }
            }
        }
        let mut inner = self.inner.lock();
        let id = match inner.ids.iter().position(|n| n == name) {
            Some(i) => i,
            None => {
                inner.ids.push(name.to_string());
                inner.ids.len() - 1
            }
        } as u64;
        self.log.lock().push(format!("idfor {}", name), format!("id={}", id));
        Ok(id)
    }

    fn get_value(&self, id: u64, buffer: &mut BytesMut) -> Result<Option<usize>, StoreError> {
        let inner = self.inner.lock();
        let r = inner.values.get(&id);
        self.log.lock().push(
            format!("store get {}", id),
            format!("val={}", r.map(|v| hex(v)).unwrap_or_else(|| "none".into())),
        );
        Ok(r.map(|v| {
            buffer.extend_from_slice(v);
            v.len()
        }))
    }

    fn put_value(&mut self, id: u64, value: &[u8]) -> Result<(), StoreError> {
        let v = value.to_vec();
        self.mutate(format!("store put {} {}", id, hex(value)), move |s| {
            s.values.insert(id, v);
        })
    }

    fn delete_value(&mut self, id: u64) -> Result<(), StoreError> {
        self.mutate(format!("store del {}", id), move |s| {
            s.values.remove(&id);
        })
    }

    fn update_map(&mut self, id: u64, key: &[u8], value: &[u8]) -> Result<(), StoreError> {
        let (k, v) = (key.to_vec(), value.to_vec());
        self.mutate(format!("store upd {} {} {}", id, hex(key), hex(value)), move |s| {
            s.maps.entry(id).or_default().insert(k, v);
        })
    }

    fn remove_map(&mut self, id: u64, key: &[u8]) -> Result<(), StoreError> {
        let k = key.to_vec();
        self.mutate(format!("store rem {} {}", id, hex(key)), move |s| {
            if let Some(m) = s.maps.get_mut(&id) {
                m.remove(&k);
            }
        })
    }

    fn clear_map(&mut self, id: u64) -> Result<(), StoreError> {
        self.mutate(format!("store clr {}", id), move |s| {
            s.maps.remove(&id);
        })
    }

    fn read_map(&self, id: u64) -> Result<MapSnap, StoreError> {
        let inner = self.inner.lock();
        let entries: Vec<(Vec<u8>, Vec<u8>)> = inner
            .maps
            .get(&id)
            .map(|m| m.iter().map(|(k, v)| (k.clone(), v.clone())).collect())
            .unwrap_or_default();
        self.log
            .lock()
            .push(format!("store readmap {}", id), format!("map={}", render_entries(&entries)));
        Ok(MapSnap { entries, pos: 0 })
    }
}

// ------------------------------------------------------------------------------------------------ frames

const NODE: &str = "/node";
const MAP_LANES: &[&str] = &["m", "im", "lm", "lmt"];

fn rid(r: u64) -> Uuid {
    Uuid::from_u128(0x1000 + r as u128)
}

fn render_map_body(body: &[u8]) -> Option<String> {
    if body == b"@clear" {
        return Some("clr".into());
    }
    if let Some(rest) = body.strip_prefix(b"@update(key:") {
        let close = rest.iter().position(|b| *b == b')')?;
        let key = &rest[..close];
        let mut val = &rest[close + 1..];
        if let Some(v) = val.strip_prefix(b" ") {
            val = v;
        }
        return Some(format!("upd {} {}", hex(key), hex(val)));
    }
    if let Some(rest) = body.strip_prefix(b"@remove(key:") {
        let key = rest.strip_suffix(b")")?;
        return Some(format!("rem {}", hex(key)));
    }
    None
}

fn render_note(lane: &str, env: &Notification<Bytes, Bytes>) -> String {
    match env {
        Notification::Linked => "linked".into(),
        Notification::Synced => "synced".into(),
        Notification::Unlinked(_) => "unlinked".into(),
        Notification::Event(b) => {
            if MAP_LANES.contains(&lane) {
                match render_map_body(b.as_ref()) {
                    Some(s) => format!("event {}", s),
                    None => format!("event ?{}", hex(b.as_ref())),
                }
            } else {
                format!("event {}", hex(b.as_ref()))
            }
        }
    }
}

async fn reader_task(r: u64, rx: ByteReader, mut gate: watch::Receiver<bool>, log: Arc<Mutex<Log>>) {
    let mut fr = FramedRead::new(rx, RawResponseMessageDecoder);
    loop {
        while *gate.borrow() {
            if gate.changed().await.is_err() {
                return;
            }
        }
        match fr.next().await {
            Some(Ok(msg)) => {
                let lane = msg.path.lane.as_str().to_string();
                let note = render_note(&lane, &msg.envelope);
                log.lock().frame(r, &lane, note);
            }
            _ => return,
        }
    }
}

// ------------------------------------------------------------------------------------------------ one agent run

struct RemoteH {
    tx: FramedWrite<ByteWriter, RawRequestMessageEncoder>,
    gate: watch::Sender<bool>,
    reader: JoinHandle<()>,
    _completion: promise::Receiver<DisconnectionReason>,
}

type AgentFut = Pin<Box<dyn Future<Output = Result<(), AgentExecError>>>>;

struct Run {
    log: Arc<Mutex<Log>>,
    crash: Arc<Notify>,
    agent: AgentFut,
    ended: Option<String>,
    att_tx: mpsc::Sender<AgentAttachmentRequest>,
    stop_tx: Option<trigger::Sender>,
    remotes: BTreeMap<u64, RemoteH>,
    rbuf: usize,
    /// late rig: commands to the harness-implemented agent
    cmd_tx: Option<mpsc::UnboundedSender<AgentCmd>>,
    /// the last `attach` was confirmed by the runtime (it is up and serving)
    attached: bool,
    _keep: Rc<RefCell<Vec<Box<dyn std::any::Any>>>>,
}

/// Which agent is run.
#[derive(Clone, Debug)]
enum Spec {
    /// the `AgentModel` of `PAgent` (all items registered during initialisation)
    Model { transient: bool },
    /// `LateAgent`: `early` lanes (name, map, transient) during initialisation, the rest on `addlane` steps
    Late { early: Vec<(String, bool, bool)> },
}

const INACTIVE: Duration = Duration::from_secs(5);

fn err_kind(e: &AgentExecError) -> &'static str {
    match e {
        AgentExecError::FailedInit(_) => "failed-init",
        AgentExecError::FailedTask(_) => "failed-task",
        AgentExecError::FailedDownlinkRequest => "failed-downlink",
        AgentExecError::FailedRestoration { .. } => "failed-restoration",
        AgentExecError::PersistenceFailure(_) => "persistence-failure",
    }
}

impl Run {
    fn start(log: Arc<Mutex<Log>>, store: RecStore, spec: &Spec, rbuf: usize, ibuf: usize) -> Run {
        let crash = log.lock().crash.clone();
        let (att_tx, att_rx) = mpsc::channel(8);
        let (http_tx, http_rx) = mpsc::channel(8);
        let (link_tx, link_rx) = mpsc::channel(8);
        let (stop_tx, stop_rx) = trigger::trigger();
        let buf = NonZeroUsize::new(4096).unwrap();
        let transient = matches!(spec, Spec::Model { transient: true });
        let config = CombinedAgentConfig {
            agent_config: AgentConfig {
                default_lane_config: Some(LaneConfig {
                    // the channel the stored state is streamed through on (re)start: small => several reads
                    input_buffer_size: NonZeroUsize::new(ibuf.max(1)).unwrap(),
                    output_buffer_size: buf,
                    transient,
                }),
                ..Default::default()
            },
            runtime_config: AgentRuntimeConfig {
                inactive_timeout: INACTIVE,
                prune_remote_delay: INACTIVE,
                shutdown_timeout: INACTIVE,
                ..Default::default()
            },
        };
        let descriptor = AgentRouteDescriptor {
            identity: Uuid::from_u128(1),
            route: NODE.parse().unwrap(),
            route_params: HashMap::new(),
        };
        let channels = AgentRouteChannels::new(att_rx, http_rx, link_tx);
        let mut cmd_tx = None;
        let fut: AgentFut = match spec {
            Spec::Model { .. } => {
                let life = PLife { log: log.clone() };
                let agent = AgentModel::new(make_pagent, life.into_lifecycle());
                let task = AgentRouteTask::new(&agent, descriptor, channels, stop_rx, config, None);
                Box::pin(task.run_agent_with_store(ready(Ok(store))))
            }
            Spec::Late { early } => {
                let (tx, rx) = mpsc::unbounded_channel();
                cmd_tx = Some(tx);
                let agent = LateAgent {
                    log: log.clone(),
                    ibuf,
                    early: early.clone(),
                    cmds: Arc::new(Mutex::new(Some(rx))),
                };
                let task = AgentRouteTask::new(&agent, descriptor, channels, stop_rx, config, None);
                Box::pin(task.run_agent_with_store(ready(Ok(store))))
            }
        };
        let keep: Vec<Box<dyn std::any::Any>> = vec![Box::new(http_tx), Box::new(link_rx)];
        Run {
            log,
            crash,
            agent: fut,
            ended: None,
            att_tx,
            stop_tx: Some(stop_tx),
            remotes: BTreeMap::new(),
            rbuf,
            cmd_tx,
            attached: false,
            _keep: Rc::new(RefCell::new(keep)),
        }
    }

    fn note_end(&mut self, r: Result<(), AgentExecError>) {
        let how = match &r {
            Ok(()) => "ok".to_string(),
            Err(e) => err_kind(e).to_string(),
        };
        self.log.lock().push(format!("ended {}", how), "ok".into());
        self.ended = Some(how);
    }
}

/// Run `f` while polling the agent alongside; `None` = the crash cut was reached (stop polling everything).
async fn drive<T>(
    crash: &Notify,
    agent: &mut AgentFut,
    ended: &mut Option<Result<(), AgentExecError>>,
    f: impl Future<Output = T>,
) -> Option<T> {
    tokio::pin!(f);
    loop {
        tokio::select! {
            biased;
            _ = crash.notified() => return None,
            r = agent.as_mut(), if ended.is_none() => { *ended = Some(r); }
            x = &mut f => return Some(x),
        }
    }
}

impl Run {
    async fn with<T>(&mut self, f: impl Future<Output = T>) -> Option<T> {
        let mut e: Option<Result<(), AgentExecError>> = None;
        let crash = self.crash.clone();
        let r = if self.ended.is_some() {
            // the agent has finished: only the crash signal and the step itself
            let mut never: AgentFut = Box::pin(futures::future::pending());
            let mut done = Some(Ok(()));
            drive(&crash, &mut never, &mut done, f).await
        } else {
            drive(&crash, &mut self.agent, &mut e, f).await
        };
        if let Some(res) = e {
            self.note_end(res);
        }
        if self.log.lock().dead {
            return None;
        }
        r
    }

    async fn attach(&mut self, r: u64) -> Option<()> {
        let size = NonZeroUsize::new(self.rbuf).unwrap();
        let (in_tx, in_rx) = byte_channel(NonZeroUsize::new(4096).unwrap());
        let (out_tx, out_rx) = byte_channel(size);
        let (comp_tx, comp_rx) = promise::promise();
        let (on_tx, on_rx) = trigger::trigger();
        let req = AgentAttachmentRequest::with_confirmation(rid(r), (out_tx, in_rx), comp_tx, on_tx);
        let att = self.att_tx.clone();
        // time-boxed (paused clock): attachments are only served once the initialisation (restore) is complete
        let confirmed = self
            .with(async move {
                tokio::time::timeout(Duration::from_secs(20), async move {
                    att.send(req).await.is_ok() && on_rx.await.is_ok()
                })
                .await
                .unwrap_or(false)
            })
            .await?;
        self.attached = confirmed;
        let (gate_tx, gate_rx) = watch::channel(false);
        let reader = tokio::task::spawn_local(reader_task(r, out_rx, gate_rx, self.log.clone()));
        if let Some(old) = self.remotes.insert(
            r,
            RemoteH {
                tx: FramedWrite::new(in_tx, RawRequestMessageEncoder),
                gate: gate_tx,
                reader,
                _completion: comp_rx,
            },
        ) {
            old.reader.abort();
        }
        Some(())
    }

    async fn request(&mut self, r: u64, msg: RequestMessage<&str, Bytes>) -> Option<()> {
        let mut h = match self.remotes.remove(&r) {
            Some(h) => h,
            None => return Some(()),
        };
        let res = self
            .with(async {
                let _ = h.tx.send(msg).await;
            })
            .await;
        self.remotes.insert(r, h);
        res
    }

    async fn step(&mut self, step: &str) -> Option<()> {
        let parts: Vec<&str> = step.split_whitespace().collect();
        let addr = |lane| RelativeAddress::new(NODE, lane);
        let r = match parts.as_slice() {
            ["attach", r] => self.attach(r.parse().ok()?).await,
            ["link", r, lane] => {
                let r: u64 = r.parse().ok()?;
                self.request(r, RequestMessage::link(rid(r), addr(*lane))).await
            }
            ["sync", r, lane] => {
                let r: u64 = r.parse().ok()?;
                self.request(r, RequestMessage::sync(rid(r), addr(*lane))).await
            }
            ["unlink", r, lane] => {
                let r: u64 = r.parse().ok()?;
                self.request(r, RequestMessage::unlink(rid(r), addr(*lane))).await
            }
            ["cmd", r, lane, body] => {
                let r: u64 = r.parse().ok()?;
                let body = Bytes::from(svh::unhex(body)?);
                self.request(r, RequestMessage::command(rid(r), addr(*lane), body)).await
            }
            ["stall", r] => {
                if let Some(h) = self.remotes.get(&r.parse().ok()?) {
                    let _ = h.gate.send(true);
                }
                Some(())
            }
            ["resume", r] => {
                if let Some(h) = self.remotes.get(&r.parse().ok()?) {
                    let _ = h.gate.send(false);
                }
                Some(())
            }
            ["drop", r] => {
                if let Some(h) = self.remotes.remove(&r.parse().ok()?) {
                    h.reader.abort();
                }
                Some(())
            }
            ["wait"] => self.with(tokio::time::sleep(Duration::from_millis(50))).await,
            ["addlane", name, kind, t] => {
                // the agent calls `AgentContext::add_lane` now; wait until the lane is initialised
                let (done_tx, done_rx) = oneshot::channel();
                if let Some(tx) = &self.cmd_tx {
                    let _ = tx.send(AgentCmd::AddLane {
                        name: name.to_string(),
                        map: *kind == "map",
                        transient: *t == "1",
                        done: done_tx,
                    });
                }
                self.with(async move {
                    let _ = tokio::time::timeout(Duration::from_secs(3), done_rx).await;
                })
                .await
            }
            ["addstore", name] => {
                let (done_tx, done_rx) = oneshot::channel();
                if let Some(tx) = &self.cmd_tx {
                    let _ = tx.send(AgentCmd::AddStore { name: name.to_string(), done: done_tx });
                }
                self.with(async move {
                    let _ = tokio::time::timeout(Duration::from_secs(3), done_rx).await;
                })
                .await
            }
            ["setstore", name, body] => {
                if let Some(tx) = &self.cmd_tx {
                    let _ = tx.send(AgentCmd::SetStore { name: name.to_string(), value: svh::unhex(body)? });
                }
                self.with(tokio::time::sleep(Duration::from_millis(5))).await
            }
            _ => Some(()),
        };
        r
    }

    /// Clean stop: trigger the stop signal and wait for the agent task to finish.
    async fn stop(&mut self) -> Option<()> {
        if let Some(s) = self.stop_tx.take() {
            s.trigger();
        }
        self.with(tokio::time::sleep(Duration::from_secs(2))).await?;
        self.with(tokio::time::sleep(INACTIVE * 3)).await
    }

    async fn finish(&mut self) {
        if self.ended.is_none() && !self.log.lock().dead {
            self.log.lock().push("ended running".into(), "ok".into());
        }
        for (_, h) in std::mem::take(&mut self.remotes) {
            h.reader.abort();
        }
    }
}

// ------------------------------------------------------------------------------------------------ cases

#[derive(Clone, Debug)]
struct Plan {
    /// `true`: the late rig (`LateAgent`), `false`: the `AgentModel` rig
    late: bool,
    /// late rig: after a restart the late lanes are registered during initialisation instead of at run time
    reinit_early: bool,
    transient: bool,
    rbuf: usize,
    /// input buffer of the lanes = the channel the stored state is streamed through on (re)start
    ibuf: usize,
    /// the n-th `id_for` call of the FIRST restart fails (the start must fail; the next start restores)
    rfail: Option<usize>,
    /// the history contains values of several KB (generator only: fewer cuts are run)
    big: bool,
    script: Vec<String>,
    end: String, // stop | idle | crashS n | crashF n | fail n
    /// commands issued (through remote 9) after the restart, followed by a second restart
    script2: Vec<String>,
}

const ITEMS: &[(&str, &str, bool, bool)] = &[
    // name, kind, is lane, flagged transient
    ("v", "value", true, false),
    ("m", "map", true, false),
    ("t", "value", true, true),
    ("vs", "value", false, false),
    ("ms", "map", false, false),
    ("ts", "value", false, true),
    ("b", "value", true, false),
    ("bs", "value", false, false),
];

fn in_rt<T>(f: impl FnOnce(&tokio::runtime::Runtime, &LocalSet) -> T) -> T {
    let rt = tokio::runtime::Builder::new_current_thread()
        .enable_time()
        .start_paused(true)
        .build()
        .unwrap();
    let local = LocalSet::new();
    let r = f(&rt, &local);
    drop(local);
    drop(rt);
    r
}

/// What remote 9 saw of `lane` up to its `synced`: the state a sync returned.
fn seen_state(frames: &[(u64, String, String)], lane: &str, is_map: bool) -> String {
    let mut synced = false;
    let mut val: Option<String> = None;
    let mut map: BTreeMap<String, String> = BTreeMap::new();
    for (r, l, note) in frames {
        if *r != 9 || l != lane || synced {
            continue;
        }
        let w: Vec<&str> = note.split_whitespace().collect();
        match w.as_slice() {
            ["synced"] => synced = true,
            ["event", "upd", k, v] => {
                map.insert(k.to_string(), v.to_string());
            }
            ["event", "rem", k] => {
                map.remove(*k);
            }
            ["event", "clr"] => map.clear(),
            ["event", b] => val = Some(b.to_string()),
            _ => {}
        }
    }
    if !synced {
        "none".to_string()
    } else if is_map {
        if map.is_empty() {
            "map=-".into()
        } else {
            format!("map={}", map.iter().map(|(k, v)| format!("{}:{}", k, v)).collect::<Vec<_>>().join(","))
        }
    } else {
        val.map(|v| format!("val={}", v)).unwrap_or_else(|| "none".into())
    }
}

/// The late lanes of a plan, in order of their first `addlane` step: (name, map, transient).
fn late_lanes_of(plan: &Plan) -> Vec<(String, bool, bool)> {
    let mut out: Vec<(String, bool, bool)> = vec![];
    for st in plan.script.iter().chain(plan.script2.iter()) {
        let w: Vec<&str> = st.split_whitespace().collect();
        if let ["addlane", name, kind, t] = w.as_slice() {
            if !out.iter().any(|l| l.0 == *name) {
                out.push((name.to_string(), *kind == "map", *t == "1"));
            }
        }
    }
    out
}

/// The stores a plan of the late rig registers at run time.
fn late_stores_of(plan: &Plan) -> Vec<String> {
    let mut out: Vec<String> = vec![];
    for st in plan.script.iter().chain(plan.script2.iter()) {
        let w: Vec<&str> = st.split_whitespace().collect();
        if let ["addstore", name] = w.as_slice() {
            if !out.iter().any(|l| l == name) {
                out.push(name.to_string());
            }
        }
    }
    out
}

fn early_lanes() -> Vec<(String, bool, bool)> {
    LATE_LANES.iter().filter(|l| l.3).map(|l| (l.0.to_string(), l.1, l.2)).collect()
}

fn spec_of(plan: &Plan, restarted: bool) -> Spec {
    if plan.late {
        let mut early = early_lanes();
        if restarted && plan.reinit_early {
            early.extend(late_lanes_of(plan));
        }
        Spec::Late { early }
    } else {
        Spec::Model { transient: plan.transient }
    }
}

/// Restart a fresh agent against the same store, let `on_start` report, probe the stores and sync every lane
/// (`restored` lines); then run `tail` (more commands through remote 9) and stop cleanly.
/// Late rig: the late lanes are registered again (at run time, or during initialisation), then all are synced.
///
/// `idfail`: the n-th `id_for` call of this start fails. Returns whether the agent came up; if it did not (the
/// start failed or the restore did not complete within the time box) the log says `restartfailed` and the phase
/// ends there.
fn restart_phase(log: &Arc<Mutex<Log>>, store: &RecStore, plan: &Plan, tail: &[String], idfail: Option<usize>) -> bool {
    {
        let mut l = log.lock();
        l.dead = false;
        l.nid = 0;
        l.cut = idfail.map(Cut::FailId).unwrap_or(Cut::None);
        l.crash = Arc::new(Notify::new());
        l.frames.clear();
        l.push("restart".into(), "ok".into());
    }
    in_rt(|rt, local| {
        local.block_on(rt, async {
            let mut run = Run::start(log.clone(), store.clone(), &spec_of(plan, true), 4096, plan.ibuf);
            let steps: Vec<String> = if plan.late {
                let mut v = vec!["attach 9".to_string()];
                let lanes = late_lanes_of(plan);
                if !plan.reinit_early {
                    for (name, map, t) in &lanes {
                        v.push(format!("addlane {} {} {}", name, if *map { "map" } else { "value" }, *t as u8));
                    }
                }
                for name in late_stores_of(plan) {
                    v.push(format!("addstore {}", name));
                }
                v.push("wait".into());
                for (name, _, _) in early_lanes().iter().chain(lanes.iter()) {
                    v.push(format!("sync 9 {}", name));
                }
                v.push("wait".into());
                v
            } else {
                let probe = hex(b"\"probe\"");
                vec![
                    "attach 9".to_string(),
                    format!("cmd 9 ctl {}", probe),
                    "wait".to_string(),
                    "sync 9 v".to_string(),
                    "sync 9 m".to_string(),
                    "sync 9 t".to_string(),
                    "sync 9 b".to_string(),
                    "sync 9 rep".to_string(),
                    "wait".to_string(),
                ]
            };
            for s in &steps {
                log.lock().push(format!("do {}", s), "ok".into());
                if run.step(s).await.is_none() {
                    break;
                }
            }
            // did the agent come up? (the start may have failed, or the restore may not have completed)
            let up = run.ended.is_none() && run.attached;
            if !up {
                log.lock().push("restartfailed".into(), "ok".into());
                let _ = run.stop().await;
                run.finish().await;
                return false;
            }
            // what remote 9 saw
            let frames = log.lock().frames.clone();
            if plan.late {
                for (name, map, _) in early_lanes().iter().chain(late_lanes_of(plan).iter()) {
                    let state = seen_state(&frames, name, *map);
                    log.lock().push(format!("restored {}", name), state);
                }
            } else {
                for lane in ["v", "m", "t", "b"] {
                    let state = seen_state(&frames, lane, lane == "m");
                    log.lock().push(format!("restored {}", lane), state);
                }
                // the stores, through the probe report
                let mut rep: Option<String> = None;
                let mut rep_synced = false;
                for (r, l, note) in &frames {
                    if *r == 9 && l == "rep" && !rep_synced {
                        let w: Vec<&str> = note.split_whitespace().collect();
                        match w.as_slice() {
                            ["synced"] => rep_synced = true,
                            ["event", b] => rep = svh::unhex(b).and_then(|x| String::from_utf8(x).ok()),
                            _ => {}
                        }
                    }
                }
                let fields: HashMap<String, String> = rep
                    .filter(|_| rep_synced)
                    .map(|s| {
                        s.trim_matches('"')
                            .split(';')
                            .filter_map(|kv| kv.split_once('=').map(|(k, v)| (k.to_string(), v.to_string())))
                            .collect()
                    })
                    .unwrap_or_default();
                for st in ["vs", "ms", "ts", "bs"] {
                    let state = fields
                        .get(st)
                        .map(|x| format!("{}={}", if st == "ms" { "map" } else { "val" }, x))
                        .unwrap_or_else(|| "none".into());
                    log.lock().push(format!("restored {}", st), state);
                }
            }
            // the restarted agent is live again: it keeps working (and persisting) after the restore
            log.lock().push("live".into(), "ok".into());
            for s in tail {
                log.lock().push(format!("do {}", s), "ok".into());
                if run.step(s).await.is_none() {
                    break;
                }
            }
            let _ = run.stop().await;
            run.finish().await;
            true
        })
    })
}

/// Executes one plan; returns the log lines and the number of (store ops, frames) of the first phase.
/// Sizes of a run: store operations / frames / `id_for` calls of the first phase, `id_for` calls of the restart.
#[derive(Clone, Copy, Default)]
struct Counts {
    ns: usize,
    nf: usize,
    nid1: usize,
    nid2: usize,
}

fn run_plan(plan: &Plan) -> (Vec<(String, String)>, Counts) {
    let log = Arc::new(Mutex::new(Log::new()));
    let store = RecStore { inner: Arc::new(Mutex::new(StoreInner::default())), log: log.clone() };
    {
        let mut l = log.lock();
        if plan.late {
            l.push(
                format!(
                    "cfg late rbuf={} reinit={} ibuf={}",
                    plan.rbuf,
                    if plan.reinit_early { "early" } else { "late" },
                    plan.ibuf
                ),
                "ok".into(),
            );
            for (name, map, transient) in early_lanes().iter().chain(late_lanes_of(plan).iter()) {
                let (kind, def) = if *map { ("map", "-".to_string()) } else { ("value", hx(0)) };
                l.push(format!("item {} {} {} {}", name, kind, !*transient as u8, def), "ok".into());
            }
            for name in late_stores_of(plan) {
                l.push(format!("item {} value 1 {}", name, hx(0)), "ok".into());
            }
        } else {
            l.push(
                format!("cfg transient={} rbuf={} ibuf={}", plan.transient as u8, plan.rbuf, plan.ibuf),
                "ok".into(),
            );
            for (name, kind, lane, flagged) in ITEMS {
                let persistent = !*flagged && !(*lane && plan.transient);
                let def = if name.starts_with('b') {
                    hxs("")
                } else if *kind == "value" {
                    hx(0)
                } else {
                    "-".to_string()
                };
                l.push(format!("item {} {} {} {}", name, kind, persistent as u8, def), "ok".into());
            }
        }
        for s in &plan.script {
            l.push(format!("script {}", s), "ok".into());
        }
        for s in &plan.script2 {
            l.push(format!("script2 {}", s), "ok".into());
        }
        if let Some(n) = plan.rfail {
            l.push(format!("rfail {}", n), "ok".into());
        }
        l.push(format!("end {}", plan.end), "ok".into());
        let e: Vec<&str> = plan.end.split_whitespace().collect();
        l.cut = match e.as_slice() {
            ["idfail", n] => Cut::FailId(n.parse().unwrap_or(0)),
            ["crashS", n] => Cut::AfterStore(n.parse().unwrap_or(0)),
            ["crashF", n] => Cut::AfterFrame(n.parse().unwrap_or(0)),
            ["fail", n] => Cut::FailStore(n.parse().unwrap_or(0)),
            _ => Cut::None,
        };
    }
    // ---- phase 1
    in_rt(|rt, local| {
        local.block_on(rt, async {
            let mut run = Run::start(log.clone(), store.clone(), &spec_of(plan, false), plan.rbuf, plan.ibuf);
            let mut alive = true;
            for s in &plan.script {
                log.lock().push(format!("do {}", s), "ok".into());
                if run.step(s).await.is_none() {
                    alive = false;
                    break;
                }
            }
            if alive {
                let end = plan.end.split_whitespace().next().unwrap_or("stop").to_string();
                match end.as_str() {
                    "idle" => {
                        // nothing happens for much longer than the inactivity time-out
                        let _ = run.with(tokio::time::sleep(INACTIVE * 4)).await;
                    }
                    _ => {
                        let _ = run.stop().await;
                    }
                }
            }
            run.finish().await;
        })
    });
    let mut counts = {
        let l = log.lock();
        Counts { ns: l.nstore, nf: l.nframe, nid1: l.nid, nid2: 0 }
    };
    // ---- phase 2: restart against the same store, sync everything, then go on working
    let mut up = restart_phase(&log, &store, plan, &plan.script2, plan.rfail);
    counts.nid2 = log.lock().nid;
    if !up {
        // the start failed (injected id failure) or did not complete: the NEXT start must restore everything
        up = restart_phase(&log, &store, plan, &plan.script2, None);
    }
    if up && !plan.script2.is_empty() {
        // ---- phase 3: the work done after the restore must itself survive a restart
        restart_phase(&log, &store, plan, &[], None);
    }
    let lines = std::mem::take(&mut log.lock().lines);
    (lines, counts)
}

fn emit(t: &mut Trace, id: String, lines: &[(String, String)]) {
    t.case(id);
    for (op, out) in lines {
        t.op(op, out);
    }
}

// ------------------------------------------------------------------------------------------------ generator

fn recon_str(s: &str) -> String {
    hex(format!("\"{}\"", s).as_bytes())
}

/// One command: to the value lane, the map lane, the transient lane, or (through `ctl`) to a store.
fn gen_cmd(rng: &mut Rng, present: &mut Vec<i64>, ms_present: &mut Vec<i64>) -> (&'static str, String) {
    let val = if rng.chance(1, 10) { rng.below(100000) as i64 - 50000 } else { rng.below(40) as i64 - 5 };
    // one value in five is `None`: its Recon encoding is the empty byte string
    let none = rng.chance(1, 5);
    let key = rng.range(1, 3) as i64;
    let y = rng.below(100);
    let v_body = |none: bool| if none { hex(b"") } else { hex(val.to_string().as_bytes()) };
    let m_upd = |key: i64, none: bool| {
        if none {
            hex(format!("@update(key:{})", key).as_bytes())
        } else {
            hex(format!("@update(key:{}) {}", key, val).as_bytes())
        }
    };
    let sval = if none { "none".to_string() } else { val.to_string() };
    if y < 22 {
        ("v", v_body(none))
    } else if y < 42 {
        present.retain(|k| *k != key);
        present.push(key);
        ("m", m_upd(key, none))
    } else if y < 50 && present.is_empty() && rng.chance(11, 12) {
        // (removing an absent key silences the lane for good — F18 — so it is kept rare)
        present.push(key);
        ("m", m_upd(key, none))
    } else if y < 50 {
        let k = if !present.is_empty() && rng.chance(11, 12) { *rng.pick(&present) } else { key };
        present.retain(|q| *q != k);
        ("m", hex(format!("@remove(key:{})", k).as_bytes()))
    } else if y < 52 {
        present.clear();
        ("m", hex(b"@clear"))
    } else if y < 54 && present.len() >= 2 {
        // keep / drop the first key(s): the lane turns it into removes (the known contents become approximate)
        let verb = if rng.chance(1, 2) { "take" } else { "drop" };
        present.clear();
        ("m", hex(format!("@{}(1)", verb).as_bytes()))
    } else if y < 54 {
        ("v", v_body(none))
    } else if y < 62 {
        ("t", hex(val.to_string().as_bytes()))
    } else if y < 74 {
        ("ctl", recon_str(&format!("vs {}", sval)))
    } else if y < 88 {
        ms_present.retain(|k| *k != key);
        ms_present.push(key);
        ("ctl", recon_str(&format!("ms u {} {}", key, sval)))
    } else if y < 93 && ms_present.is_empty() && rng.chance(11, 12) {
        ms_present.push(key);
        ("ctl", recon_str(&format!("ms u {} {}", key, sval)))
    } else if y < 93 {
        let k = if !ms_present.is_empty() && rng.chance(11, 12) { *rng.pick(&ms_present) } else { key };
        ms_present.retain(|q| *q != k);
        ("ctl", recon_str(&format!("ms r {}", k)))
    } else if y < 96 {
        ms_present.clear();
        ("ctl", recon_str("ms c"))
    } else {
        ("ctl", recon_str(&format!("ts {}", val)))
    }
}

/// The empty value as the LAST state of an item (so that it is what a stop / crash / restart has to bring back).
fn gen_last_none(rng: &mut Rng, r: u64) -> String {
    let key = rng.range(1, 3);
    match rng.below(4) {
        0 => format!("cmd {} v {}", r, hex(b"")),
        1 => format!("cmd {} m {}", r, hex(format!("@update(key:{})", key).as_bytes())),
        2 => format!("cmd {} ctl {}", r, recon_str("vs none")),
        _ => format!("cmd {} ctl {}", r, recon_str(&format!("ms u {} none", key))),
    }
}

fn gen_plan(rng: &mut Rng) -> Plan {
    let transient = rng.chance(1, 8);
    let rbuf = *rng.pick(&[40usize, 96, 4096, 4096]);
    let two = rng.chance(1, 2);
    let mut script: Vec<String> = vec!["attach 1".into()];
    if two {
        script.push("attach 2".into());
    }
    let remotes: Vec<u64> = if two { vec![1, 2] } else { vec![1] };
    let lanes = ["v", "m", "t", "v", "m"];
    for r in &remotes {
        for _ in 0..rng.range(1, 3) {
            let lane = *rng.pick(&lanes);
            let verb = if rng.chance(1, 2) { "link" } else { "sync" };
            script.push(format!("{} {} {}", verb, r, lane));
        }
    }
    if rng.chance(2, 3) {
        script.push("wait".into());
    }
    let mut present: Vec<i64> = vec![];
    let mut ms_present: Vec<i64> = vec![];
    let n = rng.range(4, 22);
    for _ in 0..n {
        let r = *rng.pick(&remotes);
        let x = rng.below(100);
        if x < 62 {
            let (lane, body) = gen_cmd(rng, &mut present, &mut ms_present);
            script.push(format!("cmd {} {} {}", r, lane, body));
        } else if x < 82 {
            script.push("wait".into());
        } else if x < 93 {
            let lane = *rng.pick(&lanes);
            let verb = *rng.pick(&["link", "sync", "sync", "unlink"]);
            script.push(format!("{} {} {}", verb, r, lane));
        } else if x < 98 {
            script.push(format!("{} {}", if rng.chance(1, 2) { "stall" } else { "resume" }, r));
        } else {
            script.push(format!("drop {}", r));
        }
    }
    if rng.chance(1, 3) {
        let r = *rng.pick(&remotes);
        script.push(gen_last_none(rng, r));
    }
    // the lane input buffer = the channel the stored state of a lane is streamed through on restart: often small,
    // so that ordinary values and maps are restored across several reads
    let ibuf = *rng.pick(&[24usize, 64, 200, 512, 4096, 4096]);
    // large state (one history in twenty): values of 5-12 KB in a lane and in a store (the store's init channel is
    // always 4096 bytes)
    let big = rng.chance(1, 20);
    if big {
        let r = *rng.pick(&remotes);
        let at = 1 + rng.below(script.len() as u64) as usize;
        let mut ins: Vec<String> = vec![];
        if rng.chance(1, 2) {
            ins.push(format!("{} {} b", if rng.chance(1, 2) { "link" } else { "sync" }, r));
        }
        let n = 5000 + rng.below(7000) as usize;
        ins.push(format!("cmd {} b {}", r, hex(format!("\"{}\"", big_string(n, 'x')).as_bytes())));
        ins.push(format!("cmd {} ctl {}", r, recon_str(&format!("bs {}", 4500 + rng.below(4000)))));
        ins.push("wait".into());
        for (i, st) in ins.into_iter().enumerate() {
            script.insert((at + i).min(script.len()), st);
        }
    }
    if rng.chance(4, 5) {
        script.push("wait".into());
    }
    // after the restart: a few more commands (the known map contents are carried over only approximately)
    let mut script2: Vec<String> = vec![];
    if rng.chance(3, 4) {
        for _ in 0..rng.range(1, 5) {
            let (lane, body) = gen_cmd(rng, &mut present, &mut ms_present);
            script2.push(format!("cmd 9 {} {}", lane, body));
            if rng.chance(1, 4) {
                script2.push("wait".into());
            }
        }
        if rng.chance(1, 3) {
            script2.push(gen_last_none(rng, 9));
        }
        script2.push("wait".into());
    }
    if big && rng.chance(1, 2) {
        let n = 5000 + rng.below(3000) as usize;
        script2.insert(0, format!("cmd 9 b {}", hex(format!("\"{}\"", big_string(n, 'z')).as_bytes())));
        script2.push("wait".into());
    }
    Plan {
        late: false,
        reinit_early: false,
        transient,
        rbuf,
        ibuf,
        rfail: None,
        big,
        script,
        end: "stop".into(),
        script2,
    }
}


/// One command to a lane of the late rig.
fn gen_late_cmd(rng: &mut Rng, lanes: &[(String, bool, bool)]) -> (String, String) {
    let (name, map, _) = rng.pick(lanes).clone();
    let val = if rng.chance(1, 10) { rng.below(100000) as i64 - 50000 } else { rng.below(40) as i64 - 5 };
    let key = rng.range(1, 3) as i64;
    // one value in five has an EMPTY body (an ordinary value: stored as such, restored as such)
    let none = rng.chance(1, 5);
    if map {
        let y = rng.below(100);
        let body = if y < 70 && none {
            format!("@update(key:{})", key)
        } else if y < 70 {
            format!("@update(key:{}) {}", key, val)
        } else if y < 90 {
            format!("@remove(key:{})", key)
        } else {
            "@clear".to_string()
        };
        (name, hex(body.as_bytes()))
    } else if none {
        (name, hex(b""))
    } else {
        (name, hex(val.to_string().as_bytes()))
    }
}

/// The empty value as the last state of a lane of the late rig.
fn gen_late_last_none(rng: &mut Rng, r: u64, lanes: &[(String, bool, bool)]) -> String {
    let (name, map, _) = rng.pick(lanes).clone();
    if map {
        format!("cmd {} {} {}", r, name, hex(format!("@update(key:{})", rng.range(1, 3)).as_bytes()))
    } else {
        format!("cmd {} {} {}", r, name, hex(b""))
    }
}

/// A history of the late rig: traffic on the early lanes, lanes added while the agent runs (each followed, sooner
/// or later, by links / syncs / commands on it), back-pressure, remote loss.
fn gen_plan_late(rng: &mut Rng) -> Plan {
    let rbuf = *rng.pick(&[40usize, 96, 4096, 4096]);
    let two = rng.chance(1, 2);
    let mut script: Vec<String> = vec!["attach 1".into()];
    if two {
        script.push("attach 2".into());
    }
    let remotes: Vec<u64> = if two { vec![1, 2] } else { vec![1] };
    // lanes that exist so far
    let mut lanes: Vec<(String, bool, bool)> = early_lanes();
    // the lanes to add at run time: at least one persistent one
    let mut to_add: Vec<(&str, bool, bool)> = vec![];
    let first = *rng.pick(&[("lv", false, false), ("lm", true, false), ("lv", false, false)]);
    to_add.push(first);
    for cand in [("lv", false, false), ("lm", true, false), ("lw", false, false), ("lt", false, true), ("lmt", true, true)] {
        if cand.0 != first.0 && rng.chance(1, 3) {
            to_add.push(cand);
        }
    }
    // shuffle
    for i in 0..to_add.len() {
        let j = i + rng.below((to_add.len() - i) as u64) as usize;
        to_add.swap(i, j);
    }
    if rng.chance(1, 2) {
        let r = *rng.pick(&remotes);
        let l = rng.pick(&lanes).0.clone();
        script.push(format!("{} {} {}", if rng.chance(1, 2) { "link" } else { "sync" }, r, l));
    }
    let n = rng.range(6, 24) as usize;
    let mut add_at: Vec<usize> = to_add.iter().map(|_| rng.below(n as u64 * 2 / 3 + 1) as usize).collect();
    add_at.sort();
    let mut next_add = 0usize;
    for i in 0..n {
        while next_add < to_add.len() && add_at[next_add] <= i {
            let (name, map, t) = to_add[next_add];
            next_add += 1;
            script.push(format!("addlane {} {} {}", name, if map { "map" } else { "value" }, t as u8));
            lanes.push((name.to_string(), map, t));
            // usually someone subscribes to the new lane straight away
            if rng.chance(4, 5) {
                let r = *rng.pick(&remotes);
                script.push(format!("{} {} {}", if rng.chance(1, 2) { "link" } else { "sync" }, r, name));
            }
            if rng.chance(2, 3) {
                let r = *rng.pick(&remotes);
                let (l, body) = gen_late_cmd(rng, &[(name.to_string(), map, t)]);
                script.push(format!("cmd {} {} {}", r, l, body));
            }
        }
        let r = *rng.pick(&remotes);
        let x = rng.below(100);
        if x < 60 {
            // commands mostly to the lanes added at run time
            let pool: Vec<(String, bool, bool)> =
                if lanes.len() > 2 && rng.chance(3, 4) { lanes[2..].to_vec() } else { lanes.clone() };
            let (l, body) = gen_late_cmd(rng, &pool);
            script.push(format!("cmd {} {} {}", r, l, body));
        } else if x < 78 {
            script.push("wait".into());
        } else if x < 93 {
            // now and then a lane that does not exist (yet)
            let l = if rng.chance(1, 10) { "lw".to_string() } else { rng.pick(&lanes).0.clone() };
            let verb = *rng.pick(&["link", "sync", "sync", "unlink"]);
            script.push(format!("{} {} {}", verb, r, l));
        } else if x < 98 {
            script.push(format!("{} {}", if rng.chance(1, 2) { "stall" } else { "resume" }, r));
        } else {
            script.push(format!("drop {}", r));
        }
    }
    if rng.chance(1, 3) {
        let r = *rng.pick(&remotes);
        script.push(gen_late_last_none(rng, r, &lanes));
    }
    // a value store registered at run time (`AgentContext::add_store` on a running agent), set a few times
    let with_store = rng.chance(1, 2);
    if with_store {
        let at = 1 + rng.below(script.len() as u64) as usize;
        script.insert(at.min(script.len()), "addstore ls".into());
        for _ in 0..rng.range(1, 3) {
            let v = if rng.chance(1, 6) { hex(b"") } else { hex((rng.below(50) as i64 - 5).to_string().as_bytes()) };
            let pos = at + 1 + rng.below((script.len() - at) as u64) as usize;
            script.insert(pos.min(script.len()), format!("setstore ls {}", v));
        }
    }
    let ibuf = *rng.pick(&[24usize, 64, 200, 512, 4096, 4096]);
    // large state: 5-12 KB bodies in a late value lane (and in the late store)
    let big = rng.chance(1, 20);
    if big {
        let r = *rng.pick(&remotes);
        let vlanes: Vec<String> = lanes.iter().filter(|l| !l.1 && !l.2 && l.0 != "iv").map(|l| l.0.clone()).collect();
        let n = 5000 + rng.below(7000) as usize;
        if let Some(l) = vlanes.first() {
            script.push(format!("cmd {} {} {}", r, l, hex(big_string(n, 'x').as_bytes())));
        } else {
            script.push(format!("cmd {} iv {}", r, hex(big_string(n, 'x').as_bytes())));
        }
        if with_store {
            script.push(format!("setstore ls {}", hex(big_string(4500 + rng.below(4000) as usize, 'y').as_bytes())));
        }
    }
    if rng.chance(4, 5) {
        script.push("wait".into());
    }
    // after the restart (the late lanes have been registered again): more commands, then a second restart
    let mut script2: Vec<String> = vec![];
    if rng.chance(3, 4) {
        for _ in 0..rng.range(1, 5) {
            let pool: Vec<(String, bool, bool)> = if lanes.len() > 2 { lanes[2..].to_vec() } else { lanes.clone() };
            let (l, body) = gen_late_cmd(rng, &pool);
            script2.push(format!("cmd 9 {} {}", l, body));
            if rng.chance(1, 4) {
                script2.push("wait".into());
            }
        }
        if rng.chance(1, 3) {
            script2.push(gen_late_last_none(rng, 9, &lanes));
        }
        script2.push("wait".into());
    }
    Plan {
        late: true,
        reinit_early: rng.chance(1, 3),
        transient: false,
        rbuf,
        ibuf,
        rfail: None,
        big,
        script,
        end: "stop".into(),
        script2,
    }
}

/// A history and all its cuts.
fn run_family(t: &mut Trace, base: &Plan, tag: &str, max_cuts: usize, rng: &mut Rng) {
    let (lines, cnt) = run_plan(base);
    emit(t, format!("{} stop", tag), &lines);
    let mut idle = base.clone();
    idle.end = "idle".into();
    emit(t, format!("{} idle", tag), &run_plan(&idle).0);
    let mut cuts: Vec<String> = vec![];
    for n in 1..=cnt.ns {
        cuts.push(format!("crashS {}", n));
        cuts.push(format!("fail {}", n));
    }
    for n in 1..=cnt.nf {
        cuts.push(format!("crashF {}", n));
    }
    // histories with large state produce long lines: a sample of their cuts is enough
    let max_cuts = if base.big { max_cuts.min(8) } else { max_cuts };
    if cuts.len() > max_cuts {
        // keep a random subset of the requested size (thorough runs use all)
        for i in 0..max_cuts {
            let j = i + rng.below((cuts.len() - i) as u64) as usize;
            cuts.swap(i, j);
        }
        cuts.truncate(max_cuts);
    }
    for c in cuts {
        let mut p = base.clone();
        p.end = c.clone();
        emit(t, format!("{} {}", tag, c), &run_plan(&p).0);
    }
    // a failing `id_for` (not `NoStoreAvailable`): at a few of the id lookups of the first start (initialisation
    // phase, prologue of the write task, registration at run time) ...
    let pick = |n: usize, k: usize, rng: &mut Rng| -> Vec<usize> {
        let mut all: Vec<usize> = (1..=n).collect();
        for i in 0..k.min(all.len()) {
            let j = i + rng.below((all.len() - i) as u64) as usize;
            all.swap(i, j);
        }
        all.truncate(k);
        all
    };
    let (k1, k2) = if base.big { (1, 1) } else { (1, 2) };
    for n in pick(cnt.nid1, k1, rng) {
        let mut p = base.clone();
        p.end = format!("idfail {}", n);
        emit(t, format!("{} idfail {}", tag, n), &run_plan(&p).0);
    }
    // ... and of the RESTART after a clean stop (the store holds the state then): the start must fail, never run
    // an item as transient, and the next start restores everything
    for n in pick(cnt.nid2, k2, rng) {
        let mut p = base.clone();
        p.rfail = Some(n);
        emit(t, format!("{} rfail {}", tag, n), &run_plan(&p).0);
    }
}

fn plan_of_ops(ops: &[String]) -> Plan {
    let mut p = Plan {
        late: false,
        reinit_early: false,
        transient: false,
        rbuf: 4096,
        ibuf: 4096,
        rfail: None,
        big: false,
        script: vec![],
        end: "stop".into(),
        script2: vec![],
    };
    let num = |s: &str| s.split('=').nth(1).and_then(|s| s.parse::<usize>().ok());
    for op in ops {
        let w: Vec<&str> = op.split_whitespace().collect();
        match w.as_slice() {
            ["cfg", "late", b, c, rest @ ..] => {
                p.late = true;
                p.rbuf = num(b).unwrap_or(4096);
                p.reinit_early = c.ends_with("=early");
                p.ibuf = rest.first().and_then(|x| num(x)).unwrap_or(4096);
            }
            ["cfg", a, b, rest @ ..] => {
                p.transient = a.ends_with("=1");
                p.rbuf = num(b).unwrap_or(4096);
                p.ibuf = rest.first().and_then(|x| num(x)).unwrap_or(4096);
            }
            ["rfail", n] => p.rfail = n.parse().ok(),
            ["script", rest @ ..] => p.script.push(rest.join(" ")),
            ["script2", rest @ ..] => p.script2.push(rest.join(" ")),
            ["end", rest @ ..] => p.end = rest.join(" "),
            _ => {}
        }
    }
    p
}

fn main() {
    match parse_args() {
        Mode::Gen { seed, cases, out } => {
            let extra: Vec<String> = std::env::args().skip(5).collect();
            let max_cuts: usize = extra.first().and_then(|s| s.parse().ok()).unwrap_or(usize::MAX);
            let mut t = Trace::create(&out);
            let mut rng = Rng::new(seed);
            for c in 0..cases {
                // every fourth history runs on the late rig (lanes registered while the agent is running)
                let plan = if c % 4 == 3 { gen_plan_late(&mut rng) } else { gen_plan(&mut rng) };
                run_family(&mut t, &plan, &format!("{} seed={}", c, seed), max_cuts, &mut rng);
            }
            t.finish();
        }
        Mode::Replay { ops, out } => {
            let mut t = Trace::create(&out);
            for (i, case) in ops.iter().enumerate() {
                let plan = plan_of_ops(case);
                emit(&mut t, i.to_string(), &run_plan(&plan).0);
            }
            t.finish();
        }
    }
}
