//! C12 support engine: the real byte channel under real thread interleavings. A reader thread waits for data / end of
//! stream with a park/unpark waker while the writer thread writes and then drops (or shuts down) its half; closing
//! the channel must wake a reader that registered its waker at any moment, and a reader drop must wake a writer
//! blocked on a full buffer. (The model treats every poll and drop as one atomic step; this run looks for an
//! interleaving inside those steps on which the implementation loses a wake-up.)
//! op: `race <rounds> <seed>`   output: `rounds=<n> lost=<k>`
use std::num::NonZeroUsize;
use std::pin::Pin;
use std::sync::atomic::{AtomicBool, Ordering};
use std::sync::Arc;
use std::task::{Context, Poll, Wake, Waker};
use std::thread::{self, Thread};
use std::time::{Duration, Instant};

use svh::{parse_args, Mode, Rng, Trace};
use swimos_byte_channel::byte_channel;
use tokio::io::{AsyncRead, AsyncWrite, ReadBuf};

struct Unpark(Thread, AtomicBool);
impl Wake for Unpark {
    fn wake(self: Arc<Self>) {
        self.1.store(true, Ordering::SeqCst);
        self.0.unpark();
    }
}

/// Reader side: poll until end of stream; a `Pending` must be followed by a wake-up within the deadline.
fn read_to_end(mut r: swimos_byte_channel::ByteReader, deadline: Duration, closed: &AtomicBool) -> bool {
    let w = Arc::new(Unpark(thread::current(), AtomicBool::new(false)));
    let waker = Waker::from(w.clone());
    let mut store = [0u8; 8];
    loop {
        let mut buf = ReadBuf::new(&mut store);
        let mut cx = Context::from_waker(&waker);
        match Pin::new(&mut r).poll_read(&mut cx, &mut buf) {
            Poll::Ready(Ok(())) if buf.filled().is_empty() => return true, // end of stream
            Poll::Ready(Ok(())) => continue,
            Poll::Ready(Err(_)) => return true,
            Poll::Pending => {
                // the clock only starts once the other side has really closed (it may have been descheduled)
                let mut start: Option<Instant> = None;
                while !w.1.swap(false, Ordering::SeqCst) {
                    if closed.load(Ordering::SeqCst) {
                        let t0 = *start.get_or_insert_with(Instant::now);
                        if t0.elapsed() > deadline {
                            return false; // parked although the writer has gone: a lost wake-up
                        }
                    }
                    thread::park_timeout(Duration::from_millis(5));
                }
            }
        }
    }
}

/// Writer side: fill the channel, then wait to be woken when the reader disappears.
fn write_until_broken(mut wtr: swimos_byte_channel::ByteWriter, deadline: Duration, closed: &AtomicBool) -> bool {
    let w = Arc::new(Unpark(thread::current(), AtomicBool::new(false)));
    let waker = Waker::from(w.clone());
    loop {
        let mut cx = Context::from_waker(&waker);
        match Pin::new(&mut wtr).poll_write(&mut cx, &[7u8; 4]) {
            Poll::Ready(Ok(_)) => continue,
            Poll::Ready(Err(_)) => return true, // broken pipe seen
            Poll::Pending => {
                let mut start: Option<Instant> = None;
                while !w.1.swap(false, Ordering::SeqCst) {
                    if closed.load(Ordering::SeqCst) {
                        let t0 = *start.get_or_insert_with(Instant::now);
                        if t0.elapsed() > deadline {
                            return false;
                        }
                    }
                    thread::park_timeout(Duration::from_millis(5));
                }
            }
        }
    }
}

fn race(rounds: u64, seed: u64) -> String {
    use std::sync::mpsc::sync_channel;
    let deadline = Duration::from_millis(300);
    // persistent thread pairs: the first creates channels and closes its half at once, the second receives the other
    // half and waits for the close; both directions
    let mut handles = vec![];
    for pair in 0..2u64 {
        let (tx_r, rx_r) = sync_channel::<(swimos_byte_channel::ByteReader, Arc<AtomicBool>)>(1);
        let (tx_w, rx_w) = sync_channel::<(swimos_byte_channel::ByteWriter, Arc<AtomicBool>)>(1);
        let waiter = thread::spawn(move || {
            let mut lost = 0u64;
            loop {
                // alternate: a reader to drain to the end of the stream, then a writer to push into a broken pipe
                match rx_r.recv() {
                    Ok((r, closed)) => {
                        if !read_to_end(r, deadline, &closed) {
                            lost += 1;
                        }
                    }
                    Err(_) => break,
                }
                match rx_w.recv() {
                    Ok((w, closed)) => {
                        if !write_until_broken(w, deadline, &closed) {
                            lost += 1;
                        }
                    }
                    Err(_) => break,
                }
            }
            lost
        });
        let closer = thread::spawn(move || {
            let mut rng = Rng::new(seed.wrapping_mul(31).wrapping_add(pair));
            for _ in 0..rounds {
                let cap = rng.range(1, 8) as usize;
                let (wtr, rdr) = byte_channel(NonZeroUsize::new(cap).unwrap());
                let closed = Arc::new(AtomicBool::new(false));
                if tx_r.send((rdr, closed.clone())).is_err() {
                    break;
                }
                for _ in 0..rng.below(60) {
                    std::hint::spin_loop();
                }
                drop(wtr);
                closed.store(true, Ordering::SeqCst);
                let (wtr, rdr) = byte_channel(NonZeroUsize::new(cap).unwrap());
                let closed = Arc::new(AtomicBool::new(false));
                if tx_w.send((wtr, closed.clone())).is_err() {
                    break;
                }
                for _ in 0..rng.below(60) {
                    std::hint::spin_loop();
                }
                drop(rdr);
                closed.store(true, Ordering::SeqCst);
            }
        });
        handles.push((waiter, closer));
    }
    let mut lost = 0u64;
    for (waiter, closer) in handles {
        closer.join().unwrap();
        lost += waiter.join().unwrap();
    }
    format!("rounds={} lost={}", rounds, lost)
}

fn run_case(t: &mut Trace, ops: &[String]) {
    for op in ops {
        let p: Vec<&str> = op.split_whitespace().collect();
        match p.as_slice() {
            ["race", n, seed] => match (n.parse::<u64>(), seed.parse::<u64>()) {
                (Ok(n), Ok(seed)) if n <= 2_000_000 => t.op(op, race(n, seed)),
                _ => t.op(op, "bad-op"),
            },
            _ => t.op(op, "bad-op"),
        }
    }
}

fn main() {
    match parse_args() {
        Mode::Gen { seed, cases, out } => {
            let mut t = Trace::create(&out);
            let mut rng = Rng::new(seed);
            for c in 0..cases {
                t.case(format!("{} seed={}", c, seed));
                run_case(&mut t, &[format!("race 40000 {}", rng.next() % 1_000_000)]);
            }
            t.finish();
        }
        Mode::Replay { ops, out } => {
            let mut t = Trace::create(&out);
            for (i, case) in ops.iter().enumerate() {
                t.case(i);
                run_case(&mut t, case);
            }
            t.finish();
        }
    }
}
