//! C09 correspondence: the real Recon printers, the one-shot parser and the incremental decoders.
//!
//! Engines (4th CLI argument of `gen`):
//!   values  — model values: `print <S|C|P> <venc>` ;; `<hex of printed text>` and
//!             `cycle <S|C|P> <venc>` ;; `<r1> <r2>` (r1 = parse(print v), r2 = parse(print r1));
//!   texts   — texts from the harness' own Recon grammar generator: `parse <hex>` ;; `<res>`;
//!   chunks  — implementation-vs-implementation: `chunk <hex> <all|k1,k2,..>` ;;
//!             `one=<res> wl=<res> wlc=<same|cutK:res> raw=<res> rawc=<same|cutK:res>`
//!             (one-shot parser, length-delimited decoder whole / cut, bare decoder whole / cut);
//!   typed   — derived `Form` types: `typed <kind> <hex of compact print>` ;; `<S> <C> <P>` (each `same`/`diff`/`err`/`panic`).
//! `<res>` = `ok:<venc>` | `err` | `panic` | `none` | `hang`.
//!
//! Value encoding `<venc>` (no spaces, `,`-separated prefix tokens):
//!   X | Ia:<i32> | Ib:<i64> | Ic:<u32> | Id:<u64> | Ie:<bigint> | If:<biguint> | F<+|-><digits>e<exp> | FN | F+I | F-I
//!   | B0 | B1 | T<hex utf8> | D<hex> | R:<nattrs>:<nitems> then per attr `A<hex name>,<value>` and per item
//!   `V,<value>` or `S,<key>,<value>`.
use std::panic::{catch_unwind, AssertUnwindSafe};
use std::sync::atomic::{AtomicU64, Ordering};
use std::sync::{Arc, Mutex};

use bytes::{BufMut, BytesMut};
use num_bigint::{BigInt, BigUint};
use svh::{hex, parse_args, unhex, Mode, Rng};
use swimos_form::read::RecognizerReadable;
use swimos_form::Form;
use swimos_model::{Attr, Blob, Item, Text, Value};
use swimos_recon::parser::{parse_recognize, RecognizerDecoder};
use swimos_recon::{print_recon, print_recon_compact, print_recon_pretty, WithLenRecognizerDecoder};
use tokio_util::codec::Decoder;

// ------------------------------------------------------------------------------------------- value encoding

fn fenc(x: f64) -> String {
    if x.is_nan() {
        return "FN".into();
    }
    if x.is_infinite() {
        return if x > 0.0 { "F+I".into() } else { "F-I".into() };
    }
    // `{:e}` prints the shortest round-trip digits: d[.ddd]e<exp>
    let s = format!("{:e}", x);
    let (neg, s) = match s.strip_prefix('-') {
        Some(r) => (true, r.to_string()),
        None => (false, s),
    };
    let (mant, exp) = s.split_once('e').expect("exp");
    let exp: i64 = exp.parse().expect("exp int");
    let digits: String = mant.chars().filter(|c| *c != '.').collect();
    let frac_len = mant.split_once('.').map(|(_, f)| f.len()).unwrap_or(0) as i64;
    format!("F{}{}e{}", if neg { '-' } else { '+' }, digits, exp - frac_len)
}


/// Canonical (digits, exp10) of a decimal float text such as `12.5`, `1e21`, `0.001`, `1.5e-7`.
fn dec_canon(t: &str) -> (String, i64) {
    let t = t.trim_start_matches('-');
    let (mant, exp) = match t.split_once('e') {
        Some((m, e)) => (m, e.parse::<i64>().unwrap_or(0)),
        None => (t, 0),
    };
    let (ip, fp) = mant.split_once('.').unwrap_or((mant, ""));
    let mut digits = format!("{}{}", ip, fp);
    let mut e = exp - fp.len() as i64;
    while digits.len() > 1 && digits.ends_with('0') {
        digits.pop();
        e += 1;
    }
    let d = digits.trim_start_matches('0').to_string();
    if d.is_empty() {
        ("0".into(), 0)
    } else {
        (d, e)
    }
}

/// `ryu` (used by the structure printer) and `{:e}` (used by the attribute printer, and by this harness to
/// canonicalise floats) both print a shortest round-trip decimal, but not always the same one; the model carries one
/// decimal per float, so model comparison is restricted to floats on which they agree.
fn float_printers_agree(x: f64) -> bool {
    if !x.is_finite() {
        return true;
    }
    let r = format!("{}", print_recon_compact(&Value::Float64Value(x)));
    let e = format!("{:e}", x);
    dec_canon(&r) == dec_canon(&e)
}

fn fdec(s: &str) -> Option<f64> {
    match s {
        "FN" => Some(f64::NAN),
        "F+I" => Some(f64::INFINITY),
        "F-I" => Some(f64::NEG_INFINITY),
        _ => {
            let body = &s[1..];
            let (sign, rest) = body.split_at(1);
            let t = format!("{}{}", if sign == "-" { "-" } else { "" }, rest);
            t.parse::<f64>().ok()
        }
    }
}

fn venc_into(v: &Value, out: &mut Vec<String>) {
    match v {
        Value::Extant => out.push("X".into()),
        Value::Int32Value(n) => out.push(format!("Ia:{}", n)),
        Value::Int64Value(n) => out.push(format!("Ib:{}", n)),
        Value::UInt32Value(n) => out.push(format!("Ic:{}", n)),
        Value::UInt64Value(n) => out.push(format!("Id:{}", n)),
        Value::BigInt(n) => out.push(format!("Ie:{}", n)),
        Value::BigUint(n) => out.push(format!("If:{}", n)),
        Value::Float64Value(x) => out.push(fenc(*x)),
        Value::BooleanValue(b) => out.push(if *b { "B1".into() } else { "B0".into() }),
        Value::Text(t) => out.push(format!("T{}", hex(t.as_str().as_bytes()))),
        Value::Data(b) => out.push(format!("D{}", hex(b.as_ref()))),
        Value::Record(attrs, items) => {
            out.push(format!("R:{}:{}", attrs.len(), items.len()));
            for Attr { name, value } in attrs {
                out.push(format!("A{}", hex(name.as_str().as_bytes())));
                venc_into(value, out);
            }
            for it in items {
                match it {
                    Item::ValueItem(v) => {
                        out.push("V".into());
                        venc_into(v, out);
                    }
                    Item::Slot(k, v) => {
                        out.push("S".into());
                        venc_into(k, out);
                        venc_into(v, out);
                    }
                }
            }
        }
    }
}

fn venc(v: &Value) -> String {
    let mut out = vec![];
    venc_into(v, &mut out);
    out.join(",")
}

fn vdec_tokens(toks: &[&str], pos: &mut usize) -> Option<Value> {
    let t = *toks.get(*pos)?;
    *pos += 1;
    let (h, rest) = t.split_at(1);
    Some(match h {
        "X" => Value::Extant,
        "I" => {
            let (k, n) = rest.split_once(':')?;
            match k {
                "a" => Value::Int32Value(n.parse().ok()?),
                "b" => Value::Int64Value(n.parse().ok()?),
                "c" => Value::UInt32Value(n.parse().ok()?),
                "d" => Value::UInt64Value(n.parse().ok()?),
                "e" => Value::BigInt(n.parse::<BigInt>().ok()?),
                "f" => Value::BigUint(n.parse::<BigUint>().ok()?),
                _ => return None,
            }
        }
        "F" => Value::Float64Value(fdec(t)?),
        "B" => Value::BooleanValue(rest == "1"),
        "T" => Value::Text(Text::from(String::from_utf8(unhex(rest)?).ok()?)),
        "D" => Value::Data(Blob::from_vec(unhex(rest)?)),
        "R" => {
            let mut it = rest.split(':');
            it.next()?;
            let na: usize = it.next()?.parse().ok()?;
            let ni: usize = it.next()?.parse().ok()?;
            let mut attrs = vec![];
            for _ in 0..na {
                let a = *toks.get(*pos)?;
                *pos += 1;
                let name = String::from_utf8(unhex(a.strip_prefix('A')?)?).ok()?;
                let v = vdec_tokens(toks, pos)?;
                attrs.push(Attr { name: Text::from(name), value: v });
            }
            let mut items = vec![];
            for _ in 0..ni {
                let k = *toks.get(*pos)?;
                *pos += 1;
                match k {
                    "V" => items.push(Item::ValueItem(vdec_tokens(toks, pos)?)),
                    "S" => {
                        let key = vdec_tokens(toks, pos)?;
                        let val = vdec_tokens(toks, pos)?;
                        items.push(Item::Slot(key, val));
                    }
                    _ => return None,
                }
            }
            Value::Record(attrs, items)
        }
        _ => return None,
    })
}

fn vdec(s: &str) -> Option<Value> {
    let toks: Vec<&str> = s.split(',').collect();
    let mut pos = 0;
    let v = vdec_tokens(&toks, &mut pos)?;
    if pos == toks.len() {
        Some(v)
    } else {
        None
    }
}

// ------------------------------------------------------------------------------------------- real code wrappers

/// Watchdog: if one call into the real code runs longer than the budget, the current op is reported as `hang`
/// and the process exits (the remaining cases of this shard are not run).
struct Watch {
    started: AtomicU64, // millis since start of process at which the current op started; 0 = idle
    current: Mutex<String>,
}

static START: std::sync::OnceLock<std::time::Instant> = std::sync::OnceLock::new();
fn now_ms() -> u64 {
    START.get_or_init(std::time::Instant::now).elapsed().as_millis() as u64 + 1
}

const HANG_BUDGET_MS: u64 = 20_000;
static IN_GUARD: std::sync::atomic::AtomicBool = std::sync::atomic::AtomicBool::new(false);

fn guarded<T>(w: &Watch, op: &str, f: impl FnOnce() -> T) -> Result<T, ()> {
    *w.current.lock().unwrap() = op.to_string();
    w.started.store(now_ms(), Ordering::SeqCst);
    IN_GUARD.store(true, Ordering::SeqCst);
    let r = catch_unwind(AssertUnwindSafe(f));
    IN_GUARD.store(false, Ordering::SeqCst);
    w.started.store(0, Ordering::SeqCst);
    r.map_err(|_| ())
}

fn print_style(style: char, v: &Value) -> String {
    match style {
        'S' => format!("{}", print_recon(v)),
        'C' => format!("{}", print_recon_compact(v)),
        _ => format!("{}", print_recon_pretty(v)),
    }
}

fn res_of(r: Result<Value, ()>) -> String {
    match r {
        Ok(v) => format!("ok:{}", venc(&v)),
        Err(()) => "err".into(),
    }
}

fn parse_one(text: &str) -> Result<Value, ()> {
    parse_recognize::<Value>(text, false).map_err(|_| ())
}

/// Feed `pieces` to a tokio `Decoder` the way `FramedRead` does: append, call `decode` until it says `None`;
/// at the end of the input call `decode_eof` once (only for the bare decoder; `eof = true`).
/// Result of the first frame. `None` = no result although the whole input was delivered.
fn drive<D: Decoder<Item = Value>>(dec: &mut D, pieces: &[&[u8]], eof: bool) -> String {
    let mut buf = BytesMut::new();
    for p in pieces {
        buf.put_slice(p);
        match dec.decode(&mut buf) {
            Ok(Some(v)) => return format!("ok:{}", venc(&v)),
            Ok(None) => {}
            Err(_) => return "err".into(),
        }
    }
    if eof {
        match dec.decode_eof(&mut buf) {
            Ok(Some(v)) => format!("ok:{}", venc(&v)),
            Ok(None) => "none".into(),
            Err(_) => "err".into(),
        }
    } else {
        "none".into()
    }
}

fn split_at_cuts<'a>(body: &'a [u8], cuts: &[usize]) -> Vec<&'a [u8]> {
    let mut out = vec![];
    let mut last = 0;
    for &c in cuts {
        if c > last && c < body.len() {
            out.push(&body[last..c]);
            last = c;
        }
    }
    out.push(&body[last..]);
    out
}

fn with_len(body: &[u8], cuts: &[usize]) -> String {
    let mut dec = WithLenRecognizerDecoder::new(Value::make_recognizer());
    let pieces = split_at_cuts(body, cuts);
    let mut first = (body.len() as u64).to_be_bytes().to_vec();
    first.extend_from_slice(pieces[0]);
    let mut ps: Vec<&[u8]> = vec![&first];
    ps.extend_from_slice(&pieces[1..]);
    drive(&mut dec, &ps, false)
}

fn bare(body: &[u8], cuts: &[usize]) -> String {
    let mut dec = RecognizerDecoder::new(Value::make_recognizer());
    let pieces = split_at_cuts(body, cuts);
    drive(&mut dec, &pieces, true)
}

fn chunk_op(w: &Watch, op: &str, body: &[u8], cutspec: &str) -> String {
    let g = |f: &dyn Fn() -> String| -> String { guarded(w, op, f).unwrap_or_else(|_| "panic".into()) };
    let one = match std::str::from_utf8(body) {
        Ok(s) => g(&|| res_of(parse_one(s))),
        Err(_) => "err".into(),
    };
    let wl = g(&|| with_len(body, &[]));
    let raw = g(&|| bare(body, &[]));
    let (wlc, rawc);
    if cutspec == "all" {
        let mut a = "same".to_string();
        let mut b = "same".to_string();
        for k in 1..body.len() {
            if a == "same" {
                let r = g(&|| with_len(body, &[k]));
                if r != wl {
                    a = format!("cut{}:{}", k, r);
                }
            }
            if b == "same" {
                let r = g(&|| bare(body, &[k]));
                if r != raw {
                    b = format!("cut{}:{}", k, r);
                }
            }
        }
        wlc = a;
        rawc = b;
    } else {
        let cuts: Vec<usize> = cutspec.split(',').filter_map(|x| x.parse().ok()).collect();
        let r = g(&|| with_len(body, &cuts));
        wlc = if r == wl { "same".into() } else { format!("cut{}:{}", cuts.first().copied().unwrap_or(0), r) };
        let r = g(&|| bare(body, &cuts));
        rawc = if r == raw { "same".into() } else { format!("cut{}:{}", cuts.first().copied().unwrap_or(0), r) };
    }
    format!("one={} wl={} wlc={} raw={} rawc={}", one, wl, wlc, raw, rawc)
}

// ---------------------------------------------------------------------- sequences through ONE decoder instance

/// Frames back to back through one `WithLenRecognizerDecoder`, driven as `FramedRead` does: append a piece, call
/// `decode` until it says `None` (errors do not end the stream: the decoder itself skips the rest of the bad frame).
/// Every result, in order.
fn wl_seq(docs: &[Vec<u8>], cuts: &[usize]) -> Vec<String> {
    let mut stream = vec![];
    for d in docs {
        stream.extend_from_slice(&(d.len() as u64).to_be_bytes());
        stream.extend_from_slice(d);
    }
    let mut dec = WithLenRecognizerDecoder::new(Value::make_recognizer());
    let mut buf = BytesMut::new();
    let mut out = vec![];
    for p in split_at_cuts(&stream, cuts) {
        buf.put_slice(p);
        let mut guard = buf.len() / 8 + 2;
        loop {
            match dec.decode(&mut buf) {
                Ok(Some(v)) => out.push(format!("ok:{}", venc(&v))),
                Ok(None) => break,
                Err(_) => out.push("err".into()),
            }
            guard -= 1;
            if guard == 0 {
                out.push("fuel".into());
                break;
            }
        }
    }
    out
}

/// Documents one after the other through one bare `RecognizerDecoder`, each with a buffer of its own (`decode` per
/// piece, `decode_eof` at the end of the document, as `swimos_messages`' request decoder drives it; whatever is left of
/// a document after its result is dropped by the framing layer).  No explicit `reset()`: `decode`/`decode_eof` are
/// documented to leave a fresh decoder after a value or an error.  `cuts` index the concatenation of the documents.
fn bare_seq(docs: &[Vec<u8>], cuts: &[usize]) -> Vec<String> {
    let mut dec = RecognizerDecoder::new(Value::make_recognizer());
    let mut off = 0;
    let mut out = vec![];
    for d in docs {
        let local: Vec<usize> = cuts.iter().filter(|&&c| c > off && c < off + d.len()).map(|c| c - off).collect();
        out.push(drive(&mut dec, &split_at_cuts(d, &local), true));
        off += d.len();
    }
    out
}

fn enc_list(l: &[String]) -> String {
    if l.is_empty() {
        "-".into()
    } else {
        l.join("|")
    }
}

fn seq_op(w: &Watch, op: &str, docs: &[Vec<u8>], cutspec: &str) -> String {
    let g = |f: &dyn Fn() -> Vec<String>| -> Vec<String> { guarded(w, op, f).unwrap_or_else(|_| vec!["panic".into()]) };
    let valid: Vec<bool> = docs.iter().map(|d| std::str::from_utf8(d).is_ok()).collect();
    let one: Vec<String> = docs
        .iter()
        .map(|d| match std::str::from_utf8(d) {
            Ok(s) => guarded(w, op, || res_of(parse_one(s))).unwrap_or_else(|_| "panic".into()),
            Err(_) => "err".into(),
        })
        .collect();
    // a cut may legitimately change the verdict on a document that is not UTF-8: only the other positions count
    let differs = |a: &[String], b: &[String]| a.len() != b.len() || (0..a.len()).any(|i| valid.get(i).copied().unwrap_or(true) && a[i] != b[i]);
    let wl = g(&|| wl_seq(docs, &[]));
    let raw = g(&|| bare_seq(docs, &[]));
    let total: usize = docs.iter().map(|d| d.len()).sum();
    let (mut wlc, mut rawc) = ("same".to_string(), "same".to_string());
    if cutspec == "all" {
        for k in 1..total + 8 * docs.len() {
            let r = g(&|| wl_seq(docs, &[k]));
            if differs(&r, &wl) {
                wlc = format!("cut{}:{}", k, enc_list(&r));
                break;
            }
        }
        for k in 1..total {
            let r = g(&|| bare_seq(docs, &[k]));
            if differs(&r, &raw) {
                rawc = format!("cut{}:{}", k, enc_list(&r));
                break;
            }
        }
    } else {
        let cuts: Vec<usize> = cutspec.split(',').filter_map(|x| x.parse().ok()).collect();
        let r = g(&|| wl_seq(docs, &cuts));
        if differs(&r, &wl) {
            wlc = format!("cut{}:{}", cuts.first().copied().unwrap_or(0), enc_list(&r));
        }
        let r = g(&|| bare_seq(docs, &cuts));
        if differs(&r, &raw) {
            rawc = format!("cut{}:{}", cuts.first().copied().unwrap_or(0), enc_list(&r));
        }
    }
    format!("one={} wl={} wlc={} raw={} rawc={}", enc_list(&one), enc_list(&wl), wlc, enc_list(&raw), rawc)
}

fn seq_hex(docs: &[Vec<u8>]) -> String {
    docs.iter().map(|d| hex(d)).collect::<Vec<_>>().join(".")
}

// ------------------------------------------------------------------------------------------- typed battery

#[derive(Debug, Clone, PartialEq, Form)]
struct Plain {
    first: i32,
    second: String,
    third: Option<u64>,
}

#[derive(Debug, Clone, PartialEq, Form)]
#[form(tag = "renamed")]
struct Tagged {
    #[form(header)]
    id: u32,
    #[form(attr)]
    flag: bool,
    #[form(name = "other")]
    value: f64,
    items: Vec<i64>,
}

#[derive(Debug, Clone, PartialEq, Form)]
enum Shape {
    Unit,
    Tuple(i32, String),
    Named {
        name: String,
        #[form(body)]
        inner: Plain,
    },
}

#[derive(Debug, Clone, PartialEq, Form)]
struct Outer {
    shape: Shape,
    plain: Plain,
    list: Vec<Plain>,
    map: std::collections::HashMap<String, i32>,
    blob: Blob,
    text: Text,
    pairs: Vec<(i32, String)>,
    triple: (bool, u64, Text),
}

fn typed_rt<T: Form + RecognizerReadable + PartialEq + std::fmt::Debug>(w: &Watch, op: &str, t: &T) -> String {
    let mut out = vec![];
    for style in ['S', 'C', 'P'] {
        let r = guarded(w, op, || {
            let s = match style {
                'S' => format!("{}", print_recon(t)),
                'C' => format!("{}", print_recon_compact(t)),
                _ => format!("{}", print_recon_pretty(t)),
            };
            match parse_recognize::<T>(s.as_str(), false) {
                Ok(u) => {
                    if &u == t {
                        "same"
                    } else {
                        "diff"
                    }
                }
                Err(_) => "err",
            }
        });
        out.push(r.unwrap_or("panic").to_string());
    }
    out.join(" ")
}

fn typed_replay<T: Form + RecognizerReadable + PartialEq + std::fmt::Debug>(w: &Watch, op: &str, text: &str) -> String {
    match guarded(w, op, || parse_recognize::<T>(text, false)) {
        Ok(Ok(t)) => typed_rt(w, op, &t),
        Ok(Err(_)) => "err err err".into(),
        Err(()) => "panic panic panic".into(),
    }
}

fn rand_string(rng: &mut Rng) -> String {
    gen_text(rng)
}

fn gen_plain(rng: &mut Rng) -> Plain {
    Plain {
        first: *rng.pick(&[0, 1, -1, i32::MAX, i32::MIN, 42]),
        second: rand_string(rng),
        third: if rng.chance(1, 2) { Some(*rng.pick(&[0u64, 1, u64::MAX, 1 << 40])) } else { None },
    }
}

fn gen_shape(rng: &mut Rng) -> Shape {
    match rng.below(3) {
        0 => Shape::Unit,
        1 => Shape::Tuple(rng.next() as i32, rand_string(rng)),
        _ => Shape::Named { name: rand_string(rng), inner: gen_plain(rng) },
    }
}

fn gen_finite_nice(rng: &mut Rng) -> f64 {
    let m = rng.below(2_000_000) as f64 - 1_000_000.0;
    m / *rng.pick(&[1.0, 2.0, 4.0, 8.0, 10.0, 1000.0, 1e9])
}

fn typed_case(rng: &mut Rng, w: &Watch, t: &Tr) {
    match rng.below(4) {
        0 => {
            let v = gen_plain(rng);
            let op = format!("typed plain {}", hex(format!("{}", print_recon_compact(&v)).as_bytes()));
            let o = typed_rt(w, &op, &v);
            t.op(op, o);
        }
        1 => {
            let v = Tagged {
                id: rng.next() as u32,
                flag: rng.chance(1, 2),
                value: gen_finite_nice(rng),
                items: (0..rng.below(4)).map(|_| rng.next() as i64).collect(),
            };
            let op = format!("typed tagged {}", hex(format!("{}", print_recon_compact(&v)).as_bytes()));
            let o = typed_rt(w, &op, &v);
            t.op(op, o);
        }
        2 => {
            let v = gen_shape(rng);
            let op = format!("typed shape {}", hex(format!("{}", print_recon_compact(&v)).as_bytes()));
            let o = typed_rt(w, &op, &v);
            t.op(op, o);
        }
        _ => {
            let v = Outer {
                shape: gen_shape(rng),
                plain: gen_plain(rng),
                list: (0..rng.below(3)).map(|_| gen_plain(rng)).collect(),
                map: (0..rng.below(3)).map(|_| (rand_string(rng), rng.next() as i32)).collect(),
                blob: Blob::from_vec((0..rng.below(7)).map(|_| rng.next() as u8).collect()),
                text: Text::from(rand_string(rng)),
                pairs: (0..rng.below(4)).map(|_| (rng.next() as i32, rand_string(rng))).collect(),
                triple: (rng.chance(1, 2), rng.next(), Text::from(rand_string(rng))),
            };
            let op = format!("typed outer {}", hex(format!("{}", print_recon_compact(&v)).as_bytes()));
            let o = typed_rt(w, &op, &v);
            t.op(op, o);
        }
    }
}

// ------------------------------------------------------------------------------------------- generators: values

const ID_BOUNDARY: &[u32] = &[
    0xb7, 0xc0, 0xd6, 0xd8, 0xf6, 0xf8, 0x37d, 0x37f, 0x1fff, 0x200c, 0x200d, 0x203f, 0x2040, 0x2070, 0x218f, 0x2c00,
    0x2fef, 0x3001, 0xd7ff, 0xf900, 0xfdcf, 0xfdf0, 0xfffd, 0x10000, 0xeffff,
];
const NON_ID_BOUNDARY: &[u32] = &[
    0xb6, 0xb8, 0xbf, 0xd7, 0xf7, 0x37e, 0x2000, 0x200b, 0x200e, 0x203e, 0x2041, 0x206f, 0x2190, 0x2bff, 0x2ff0,
    0x3000, 0xe000, 0xf8ff, 0xfdd0, 0xfdef, 0xfffe, 0xffff, 0xf0000, 0x10ffff, 0x7f, 0x80, 0xa0,
];

fn id_start(rng: &mut Rng) -> char {
    match rng.below(10) {
        0..=5 => (b'a' + rng.below(26) as u8) as char,
        6 => (b'A' + rng.below(26) as u8) as char,
        7 => '_',
        _ => char::from_u32(*rng.pick(ID_BOUNDARY)).unwrap(),
    }
}

fn id_char(rng: &mut Rng) -> char {
    match rng.below(10) {
        0..=5 => id_start(rng),
        6 | 7 => (b'0' + rng.below(10) as u8) as char,
        8 => '-',
        _ => id_start(rng),
    }
}

fn gen_ident(rng: &mut Rng) -> String {
    if rng.chance(1, 3) {
        return rng.pick(&["a", "b", "name", "tag", "k", "first", "_x", "a-b", "n2", "update", "key"]).to_string();
    }
    let mut s = String::new();
    s.push(id_start(rng));
    for _ in 0..rng.below(6) {
        s.push(id_char(rng));
    }
    if s == "true" || s == "false" {
        s.push('_');
    }
    s
}

fn any_char(rng: &mut Rng) -> char {
    match rng.below(16) {
        0..=4 => (0x20 + rng.below(0x5f) as u8) as char,
        5 => char::from_u32(rng.below(0x20) as u32).unwrap(),
        6 => *rng.pick(&['"', '\\', '\n', '\r', '\t', '\u{8}', '\u{c}', ' ', '@', '{', '}', '(', ')', ':', ',', ';', '%', '#', '\'']),
        7 => char::from_u32(*rng.pick(NON_ID_BOUNDARY)).unwrap(),
        8 => char::from_u32(*rng.pick(ID_BOUNDARY)).unwrap(),
        9 => (b'0' + rng.below(10) as u8) as char,
        10 => *rng.pick(&['u', 'n', 'b', 'f', 'r', 't', '-', '+', '.', 'e', 'E', '=', '/']),
        _ => id_char(rng),
    }
}

fn gen_text(rng: &mut Rng) -> String {
    match rng.below(12) {
        0..=4 => gen_ident(rng),
        5 => rng
            .pick(&["true", "false", "", "two words", "2morrow", "-a", "a b", "\"", "\\", "\\u0041", "NaN", "inf", "0x10", "%AAAA", "@a", "a:b", "{}", "1", "-1", "1.5", "\u{7f}", "\u{1f}", "\u{0}"])
            .to_string(),
        _ => (0..rng.below(9)).map(|_| any_char(rng)).collect(),
    }
}

fn gen_int(rng: &mut Rng) -> Value {
    // a mathematical integer at a boundary, then a Rust kind that can hold it
    let two63 = BigInt::from(1u64 << 63);
    let two64: BigInt = BigInt::from(u64::MAX) + 1;
    let cands: Vec<BigInt> = vec![
        0.into(),
        1.into(),
        (-1).into(),
        7.into(),
        (-42).into(),
        i32::MAX.into(),
        (i32::MAX as i64 + 1).into(),
        i32::MIN.into(),
        (i32::MIN as i64 - 1).into(),
        u32::MAX.into(),
        (u32::MAX as i64 + 1).into(),
        i64::MAX.into(),
        two63.clone(),
        i64::MIN.into(),
        (i64::MIN + 1).into(),
        -two63.clone() - 1,
        u64::MAX.into(),
        two64.clone(),
        two64.clone() + 1,
        -two64.clone(),
        "1000000000000000000000000000000".parse().unwrap(),
        "-1000000000000000000000000000000".parse().unwrap(),
        BigInt::from(rng.next() as i64),
        BigInt::from(rng.next() as i32),
        BigInt::from(rng.next()),
        BigInt::from(rng.below(1000)),
    ];
    let n = rng.pick(&cands).clone();
    let mut kinds: Vec<Value> = vec![Value::BigInt(n.clone())];
    if let Some(u) = n.to_biguint() {
        kinds.push(Value::BigUint(u));
    }
    if let Ok(x) = i32::try_from(&n) {
        kinds.push(Value::Int32Value(x));
        kinds.push(Value::Int32Value(x));
        kinds.push(Value::Int32Value(x));
    }
    if let Ok(x) = i64::try_from(&n) {
        kinds.push(Value::Int64Value(x));
        kinds.push(Value::Int64Value(x));
    }
    if let Ok(x) = u32::try_from(&n) {
        kinds.push(Value::UInt32Value(x));
    }
    if let Ok(x) = u64::try_from(&n) {
        kinds.push(Value::UInt64Value(x));
        kinds.push(Value::UInt64Value(x));
    }
    rng.pick(&kinds).clone()
}

fn gen_float(rng: &mut Rng, allow_nonfinite: bool) -> f64 {
    loop {
        let x = gen_float_raw(rng, allow_nonfinite);
        if float_printers_agree(x) {
            return x;
        }
    }
}

fn gen_float_raw(rng: &mut Rng, allow_nonfinite: bool) -> f64 {
    match rng.below(12) {
        0 => *rng.pick(&[0.0, -0.0, 1.0, -1.0, 0.5, 1e15, 1e16, 1e17, 1e21, 1e22, 1e-5, 1e-6, 1e-7, 123456.789, 0.1, 0.3,
            f64::MAX, f64::MIN_POSITIVE, 5e-324, 1.7976931348623157e308, 9007199254740993.0, 123456789012345680000.0, 1e100, 1.5e-10]),
        1 if allow_nonfinite => *rng.pick(&[f64::NAN, f64::INFINITY, f64::NEG_INFINITY]),
        2..=5 => gen_finite_nice(rng),
        6 | 7 => {
            // decimal with up to 15 significant digits and a moderate exponent
            let nd = 1 + rng.below(15) as u32;
            let digits = rng.below(10u64.pow(nd));
            let e = rng.below(61) as i32 - 30;
            let s = format!("{}{}e{}", if rng.chance(1, 2) { "-" } else { "" }, digits, e);
            s.parse().unwrap()
        }
        _ => {
            let x = f64::from_bits(rng.next());
            if x.is_finite() {
                x
            } else {
                1.25
            }
        }
    }
}

#[derive(Clone, Copy)]
struct VCfg {
    bad_attr_names: bool,
    nonfinite: bool,
    risky_shapes: bool,
}

fn gen_prim(rng: &mut Rng, cfg: VCfg) -> Value {
    match rng.below(14) {
        0 => Value::Extant,
        1..=3 => gen_int(rng),
        4 | 5 => Value::Float64Value(gen_float(rng, cfg.nonfinite)),
        6 => Value::BooleanValue(rng.chance(1, 2)),
        7..=11 => Value::Text(Text::from(gen_text(rng))),
        _ => {
            let n = *rng.pick(&[0usize, 1, 2, 3, 4, 5, 6, 7, 16, 33]);
            Value::Data(Blob::from_vec((0..n).map(|_| rng.next() as u8).collect()))
        }
    }
}

fn gen_attr_name(rng: &mut Rng, cfg: VCfg) -> String {
    if cfg.bad_attr_names && rng.chance(1, 12) {
        gen_text(rng)
    } else {
        gen_ident(rng)
    }
}

fn gen_value(rng: &mut Rng, depth: u32, cfg: VCfg) -> Value {
    if depth == 0 || rng.chance(2, 5) {
        return gen_prim(rng, cfg);
    }
    let na = *rng.pick(&[0usize, 0, 0, 1, 1, 2, 3]);
    let mut ni = *rng.pick(&[0usize, 1, 1, 2, 2, 3, 4, 6]);
    let mut attrs = vec![];
    for _ in 0..na {
        let value = match rng.below(10) {
            0..=3 => Value::Extant,
            4..=6 => {
                let p = gen_prim(rng, cfg);
                p
            }
            _ => gen_value(rng, depth - 1, cfg),
        };
        attrs.push(Attr { name: Text::from(gen_attr_name(rng, cfg)), value });
    }
    let mut items = vec![];
    if !cfg.risky_shapes && na > 0 && ni == 1 && rng.chance(1, 2) {
        // the well-behaved singleton form: a primitive after the attributes
        let mut p = gen_prim(rng, cfg);
        if p == Value::Extant {
            p = Value::Int32Value(3);
        }
        return Value::Record(attrs, vec![Item::ValueItem(p)]);
    }
    if !cfg.risky_shapes && na > 0 && ni == 1 {
        ni = 2;
    }
    for _ in 0..ni {
        if rng.chance(3, 5) {
            items.push(Item::ValueItem(gen_value(rng, depth - 1, cfg)));
        } else {
            let key = if rng.chance(7, 10) { Value::Text(Text::from(gen_text(rng))) } else { gen_value(rng, depth - 1, cfg) };
            items.push(Item::Slot(key, gen_value(rng, depth - 1, cfg)));
        }
    }
    Value::Record(attrs, items)
}

fn deep_chain(rng: &mut Rng, depth: u32) -> Value {
    let mut v = gen_prim(rng, VCfg { bad_attr_names: false, nonfinite: false, risky_shapes: false });
    for _ in 0..depth {
        v = match rng.below(4) {
            0 => Value::Record(vec![], vec![Item::ValueItem(v), Item::ValueItem(Value::Int32Value(1))]),
            1 => Value::Record(vec![Attr { name: Text::from("a"), value: v }], vec![]),
            2 => Value::Record(vec![], vec![Item::Slot(Value::text("k"), v)]),
            _ => Value::Record(vec![Attr { name: Text::from("n"), value: Value::Extant }], vec![Item::ValueItem(v), Item::ValueItem(Value::Extant)]),
        };
    }
    v
}

fn value_case(rng: &mut Rng, w: &Watch, t: &Tr) {
    let v = match rng.below(40) {
        0 => {
            let d = rng.range(20, 64) as u32;
            deep_chain(rng, d)
        }
        1..=6 => gen_value(rng, 4, VCfg { bad_attr_names: true, nonfinite: true, risky_shapes: true }),
        7..=12 => gen_prim(rng, VCfg { bad_attr_names: false, nonfinite: false, risky_shapes: false }),
        _ => gen_value(rng, 4, VCfg { bad_attr_names: false, nonfinite: false, risky_shapes: false }),
    };
    value_ops(w, t, &v);
}

fn value_ops(w: &Watch, t: &Tr, v: &Value) {
    let e = venc(v);
    for style in ['S', 'C', 'P'] {
        let op = format!("print {} {}", style, e);
        let o = guarded(w, &op, || format!("text {}", hex(print_style(style, v).as_bytes()))).unwrap_or_else(|_| "panic".into());
        t.op(op, o);
    }
    for style in ['S', 'C', 'P'] {
        let op = format!("cycle {} {}", style, e);
        let o = cycle(w, &op, style, v);
        t.op(op, o);
    }
}

fn cycle(w: &Watch, op: &str, style: char, v: &Value) -> String {
    let r1 = guarded(w, op, || parse_one(&print_style(style, v)));
    match r1 {
        Err(()) => "panicked panic -".into(),
        Ok(Err(())) => "unparsed err -".into(),
        Ok(Ok(v1)) => {
            let r2 = guarded(w, op, || parse_one(&print_style(style, &v1)));
            let s2 = match r2 {
                Err(()) => "panic".to_string(),
                Ok(r) => res_of(r),
            };
            {
                let s1 = format!("ok:{}", venc(&v1));
                format!("{} {} {}", if s1 == s2 { "stable" } else { "changed" }, s1, s2)
            }
        }
    }
}

// ------------------------------------------------------------------------------------------- generators: grammar texts

struct G<'a> {
    rng: &'a mut Rng,
    out: String,
}

impl<'a> G<'a> {
    fn sp(&mut self) {
        match self.rng.below(6) {
            0 => self.out.push(' '),
            1 => self.out.push_str("  "),
            2 => self.out.push('\t'),
            _ => {}
        }
    }
    fn ws(&mut self) {
        match self.rng.below(8) {
            0 => self.out.push(' '),
            1 => self.out.push('\n'),
            2 => self.out.push_str("\r\n"),
            3 => self.out.push_str("\n  "),
            _ => {}
        }
    }
    fn string_lit(&mut self, s: &str) {
        self.out.push('"');
        for c in s.chars() {
            match c {
                '"' => self.out.push_str("\\\""),
                '\\' => self.out.push_str("\\\\"),
                '\n' if self.rng.chance(1, 2) => self.out.push_str("\\n"),
                '\r' if self.rng.chance(1, 2) => self.out.push_str("\\r"),
                '\t' if self.rng.chance(1, 2) => self.out.push_str("\\t"),
                '\u{8}' if self.rng.chance(1, 2) => self.out.push_str("\\b"),
                '\u{c}' if self.rng.chance(1, 2) => self.out.push_str("\\f"),
                c if (c as u32) < 0x10000 && !(0xd800..0xe000).contains(&(c as u32)) && self.rng.chance(1, 6) => {
                    let us = if self.rng.chance(1, 5) { "uu" } else { "u" };
                    let hexs = if self.rng.chance(1, 2) { format!("{:04x}", c as u32) } else { format!("{:04X}", c as u32) };
                    self.out.push_str(&format!("\\{}{}", us, hexs));
                }
                c => self.out.push(c),
            }
        }
        self.out.push('"');
    }
    fn text(&mut self) {
        let s = gen_text(self.rng);
        let ident = swimos_model::identifier::is_identifier(&s);
        if ident && self.rng.chance(4, 5) {
            self.out.push_str(&s);
        } else {
            self.string_lit(&s);
        }
    }
    fn int(&mut self) {
        let neg = self.rng.chance(1, 3);
        if neg {
            self.out.push('-');
        }
        let mag: u128 = match self.rng.below(8) {
            0 => 0,
            1 => *self.rng.pick(&[i32::MAX as u128, i32::MAX as u128 + 1, 1u128 << 31, (1u128 << 31) + 1, u32::MAX as u128, 1u128 << 32,
                i64::MAX as u128, 1u128 << 63, (1u128 << 63) + 1, u64::MAX as u128, 1u128 << 64, (1u128 << 64) + 1, 1u128 << 100]),
            2 => self.rng.next() as u128,
            3 => (self.rng.next() as u128) << 40,
            _ => self.rng.below(100000) as u128,
        };
        match self.rng.below(8) {
            0 => self.out.push_str(&format!("{}{:x}", self.rng.pick(&["0x", "0X"]), mag)),
            1 => self.out.push_str(&format!("{}{:X}", self.rng.pick(&["0x", "0X"]), mag)),
            2 => self.out.push_str(&format!("{}{:b}", self.rng.pick(&["0b", "0B"]), mag)),
            3 => self.out.push_str(&format!("00{}", mag)),
            _ => self.out.push_str(&format!("{}", mag)),
        }
    }
    fn float(&mut self) {
        // at most 15 significant digits, moderate exponents: the decimal is then the shortest representation of
        // the f64 it denotes, which is what the model's exact-decimal floats assume
        if self.rng.chance(1, 3) {
            self.out.push(*self.rng.pick(&['-', '-', '+']));
        }
        let nd = 1 + self.rng.below(7);
        let int_part = self.rng.below(10u64.pow(nd as u32));
        let nf = self.rng.below(8);
        let frac = self.rng.below(10u64.pow(nf as u32));
        let form = self.rng.below(6);
        match form {
            0 => self.out.push_str(&format!("{}.{:0w$}", int_part, frac, w = nf.max(1) as usize)),
            1 => self.out.push_str(&format!("{}e{}", int_part, self.rng.below(20))),
            2 => self.out.push_str(&format!("{}.{:0w$}{}{}{}", int_part, frac, self.rng.pick(&["e", "E"]), self.rng.pick(&["", "+", "-"]), self.rng.below(25), w = nf.max(1) as usize)),
            3 => self.out.push_str(&format!(".{:0w$}", frac, w = nf.max(1) as usize)),
            4 => self.out.push_str(&format!("{}.", int_part)),
            _ => self.out.push_str(&format!("{}.0", int_part)),
        }
    }
    fn blob(&mut self) {
        let n = *self.rng.pick(&[0usize, 1, 2, 3, 4, 5, 6, 9, 10]);
        let bytes: Vec<u8> = (0..n).map(|_| self.rng.next() as u8).collect();
        self.out.push_str(&format!("{}", print_recon_compact(&Value::Data(Blob::from_vec(bytes)))));
    }
    fn prim(&mut self) {
        match self.rng.below(12) {
            0..=3 => self.text(),
            4..=6 => self.int(),
            7 | 8 => self.float(),
            9 => self.out.push_str(*self.rng.pick(&["true", "false"])),
            10 => self.blob(),
            _ => {
                let s = gen_text(self.rng);
                self.string_lit(&s)
            }
        }
    }
    fn attr(&mut self, depth: u32) {
        self.out.push('@');
        let name = gen_attr_name(self.rng, VCfg { bad_attr_names: true, nonfinite: false, risky_shapes: true });
        if swimos_model::identifier::is_identifier(&name) && self.rng.chance(9, 10) {
            self.out.push_str(&name);
        } else if name == "true" || name == "false" {
            self.out.push_str(&name);
        } else {
            self.string_lit(&name);
        }
        if self.rng.chance(1, 2) {
            self.out.push('(');
            self.items(depth, ')');
            self.out.push(')');
        }
    }
    /// A record (or primitive) in item position.
    fn value(&mut self, depth: u32) {
        if depth == 0 || self.rng.chance(2, 5) {
            self.prim();
            return;
        }
        let na = *self.rng.pick(&[0u64, 0, 1, 1, 2, 3]);
        for i in 0..na {
            if i > 0 {
                self.sp();
            }
            self.attr(depth - 1);
        }
        if na == 0 {
            self.out.push('{');
            self.items(depth - 1, '}');
            self.out.push('}');
        } else {
            match self.rng.below(4) {
                0 => {}
                1 => {
                    self.sp();
                    self.out.push('{');
                    self.items(depth - 1, '}');
                    self.out.push('}');
                }
                2 => {
                    self.out.push(' ');
                    self.sp();
                    self.prim();
                }
                _ => {
                    self.sp();
                    self.out.push('{');
                    self.items(depth - 1, '}');
                    self.out.push('}');
                }
            }
        }
    }
    fn items(&mut self, depth: u32, _end: char) {
        let n = *self.rng.pick(&[0u64, 1, 1, 2, 2, 3, 5]);
        self.ws();
        for i in 0..n {
            if i > 0 {
                match self.rng.below(6) {
                    0 => self.out.push(';'),
                    1 => self.out.push('\n'),
                    2 => self.out.push_str("\r\n"),
                    3 => self.out.push_str(",\n"),
                    _ => self.out.push(','),
                }
                self.ws();
            }
            match self.rng.below(12) {
                0 => {} // empty item
                1 => {
                    self.out.push(':');
                    self.sp();
                    self.value(depth);
                }
                2 => {
                    self.value(depth);
                    self.sp();
                    self.out.push(':');
                }
                3..=6 => {
                    self.value(depth);
                    self.sp();
                    self.out.push(':');
                    self.sp();
                    self.value(depth);
                }
                _ => self.value(depth),
            }
            self.sp();
        }
        if self.rng.chance(1, 8) {
            self.out.push('\n');
        }
    }
}

fn gen_grammar_text(rng: &mut Rng) -> String {
    let mut g = G { rng, out: String::new() };
    g.ws();
    let depth = *g.rng.pick(&[0u32, 1, 2, 2, 3, 3, 4, 5]);
    g.value(depth);
    if g.rng.chance(1, 3) {
        g.ws();
    }
    g.out
}

// ------------------------------------------------------------------------------------------- generators: mutation

fn mutate(rng: &mut Rng, base: &[u8]) -> Vec<u8> {
    let mut b = base.to_vec();
    let n = 1 + rng.below(3);
    for _ in 0..n {
        let specials: &[&[u8]] = &[
            b"\"", b"\\", b"@", b"{", b"}", b"(", b")", b":", b",", b";", b"%", b"\n", b"\r", b" ", b"\\u", b"\\ud800", b"\\uDFFF",
            b"\\u12", b"0x", b"-", b"+", b".", b"e", b"=", b"#", b"\xc3", b"\xe2\x82", b"\xff", b"\xf0\x9f\x98\x80", b"\xc3\xa9", b"true",
            b"1e", b"@\"q\"",
        ];
        if b.is_empty() {
            b.extend_from_slice(*rng.pick(specials));
            continue;
        }
        let i = rng.below(b.len() as u64) as usize;
        match rng.below(7) {
            0 => {
                b.remove(i);
            }
            1 => {
                let s = rng.pick(specials).to_vec();
                for (k, x) in s.iter().enumerate() {
                    b.insert(i + k, *x);
                }
            }
            2 => b[i] = rng.next() as u8,
            3 => {
                let j = rng.below(b.len() as u64) as usize;
                let (lo, hi) = (i.min(j), i.max(j));
                let seg = b[lo..hi].to_vec();
                for (k, x) in seg.iter().enumerate() {
                    b.insert(hi + k, *x);
                }
            }
            4 => {
                b.truncate(i);
            }
            5 => {
                let j = rng.below(b.len() as u64) as usize;
                b.swap(i, j);
            }
            _ => {
                let s = rng.pick(specials).to_vec();
                b.splice(i..i + 1, s);
            }
        }
        if b.len() > 4096 {
            b.truncate(4096);
        }
    }
    b
}

/// A prefix of a document, cut where the parsers have to cope with running out of input: right after `@`, inside a
/// quoted string or attribute name, inside a `\u` escape, inside a number / blob, or anywhere.
fn truncated_text(rng: &mut Rng, model_safe: bool) -> String {
    let cfg = VCfg { bad_attr_names: true, nonfinite: false, risky_shapes: false };
    // printed floats have up to 17 digits: a prefix of one is no longer a shortest decimal (outside the model's floats)
    let base = if model_safe || rng.chance(1, 2) { gen_grammar_text(rng) } else { print_style(*rng.pick(&['S', 'C', 'P']), &gen_value(rng, 3, cfg)) };
    let chars: Vec<char> = base.chars().collect();
    if chars.is_empty() {
        return (*rng.pick(&["@", "@\"", "@\"a", "\"\\u12", "\"\\u", "\"\\", "@a(", "{", "-", "0x", "1e", "%A", "1.", "@a @"])).to_string();
    }
    let interesting: Vec<usize> = (0..chars.len())
        .filter(|&i| matches!(chars[i], '@' | '"' | '\\' | 'u' | '(' | '{' | ':' | ',' | '%' | '-' | '.' | 'e' | 'x'))
        .map(|i| i + 1)
        .collect();
    let cut = if !interesting.is_empty() && rng.chance(3, 4) {
        let c = *rng.pick(&interesting);
        (c + rng.below(3) as usize).min(chars.len())
    } else {
        rng.below(chars.len() as u64 + 1) as usize
    };
    let mut s: String = chars[..cut].iter().collect();
    if rng.chance(1, 8) {
        s.push_str(*rng.pick(&["@", "@\"", "\"", "\\", "\\u", "\\u1", "\\ud8", " @", "\n@\"q"]));
    }
    s
}

/// 2–4 short documents for one decoder instance, malformed ones in any position.  `model_safe`: only what the model
/// is an oracle for (grammar documents, their truncations, a stray closing character, one byte that is not UTF-8).
fn seq_docs(rng: &mut Rng, model_safe: bool) -> Vec<Vec<u8>> {
    const BAD: &[&str] = &["{a:1,]b:2}", "@a(]", "{,)}", "{a:1,b:", "@tag{b:2,c:{3,4}", ")", "{1 2}", "@a(1}", "\"x\\q\"", "{a::1}", "0x", "%A=", "{a:1}}", "@", "{\"k\":@}", "1e", "@a @"];
    const GOOD: &[&str] = &["@tag{b:2,c:{3,4}}", "b:2}", "12345", "abc", "-1", "{a:1,b:2}", "@a(1,2) {x:\"y\"}", "", " ", "\"s\"", "@a", "{}", "{a:}", "1.5", "%AAEC", "true", "@a{1}@b", "x:1"];
    let cfg = VCfg { bad_attr_names: true, nonfinite: false, risky_shapes: model_safe };
    let n = 2 + rng.below(3) as usize;
    // `pristine = false`: the document is going to be edited; a printed float (up to 17 digits) cut or split by the edit
    // is no longer a shortest decimal, i.e. outside the model's floats: take grammar documents (<= 15 digits) then
    let short_good = |rng: &mut Rng, pristine: bool| -> Vec<u8> {
        for _ in 0..6 {
            let t = match if model_safe && !pristine { 0 } else { rng.below(3) } {
                0 => gen_grammar_text(rng),
                1 => print_style(*rng.pick(&['S', 'C', 'P']), &gen_value(rng, 2, cfg)),
                _ => print_style('C', &gen_prim(rng, cfg)),
            };
            if t.len() <= 40 {
                return t.into_bytes();
            }
        }
        (*rng.pick(GOOD)).as_bytes().to_vec()
    };
    let mut docs: Vec<Vec<u8>> = vec![];
    for _ in 0..n {
        let d: Vec<u8> = match rng.below(12) {
            0..=2 => short_good(rng, true),
            3 => (*rng.pick(GOOD)).as_bytes().to_vec(),
            4..=5 => (*rng.pick(BAD)).as_bytes().to_vec(),
            6..=7 => {
                // a stray character somewhere inside: the error is seen before the end of the document
                let mut d = short_good(rng, false);
                let at = rng.below(d.len() as u64 + 1) as usize;
                d.insert(at, *rng.pick(&[b']', b')', b'}', b'#', b':', b'@', b'"', b'\\']));
                d
            }
            8 => {
                let t = truncated_text(rng, model_safe);
                let mut b = t.into_bytes();
                b.truncate(40);
                while std::str::from_utf8(&b).is_err() {
                    b.pop();
                }
                b
            }
            9 => {
                // not UTF-8 from some point on (or a multi-byte character cut short at the end)
                let mut d = short_good(rng, false);
                if rng.chance(1, 3) {
                    d.extend_from_slice("é".as_bytes());
                    d.pop();
                } else {
                    let at = rng.below(d.len() as u64 + 1) as usize;
                    d.insert(at, *rng.pick(&[0xffu8, 0xc0, 0x80, 0xf8]));
                }
                d
            }
            _ => {
                if model_safe {
                    let mut d = short_good(rng, false);
                    d.extend_from_slice(*rng.pick(&[&b" "[..], b"}", b"\n", b",", b" 2", "é".as_bytes()]));
                    d
                } else {
                    let base = short_good(rng, false);
                    let mut m = mutate(rng, &base);
                    m.truncate(48);
                    m
                }
            }
        };
        docs.push(d);
    }
    docs
}

fn seq_case(rng: &mut Rng, w: &Watch, t: &Tr, model_safe: bool) {
    let docs = seq_docs(rng, model_safe);
    let total: usize = docs.iter().map(|d| d.len() + 8).sum();
    let op = format!("seq {} all", seq_hex(&docs));
    let o = seq_op(w, &op, &docs, "all");
    t.op(op, o);
    if total >= 3 {
        let mut cuts: Vec<usize> = (0..2 + rng.below(5)).map(|_| 1 + rng.below(total as u64 - 1) as usize).collect();
        cuts.sort();
        cuts.dedup();
        let cs = cuts.iter().map(|c| c.to_string()).collect::<Vec<_>>().join(",");
        let op = format!("seq {} {}", seq_hex(&docs), cs);
        let o = seq_op(w, &op, &docs, &cs);
        t.op(op, o);
    }
}

/// `chunksm`: as `chunk_case`, restricted to documents on which the model is an oracle (valid UTF-8, floats inside the
/// model's exact-decimal set, no byte-level mutation): the five fields are also compared with the decoder model.
fn chunkm_case(rng: &mut Rng, w: &Watch, t: &Tr) {
    if rng.chance(1, 3) {
        return seq_case(rng, w, t, true);
    }
    let cfg = VCfg { bad_attr_names: true, nonfinite: false, risky_shapes: true };
    let base: Vec<u8> = match rng.below(10) {
        0..=3 => gen_grammar_text(rng).into_bytes(),
        4..=5 => print_style(*rng.pick(&['S', 'C', 'P']), &gen_value(rng, 4, cfg)).into_bytes(),
        6 => {
            let d = rng.range(4, 30) as u32;
            print_style(*rng.pick(&['S', 'C', 'P']), &deep_chain(rng, d)).into_bytes()
        }
        7 => print_style('C', &gen_prim(rng, cfg)).into_bytes(),
        _ => truncated_text(rng, true).into_bytes(),
    };
    let cutspec = if base.len() <= 160 || rng.chance(1, 20) {
        "all".to_string()
    } else {
        let mut cuts: Vec<usize> = (0..1 + rng.below(6)).map(|_| 1 + rng.below(base.len() as u64 - 1) as usize).collect();
        cuts.sort();
        cuts.dedup();
        cuts.iter().map(|c| c.to_string()).collect::<Vec<_>>().join(",")
    };
    let op = format!("chunk {} {}", hex(&base), cutspec);
    let o = chunk_op(w, &op, &base, &cutspec);
    t.op(op, o);
    if base.len() >= 3 {
        let mut cuts: Vec<usize> = (0..2 + rng.below(5)).map(|_| 1 + rng.below(base.len() as u64 - 1) as usize).collect();
        cuts.sort();
        cuts.dedup();
        let cs = cuts.iter().map(|c| c.to_string()).collect::<Vec<_>>().join(",");
        let op = format!("chunk {} {}", hex(&base), cs);
        let o = chunk_op(w, &op, &base, &cs);
        t.op(op, o);
    }
}

fn chunk_case(rng: &mut Rng, w: &Watch, t: &Tr) {
    if rng.chance(1, 3) {
        return seq_case(rng, w, t, false);
    }
    let cfg = VCfg { bad_attr_names: false, nonfinite: false, risky_shapes: false };
    let base: Vec<u8> = match rng.below(12) {
        10 | 11 => truncated_text(rng, false).into_bytes(),
        0..=2 => gen_grammar_text(rng).into_bytes(),
        3..=5 => {
            let v = gen_value(rng, 4, cfg);
            print_style(*rng.pick(&['S', 'C', 'P']), &v).into_bytes()
        }
        6 => {
            let d = rng.range(8, 64) as u32;
            let v = deep_chain(rng, d);
            print_style(*rng.pick(&['S', 'C', 'P']), &v).into_bytes()
        }
        7 => {
            let v = gen_prim(rng, cfg);
            print_style('C', &v).into_bytes()
        }
        _ => {
            let s = if rng.chance(1, 2) { gen_grammar_text(rng) } else { print_style('S', &gen_value(rng, 3, cfg)) };
            mutate(rng, s.as_bytes())
        }
    };
    let cutspec = if base.len() <= 400 || rng.chance(1, 10) {
        "all".to_string()
    } else {
        let mut cuts: Vec<usize> = (0..1 + rng.below(6)).map(|_| 1 + rng.below(base.len() as u64 - 1) as usize).collect();
        cuts.sort();
        cuts.dedup();
        cuts.iter().map(|c| c.to_string()).collect::<Vec<_>>().join(",")
    };
    let op = format!("chunk {} {}", hex(&base), cutspec);
    let o = chunk_op(w, &op, &base, &cutspec);
    t.op(op, o);
    if base.len() >= 3 && rng.chance(1, 2) {
        let mut cuts: Vec<usize> = (0..2 + rng.below(5)).map(|_| 1 + rng.below(base.len() as u64 - 1) as usize).collect();
        cuts.sort();
        cuts.dedup();
        let cs = cuts.iter().map(|c| c.to_string()).collect::<Vec<_>>().join(",");
        let op = format!("chunk {} {}", hex(&base), cs);
        let o = chunk_op(w, &op, &base, &cs);
        t.op(op, o);
    }
}

fn text_case(rng: &mut Rng, w: &Watch, t: &Tr) {
    let s = if rng.chance(1, 6) { truncated_text(rng, true) } else { gen_grammar_text(rng) };
    let op = format!("parse {}", hex(s.as_bytes()));
    let o = parse_op(w, &op, s.as_bytes());
    t.op(op, o);
}

fn parse_op(w: &Watch, op: &str, bytes: &[u8]) -> String {
    match std::str::from_utf8(bytes) {
        Ok(s) => match guarded(w, op, || parse_one(s)) {
            Ok(r) => {
                let r = res_of(r);
                format!("{} {}", if r == "err" { "err" } else { "ok" }, r)
            }
            Err(()) => "panic panic".into(),
        },
        Err(_) => "err err".into(),
    }
}

// ------------------------------------------------------------------------------------------- replay / main

/// `sv-c09x` (same source, `include!`d) executes every op on replay; `sv-c09` — whose traces are also compared with the
/// model — answers `skipped` for the implementation-vs-implementation ops (`chunk`, `typed`), as the model does.
fn is_full() -> bool {
    std::env::args().next().map(|a| a.ends_with("sv-c09x")).unwrap_or(false)
}

fn exec(w: &Watch, t: &Tr, op: &str) {
    let parts: Vec<&str> = op.split_whitespace().collect();
    let out = match parts.as_slice() {
        ["chunk", ..] | ["typed", ..] | ["seq", ..] if !is_full() => "skipped".into(),
        ["print", s, e] => match vdec(e) {
            Some(v) => {
                let st = s.chars().next().unwrap();
                guarded(w, op, || format!("text {}", hex(print_style(st, &v).as_bytes()))).unwrap_or_else(|_| "panic".into())
            }
            None => "bad-op".into(),
        },
        ["cycle", s, e] => match vdec(e) {
            Some(v) => cycle(w, op, s.chars().next().unwrap(), &v),
            None => "bad-op".into(),
        },
        ["parse", h] => match unhex(h) {
            Some(b) => parse_op(w, op, &b),
            None => "bad-op".into(),
        },
        ["chunk", h, cs] => match unhex(h) {
            Some(b) => chunk_op(w, op, &b, cs),
            None => "bad-op".into(),
        },
        ["seq", hs, cs] => match hs.split('.').map(unhex).collect::<Option<Vec<Vec<u8>>>>() {
            Some(docs) => seq_op(w, op, &docs, cs),
            None => "bad-op".into(),
        },
        ["typed", kind, h] => match unhex(h).and_then(|b| String::from_utf8(b).ok()) {
            // the op carries the compact print of the typed value: rebuild the value from it
            Some(text) => match *kind {
                "plain" => typed_replay::<Plain>(w, op, &text),
                "tagged" => typed_replay::<Tagged>(w, op, &text),
                "shape" => typed_replay::<Shape>(w, op, &text),
                "outer" => typed_replay::<Outer>(w, op, &text),
                _ => "bad-op".into(),
            },
            None => "bad-op".into(),
        },
        _ => "bad-op".into(),
    };
    t.op(op, out);
}

/// Trace writer shared with the watchdog thread (never locked while the real code runs).
struct Tr {
    out: Mutex<std::io::BufWriter<std::fs::File>>,
}

impl Tr {
    fn case(&self, id: impl std::fmt::Display) {
        use std::io::Write;
        writeln!(self.out.lock().unwrap(), "case {}", id).unwrap();
    }
    fn op(&self, op: impl std::fmt::Display, out: impl std::fmt::Display) {
        use std::io::Write;
        writeln!(self.out.lock().unwrap(), "{} ;; {}", op, out).unwrap();
    }
    fn flush(&self) {
        use std::io::Write;
        self.out.lock().unwrap().flush().unwrap();
    }
}

pub fn main() {
    std::panic::set_hook(Box::new(|info| {
        if !IN_GUARD.load(Ordering::SeqCst) {
            eprintln!("harness panic: {}", info);
        }
    }));
    let mode = parse_args();
    let w = Arc::new(Watch { started: AtomicU64::new(0), current: Mutex::new(String::new()) });
    let out_path = match &mode {
        Mode::Gen { out, .. } => out.clone(),
        Mode::Replay { out, .. } => out.clone(),
    };
    let t = Arc::new(Tr { out: Mutex::new(std::io::BufWriter::new(std::fs::File::create(&out_path).expect("trace file"))) });
    {
        let w = w.clone();
        let t = t.clone();
        std::thread::spawn(move || loop {
            std::thread::sleep(std::time::Duration::from_millis(500));
            let st = w.started.load(Ordering::SeqCst);
            if st != 0 && now_ms() - st > HANG_BUDGET_MS {
                let op = w.current.lock().unwrap().clone();
                t.op(op, "hang");
                t.flush();
                std::process::exit(0);
            }
        });
    }
    match mode {
        Mode::Gen { seed, cases, .. } => {
            let engine = std::env::args().nth(5).unwrap_or_else(|| "values".into());
            let mut rng = Rng::new(seed ^ match engine.as_str() {
                "values" => 0x1100,
                "texts" => 0x2200,
                "chunks" => 0x3300,
                "chunksm" => 0x5500,
                _ => 0x4400,
            });
            for c in 0..cases {
                let mut case_rng = rng.fork();
                t.case(format!("{} seed={} {}", c, seed, engine));
                match engine.as_str() {
                    "values" => value_case(&mut case_rng, &w, &t),
                    "texts" => text_case(&mut case_rng, &w, &t),
                    "chunks" => chunk_case(&mut case_rng, &w, &t),
                    "chunksm" => chunkm_case(&mut case_rng, &w, &t),
                    _ => typed_case(&mut case_rng, &w, &t),
                }
            }
        }
        Mode::Replay { ops, .. } => {
            for (i, case) in ops.iter().enumerate() {
                t.case(i);
                for op in case {
                    exec(&w, &t, op);
                }
            }
        }
    }
    t.flush();
}
