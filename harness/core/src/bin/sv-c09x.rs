//! Same program as `sv-c09` (see there); under this name replay executes the `chunk` / `typed` ops as well.
#[path = "sv-c09.rs"]
mod imp;

fn main() {
    imp::main()
}
