//! C14 (command lanes, runtime half): the REAL read task of the agent runtime (`read_task`, `LaneSender::feed_frame`
//! / `flush`, `flush_lane`, `needs_flush`) driven through the public API: `AgentRouteTask::run_agent` runs an `Agent`
//! implemented by the harness that only registers `n` command lanes and hands their byte channels to the harness,
//! which plays the agent side (reads the raw `LaneRequest` frames when the script says so). Remotes are attached over
//! byte channels; every command body is unique.
//!
//! The runtime is started with reporting enabled (`NodeReporting`): every lane's `UplinkReportReader` and the aggregate
//! reader are snapshotted when the script says `snap` (C20: command counters).
//!
//! ops:  new <nlanes> [<lane-input-capacity> [<k>]] | send <r> <l> cmd <b> | send <r> <l> link|sync|unlink
//!       | take <l> <n> | drain | snap
//!       (a leading `!` on `send` = do not let the runtime settle: the next request races with it)
//!       the last <k> lanes are MAP lanes: a body < 900000 is sent to them as `@update(key:b) b`, a body >= 900000 as the
//!       plain number (not a map operation: the lane's sender rejects it); value-like lanes get the plain number.
//! out:  snap <command count of lane 0>,<lane 1>,… agg=<aggregate command count>
//! out:  ok | got <requests read from the lane: cmd:<b> / sync:<r>> | (drain) all <l>:<request>,…
use std::collections::{BTreeMap, HashMap};
use std::num::NonZeroUsize;
use std::sync::{Arc, Mutex};
use std::time::Duration;

use bytes::Bytes;
use futures::future::BoxFuture;
use futures::{FutureExt, SinkExt, StreamExt};
use svh::{parse_args, Mode, Rng, Trace};
use swimos_agent_protocol::encoding::lane::{RawMapLaneRequestDecoder, RawValueLaneRequestDecoder};
use swimos_agent_protocol::{LaneRequest, MapMessage};
use swimos_api::address::RelativeAddress;
use swimos_api::agent::{Agent, AgentConfig, AgentContext, AgentInitResult, LaneConfig, WarpLaneKind};
use swimos_messages::protocol::{RawRequestMessageEncoder, RequestMessage};
use swimos_runtime::agent::reporting::{UplinkReportReader, UplinkReporter};
use swimos_runtime::agent::{
    AgentAttachmentRequest, AgentRouteChannels, AgentRouteDescriptor, AgentRouteTask, AgentRuntimeConfig,
    CombinedAgentConfig, NodeReporting, UplinkReporterRegistration,
};
use swimos_utilities::byte_channel::{byte_channel, ByteReader, ByteWriter};
use swimos_utilities::routing::RouteUri;
use swimos_utilities::trigger::{self, promise};
use tokio::sync::mpsc;
use tokio_util::codec::{FramedRead, FramedWrite};
use uuid::Uuid;

type LaneIo = Arc<Mutex<Vec<(ByteWriter, ByteReader)>>>;

/// An agent that registers `n` command lanes (`c0 … c<n-1>`), gives their channels to the harness and then idles.
struct LaneHolder {
    n: usize,
    maps: usize,
    cap: usize,
    io: LaneIo,
}

impl Agent for LaneHolder {
    fn run(
        &self,
        _route: RouteUri,
        _route_params: HashMap<String, String>,
        _config: AgentConfig,
        context: Box<dyn AgentContext + Send>,
    ) -> BoxFuture<'static, AgentInitResult> {
        let n = self.n;
        let maps = self.maps;
        let cap = self.cap;
        let io = self.io.clone();
        async move {
            for i in 0..n {
                let cfg = LaneConfig {
                    input_buffer_size: NonZeroUsize::new(cap.max(1)).unwrap(),
                    output_buffer_size: NonZeroUsize::new(4096).unwrap(),
                    transient: true,
                };
                let chans = context
                    .add_lane(
                        &format!("c{}", i),
                        if i + maps >= n { WarpLaneKind::Map } else { WarpLaneKind::Command },
                        cfg,
                    )
                    .await
                    .expect("lane registration failed");
                io.lock().unwrap().push(chans);
            }
            let task: BoxFuture<'static, Result<(), swimos_api::error::AgentTaskError>> = async move {
                let _keep = context;
                futures::future::pending::<()>().await;
                Ok(())
            }
            .boxed();
            Ok(task)
        }
        .boxed()
    }
}

struct RemoteCtx {
    id: Uuid,
    tx: FramedWrite<ByteWriter, RawRequestMessageEncoder>,
    _rx: ByteReader,
    _completion: promise::Receiver<swimos_runtime::agent::DisconnectionReason>,
}

enum LaneRx {
    Value(FramedRead<ByteReader, RawValueLaneRequestDecoder>),
    Map(FramedRead<ByteReader, RawMapLaneRequestDecoder>),
}

/// One request as text, or `None` at the end of the stream.
enum Got {
    Req(String),
    Closed,
}

impl LaneRx {
    async fn next(&mut self) -> Got {
        match self {
            LaneRx::Value(rx) => match rx.next().await {
                Some(Ok(LaneRequest::Command(b))) => Got::Req(format!("cmd:{}", String::from_utf8_lossy(b.as_ref()))),
                Some(Ok(LaneRequest::Sync(id))) => Got::Req(format!("sync:{}", id.as_u128() - 0x2000)),
                Some(Ok(LaneRequest::InitComplete)) => Got::Req("init-complete".into()),
                Some(Err(_)) => Got::Req("decode-error".into()),
                None => Got::Closed,
            },
            LaneRx::Map(rx) => match rx.next().await {
                Some(Ok(LaneRequest::Command(MapMessage::Update { key, value }))) => {
                    let k = String::from_utf8_lossy(key.as_ref()).to_string();
                    let v = String::from_utf8_lossy(value.as_ref()).to_string();
                    if k == v {
                        Got::Req(format!("cmd:{}", k))
                    } else {
                        Got::Req(format!("cmd:{}!{}", k, v))
                    }
                }
                Some(Ok(LaneRequest::Command(_))) => Got::Req("cmd:other-map-message".into()),
                Some(Ok(LaneRequest::Sync(id))) => Got::Req(format!("sync:{}", id.as_u128() - 0x2000)),
                Some(Ok(LaneRequest::InitComplete)) => Got::Req("init-complete".into()),
                Some(Err(_)) => Got::Req("decode-error".into()),
                None => Got::Closed,
            },
        }
    }
}

struct Rig {
    att_tx: mpsc::Sender<AgentAttachmentRequest>,
    remotes: BTreeMap<u64, RemoteCtx>,
    lanes: Vec<(ByteWriter, LaneRx)>,
    maps: usize,
    readers: Vec<Option<UplinkReportReader>>,
    agg_reader: UplinkReportReader,
}

impl Rig {
    async fn settle(&self) {
        tokio::time::sleep(Duration::from_millis(40)).await;
    }

    async fn remote(&mut self, r: u64) -> Option<&mut RemoteCtx> {
        if !self.remotes.contains_key(&r) {
            let id = Uuid::from_u128(0x2000 + r as u128);
            let (to_agent_tx, to_agent_rx) = byte_channel(NonZeroUsize::new(1 << 16).unwrap());
            let (from_agent_tx, from_agent_rx) = byte_channel(NonZeroUsize::new(1 << 16).unwrap());
            let (ctx_tx, ctx_rx) = promise::promise();
            let (on_tx, on_rx) = trigger::trigger();
            let req = AgentAttachmentRequest::with_confirmation(id, (from_agent_tx, to_agent_rx), ctx_tx, on_tx);
            if self.att_tx.send(req).await.is_err() {
                return None;
            }
            let _ = tokio::time::timeout(Duration::from_secs(5), on_rx).await;
            self.remotes.insert(
                r,
                RemoteCtx {
                    id,
                    tx: FramedWrite::new(to_agent_tx, Default::default()),
                    _rx: from_agent_rx,
                    _completion: ctx_rx,
                },
            );
        }
        self.remotes.get_mut(&r)
    }

    /// read up to `max` requests that are available on lane `l` without waiting for new ones
    async fn take(&mut self, l: usize, max: usize) -> Vec<String> {
        let mut out = vec![];
        if let Some((_, rx)) = self.lanes.get_mut(l) {
            for _ in 0..max {
                match tokio::time::timeout(Duration::from_millis(2), rx.next()).await {
                    Ok(Got::Req(q)) => {
                        let stop = q == "decode-error";
                        out.push(q);
                        if stop {
                            break;
                        }
                    }
                    Ok(Got::Closed) => {
                        out.push("closed".into());
                        break;
                    }
                    Err(_) => break,
                }
            }
        }
        out
    }

    async fn exec(&mut self, op: &str) -> String {
        let (op, nosettle) = match op.strip_prefix('!') {
            Some(rest) => (rest, true),
            None => (op, false),
        };
        let p: Vec<&str> = op.split_whitespace().collect();
        match p.as_slice() {
            ["send", r, l, rest @ ..] => {
                let r: u64 = r.parse().unwrap();
                let lane = format!("c{}", l);
                let nl = self.lanes.len();
                let is_map = l.parse::<usize>().map(|l| l < nl && l + self.maps >= nl).unwrap_or(false);
                let ctx = match self.remote(r).await {
                    Some(c) => c,
                    None => return "agent-gone".into(),
                };
                let path = RelativeAddress::new("/node", lane.as_str());
                let msg: RequestMessage<&str, Bytes> = match rest {
                    ["cmd", b] => {
                        let valid = b.parse::<u64>().map(|n| n < 900000).unwrap_or(false);
                        let body = if is_map && valid { format!("@update(key:{}) {}", b, b) } else { b.to_string() };
                        RequestMessage::command(ctx.id, path, Bytes::from(body.into_bytes()))
                    }
                    ["link"] => RequestMessage::link(ctx.id, path),
                    ["sync"] => RequestMessage::sync(ctx.id, path),
                    ["unlink"] => RequestMessage::unlink(ctx.id, path),
                    _ => return "bad-op".into(),
                };
                let _ = tokio::time::timeout(Duration::from_secs(5), ctx.tx.send(msg)).await;
                if !nosettle {
                    self.settle().await;
                }
                "ok".into()
            }
            ["take", l, n] => {
                let f = self.take(l.parse().unwrap(), n.parse().unwrap()).await;
                self.settle().await;
                if f.is_empty() {
                    "got -".into()
                } else {
                    format!("got {}", f.join(","))
                }
            }
            ["drain"] => {
                let mut per_lane: Vec<Vec<String>> = vec![vec![]; self.lanes.len()];
                for _ in 0..400 {
                    self.settle().await;
                    let mut got = false;
                    for l in 0..self.lanes.len() {
                        let f = self.take(l, 64).await;
                        got |= !f.is_empty();
                        per_lane[l].extend(f);
                    }
                    if !got {
                        break;
                    }
                }
                let all: Vec<String> = per_lane
                    .into_iter()
                    .enumerate()
                    .flat_map(|(l, v)| v.into_iter().map(move |q| format!("{}:{}", l, q)))
                    .collect();
                if all.is_empty() {
                    "all -".into()
                } else {
                    format!("all {}", all.join(","))
                }
            }
            ["snap"] => {
                let counts: Vec<String> = self
                    .readers
                    .iter()
                    .map(|r| match r.as_ref().and_then(|r| r.snapshot()) {
                        Some(s) => s.command_count.to_string(),
                        None => "none".to_string(),
                    })
                    .collect();
                let agg = match self.agg_reader.snapshot() {
                    Some(s) => s.command_count.to_string(),
                    None => "none".to_string(),
                };
                format!("snap {} agg={}", if counts.is_empty() { "-".to_string() } else { counts.join(",") }, agg)
            }
            _ => "bad-op".into(),
        }
    }
}

async fn run_case_async(ops: Vec<String>) -> Vec<(String, String)> {
    let mut results = vec![];
    let first: Vec<&str> = ops.first().map(|s| s.split_whitespace().collect()).unwrap_or_default();
    let (n, cap, maps) = match first.as_slice() {
        ["new", n] => (n.parse::<usize>().unwrap_or(1), 1usize << 16, 0usize),
        ["new", n, cap] => (n.parse::<usize>().unwrap_or(1), cap.parse::<usize>().unwrap_or(1 << 16), 0),
        ["new", n, cap, k] => (
            n.parse::<usize>().unwrap_or(1),
            cap.parse::<usize>().unwrap_or(1 << 16),
            k.parse::<usize>().unwrap_or(0),
        ),
        _ => {
            return ops.iter().map(|o| (o.clone(), "bad-op".to_string())).collect();
        }
    };
    results.push((ops[0].clone(), "ok".to_string()));
    let io: LaneIo = Arc::new(Mutex::new(vec![]));
    let agent = LaneHolder { n, maps, cap, io: io.clone() };
    let aggregate = UplinkReporter::default();
    let agg_reader = aggregate.reader();
    let (reg_tx, mut reg_rx) = mpsc::channel::<UplinkReporterRegistration>(64);
    let reporting = NodeReporting::new(Uuid::from_u128(1), aggregate, reg_tx);
    let (att_tx, att_rx) = mpsc::channel(16);
    let (_http_tx, http_rx) = mpsc::channel(16);
    let (link_tx, mut link_rx) = mpsc::channel(16);
    let (stop_tx, stop_rx) = trigger::trigger();
    let long = Duration::from_secs(3600 * 24);
    let config = CombinedAgentConfig {
        agent_config: AgentConfig::DEFAULT,
        runtime_config: AgentRuntimeConfig {
            inactive_timeout: long,
            prune_remote_delay: long,
            shutdown_timeout: Duration::from_secs(600),
            ..Default::default()
        },
    };
    let task = AgentRouteTask::new(
        &agent,
        AgentRouteDescriptor {
            identity: Uuid::from_u128(1),
            route: "/node".parse().unwrap(),
            route_params: HashMap::new(),
        },
        AgentRouteChannels::new(att_rx, http_rx, link_tx),
        stop_rx,
        config,
        Some(reporting),
    );
    let failed: Arc<Mutex<Option<String>>> = Arc::new(Mutex::new(None));
    let failed2 = failed.clone();
    let agent_fut = async move {
        let r = task.run_agent().await;
        *failed2.lock().unwrap() = Some(match r {
            Err(e) => format!("{:?}", e).replace(' ', "_"),
            Ok(()) => "runtime-returned-early".to_string(),
        });
        futures::future::pending::<()>().await;
    };
    let links = async move { while link_rx.recv().await.is_some() {} };
    let driver = async {
        // wait for the lanes to be registered
        for _ in 0..100 {
            tokio::time::sleep(Duration::from_millis(10)).await;
            if io.lock().unwrap().len() == n {
                break;
            }
        }
        let lanes: Vec<_> = std::mem::take(&mut *io.lock().unwrap())
            .into_iter()
            .enumerate()
            .map(|(i, (tx, rx))| {
                if i + maps >= n {
                    (tx, LaneRx::Map(FramedRead::new(rx, RawMapLaneRequestDecoder::default())))
                } else {
                    (tx, LaneRx::Value(FramedRead::new(rx, RawValueLaneRequestDecoder::default())))
                }
            })
            .collect();
        let mut readers: Vec<Option<UplinkReportReader>> = vec![None; n];
        while let Ok(reg) = reg_rx.try_recv() {
            if let Some(i) = reg.lane_name.as_str().strip_prefix('c').and_then(|x| x.parse::<usize>().ok()) {
                if i < n {
                    readers[i] = Some(reg.reader);
                }
            }
        }
        let mut rig = Rig { att_tx, remotes: BTreeMap::new(), lanes, maps, readers, agg_reader };
        let mut out = vec![];
        for op in ops.iter().skip(1) {
            let o = rig.exec(op).await;
            out.push((op.clone(), o));
        }
        stop_tx.trigger();
        out
    };
    tokio::select! {
        biased;
        out = driver => results.extend(out),
        _ = agent_fut => {},
        _ = links => {},
    }
    if let Some(why) = failed.lock().unwrap().clone() {
        results.push(("end".to_string(), format!("runtime-failed {}", why)));
    }
    results
}

fn run_case(t: &mut Trace, ops: &[String]) {
    let rt = tokio::runtime::Builder::new_current_thread()
        .enable_time()
        .start_paused(true)
        .build()
        .unwrap();
    let ops_v = ops.to_vec();
    let res = std::panic::catch_unwind(std::panic::AssertUnwindSafe(|| {
        rt.block_on(async move { tokio::time::timeout(Duration::from_secs(3600 * 48), run_case_async(ops_v)).await })
    }));
    match res {
        Ok(Ok(lines)) => {
            for (op, o) in lines {
                t.op(op, o);
            }
        }
        Ok(Err(_)) => t.op("end", "hang"),
        Err(_) => t.op("end", "panic"),
    }
}

/// `race = false`: every request is followed by a settle (deterministic: compared with the model);
/// `race = true`: bursts from several remotes without settling and small lane buffers (monitor only).
fn gen_case(rng: &mut Rng, race: bool) -> Vec<String> {
    let nl = rng.range(1, 3);
    // the last `maps` lanes are map lanes (their sender rejects bodies that are not map operations)
    let maps = rng.below(nl + 1).min(2);
    let cap = if race { *rng.pick(&[8usize, 24, 64, 1 << 16]) } else { 1 << 16 };
    let mut ops = vec![format!("new {} {} {}", nl, cap, maps)];
    let nr = rng.range(1, 3);
    let len = rng.range(3, 40);
    let mut seq = 0u64;
    for _ in 0..len {
        let r = rng.range(1, nr);
        // now and then a lane that does not exist
        let l = if rng.chance(1, 12) { nl + rng.below(2) } else { rng.below(nl) };
        let c = rng.below(100);
        let bang = if race && rng.chance(2, 3) { "!" } else { "" };
        if c < 58 {
            seq += 1;
            // one command in six has a body that is not a map operation
            let body = if rng.chance(1, 6) { 900000 + r * 10000 + seq } else { r * 100000 + seq };
            ops.push(format!("{}send {} {} cmd {}", bang, r, l, body));
        } else if c < 66 {
            ops.push(format!("{}send {} {} sync", bang, r, l));
        } else if c < 72 {
            ops.push(format!("{}send {} {} {}", bang, r, l, if rng.chance(1, 2) { "link" } else { "unlink" }));
        } else if c < 88 {
            ops.push(format!("take {} {}", rng.below(nl), rng.range(1, 4)));
        } else if c < 95 {
            ops.push("snap".into());
        } else {
            ops.push("drain".into());
        }
    }
    ops.push("drain".into());
    ops.push("snap".into());
    ops
}

fn main() {
    std::panic::set_hook(Box::new(|_| {}));
    match parse_args() {
        Mode::Gen { seed, cases, out } => {
            let race = std::env::args().nth(5).as_deref() == Some("race");
            let mut t = Trace::create(&out);
            let mut rng = Rng::new(seed);
            for c in 0..cases {
                let ops = gen_case(&mut rng, race);
                t.case(format!("{} seed={}", c, seed));
                run_case(&mut t, &ops);
            }
            t.finish();
        }
        Mode::Replay { ops, out } => {
            let mut t = Trace::create(&out);
            for (i, case) in ops.iter().enumerate() {
                t.case(i);
                run_case(&mut t, case);
            }
            t.finish();
        }
    }
}
