//! C20 support engine: the real `UplinkReporter` counters under real thread interleavings. Several threads count
//! events and commands while another thread takes snapshots; afterwards everything counted must have been reported
//! by exactly one snapshot (the interleaving theorem `C20_counter_interleaving_conserved` says so for the model of
//! the atomic steps; this run looks for an interleaving on which the implementation disagrees).
//! op: `stress <threads> <per-thread> <max-amount>`  output: `added=<e>,<c> taken=<e>,<c>`
use std::sync::atomic::{AtomicBool, Ordering};
use std::sync::Arc;

use svh::{parse_args, Mode, Rng, Trace};
use swimos_runtime::agent::reporting::UplinkReporter;

fn stress(threads: u64, per: u64, max_amount: u64) -> String {
    let reporter = UplinkReporter::default();
    let reader = reporter.reader();
    let done = Arc::new(AtomicBool::new(false));
    let mut handles = vec![];
    for t in 0..threads {
        let r = reporter.clone();
        handles.push(std::thread::spawn(move || {
            let (mut e, mut c) = (0u64, 0u64);
            for i in 0..per {
                let a = 1 + (i + t) % max_amount;
                r.count_events(a);
                e += a;
                if i % 3 == 0 {
                    r.count_commands(1);
                    c += 1;
                }
            }
            (e, c)
        }));
    }
    let d = done.clone();
    let rd = reader.clone();
    let snapper = std::thread::spawn(move || {
        let (mut e, mut c) = (0u64, 0u64);
        while !d.load(Ordering::Acquire) {
            if let Some(s) = rd.snapshot() {
                e += s.event_count;
                c += s.command_count;
            }
        }
        (e, c)
    });
    let (mut added_e, mut added_c) = (0u64, 0u64);
    for h in handles {
        let (e, c) = h.join().unwrap();
        added_e += e;
        added_c += c;
    }
    done.store(true, Ordering::Release);
    let (mut taken_e, mut taken_c) = snapper.join().unwrap();
    if let Some(s) = reader.snapshot() {
        taken_e += s.event_count;
        taken_c += s.command_count;
    }
    format!("added={},{} taken={},{}", added_e, added_c, taken_e, taken_c)
}

fn run_case(t: &mut Trace, ops: &[String]) {
    for op in ops {
        let parts: Vec<&str> = op.split_whitespace().collect();
        match parts.as_slice() {
            ["stress", th, per, max] => match (th.parse::<u64>(), per.parse::<u64>(), max.parse::<u64>()) {
                (Ok(th), Ok(per), Ok(max)) if (1..=8).contains(&th) && per <= 2_000_000 && (1..=1000).contains(&max) => {
                    t.op(op, stress(th, per, max))
                }
                _ => t.op(op, "bad-op"),
            },
            _ => t.op(op, "bad-op"),
        }
    }
}

fn main() {
    match parse_args() {
        Mode::Gen { seed, cases, out } => {
            let mut t = Trace::create(&out);
            let mut rng = Rng::new(seed);
            for c in 0..cases {
                let th = rng.range(2, 4);
                let per = rng.range(50_000, 200_000);
                let max = *rng.pick(&[1u64, 2, 3, 7]);
                t.case(format!("{} seed={}", c, seed));
                run_case(&mut t, &[format!("stress {} {} {}", th, per, max)]);
            }
            t.finish();
        }
        Mode::Replay { ops, out } => {
            let mut t = Trace::create(&out);
            for (i, case) in ops.iter().enumerate() {
                t.case(i);
                run_case(&mut t, case);
            }
            t.finish();
        }
    }
}
